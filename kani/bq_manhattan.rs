//@target src/distance/binary_quantized_manhattan.rs
#[cfg(kani)]
mod verif_kani_bq_manhattan {
    use super::*;
    fn hamming(a: &[u8], b: &[u8]) -> u32 {
        let mut h = 0u32;
        let mut i = 0;
        while i < a.len() { let mut x = a[i] ^ b[i]; let mut k = 0; while k < 8 { h += (x & 1) as u32; x >>= 1; k += 1; } i += 1; }
        h
    }
    /// Manhattan: built distance = 2h, reported = 2h/d
    #[kani::proof] #[kani::unwind(18)]
    fn bq_manhattan_is_2h_8_bytes() {
        let a: [u8; 8] = kani::any(); let b: [u8; 8] = kani::any();
        let ua: &UnalignedVector<BinaryQuantized> = UnalignedVector::from_bytes_unchecked(&a);
        let ub: &UnalignedVector<BinaryQuantized> = UnalignedVector::from_bytes_unchecked(&b);
        let h = hamming(&a, &b);
        let d = manhattan_distance_binary_quantized(ua, ub);
        assert!(d == (2 * h) as f32);
        assert!(manhattan_distance_binary_quantized(ub, ua) == d);
        let dims: usize = kani::any(); kani::assume(dims >= 1 && dims <= 64);
        assert!(BinaryQuantizedManhattan::normalized_distance(d, dims) == (2 * h) as f32 / dims as f32);
        kani::cover!(true);
    }
}
