//@target src/distance/binary_quantized_euclidean.rs
// Kani harnesses on the REAL xor/popcount distances of the binary-quantised metrics (C12).
// h = number of differing bits of the two byte strings (reference loop below).
#[cfg(kani)]
mod verif_kani_bq_distance {
    use super::*;

    fn hamming(a: &[u8], b: &[u8]) -> u32 {
        let mut h = 0u32;
        let mut i = 0;
        while i < a.len() { let mut x = a[i] ^ b[i]; let mut k = 0; while k < 8 { h += (x & 1) as u32; x >>= 1; k += 1; } i += 1; }
        h
    }
    /// Euclidean: built distance = 4h, reported = 4h/d; zero for equal patterns; symmetric
    #[kani::proof] #[kani::unwind(18)]
    fn bq_euclidean_is_4h_8_bytes() {
        let a: [u8; 8] = kani::any(); let b: [u8; 8] = kani::any();
        let ua: &UnalignedVector<BinaryQuantized> = UnalignedVector::from_bytes_unchecked(&a);
        let ub: &UnalignedVector<BinaryQuantized> = UnalignedVector::from_bytes_unchecked(&b);
        let h = hamming(&a, &b);
        let d = squared_euclidean_distance_binary_quantized(ua, ub);
        assert!(d == (4 * h) as f32);
        assert!(squared_euclidean_distance_binary_quantized(ub, ua) == d);
        let dims: usize = kani::any(); kani::assume(dims >= 1 && dims <= 64);
        assert!(BinaryQuantizedEuclidean::normalized_distance(d, dims) == (4 * h) as f32 / dims as f32);
        kani::cover!(true);
    }
    #[kani::proof] #[kani::unwind(18)]
    fn bq_euclidean_is_4h_16_bytes() {
        let a: [u8; 16] = kani::any(); let b: [u8; 16] = kani::any();
        let ua: &UnalignedVector<BinaryQuantized> = UnalignedVector::from_bytes_unchecked(&a);
        let ub: &UnalignedVector<BinaryQuantized> = UnalignedVector::from_bytes_unchecked(&b);
        let h = hamming(&a, &b);
        assert!(squared_euclidean_distance_binary_quantized(ua, ub) == (4 * h) as f32);
        kani::cover!(true);
    }
    /// dot product of +-1 vectors = (#equal bits) - (#different bits) = 8*len - 2h
    #[kani::proof] #[kani::unwind(18)]
    fn bq_dot_product_is_n_minus_2h_8_bytes() {
        let a: [u8; 8] = kani::any(); let b: [u8; 8] = kani::any();
        let ua: &UnalignedVector<BinaryQuantized> = UnalignedVector::from_bytes_unchecked(&a);
        let ub: &UnalignedVector<BinaryQuantized> = UnalignedVector::from_bytes_unchecked(&b);
        let h = hamming(&a, &b) as i32;
        assert!(dot_product_binary_quantized(ua, ub) == (64 - 2 * h) as f32);
        assert!(dot_product_binary_quantized(ua, ua) == 64.0);
        kani::cover!(true);
    }
}
