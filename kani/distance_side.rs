//@target src/distance/mod.rs
// Kani harnesses on the REAL default methods Distance::side and Distance::pq_distance (C04).
// A harness metric whose margin_no_header returns an arbitrary float drives the default `side`.
#[cfg(kani)]
mod verif_kani_distance_side {
    use super::*;
    use rand::{Error as RandError, RngCore};

    struct KRng;
    impl RngCore for KRng {
        fn next_u32(&mut self) -> u32 { kani::any() }
        fn next_u64(&mut self) -> u64 { kani::any() }
        fn fill_bytes(&mut self, dest: &mut [u8]) { for b in dest.iter_mut() { *b = kani::any(); } }
        fn try_fill_bytes(&mut self, dest: &mut [u8]) -> Result<(), RandError> { self.fill_bytes(dest); Ok(()) }
    }

    static mut MARGIN: f32 = 0.0;

    #[derive(Debug, Clone)]
    enum KDist {}
    impl Distance for KDist {
        type Header = NodeHeaderEuclidean;
        type VectorCodec = f32;
        fn name() -> &'static str { "k" }
        fn new_header(_v: &UnalignedVector<f32>) -> Self::Header { bytemuck::Zeroable::zeroed() }
        fn built_distance(_p: &Leaf<Self>, _q: &Leaf<Self>) -> f32 { 0.0 }
        fn norm_no_header(_v: &UnalignedVector<f32>) -> f32 { 0.0 }
        fn init(_n: &mut Leaf<Self>) {}
        fn create_split<'a, R: Rng>(_c: &'a ImmutableSubsetLeafs<Self>, _r: &mut R) -> heed::Result<Cow<'a, UnalignedVector<f32>>> { unimplemented!() }
        fn margin_no_header(_p: &UnalignedVector<f32>, _q: &UnalignedVector<f32>) -> f32 { unsafe { MARGIN } }
    }

    /// C04: an item is stored on the Right iff its margin is positive, on the Left iff negative (all f32 margins)
    #[kani::proof]
    #[kani::unwind(6)]
    fn side_follows_margin_sign() {
        let m: f32 = kani::any();
        unsafe { MARGIN = m; }
        let bytes = [0u8; 4];
        let v: &UnalignedVector<f32> = UnalignedVector::from_bytes_unchecked(&bytes);
        let leaf: Leaf<KDist> = Leaf { header: bytemuck::Zeroable::zeroed(), vector: Cow::Borrowed(v) };
        let mut rng = KRng;
        let s = KDist::side(v, &leaf, &mut rng);
        if m > 0.0 { assert!(matches!(s, Side::Right)); }
        if m < 0.0 { assert!(matches!(s, Side::Left)); }
        kani::cover!(true);
    }

    /// C04: the query-side priority prefers the child on the margin's side: for margin > 0 the Right child's
    /// priority is >= the Left child's, with equality exactly when the inherited bound d <= -margin; symmetric for < 0.
    #[kani::proof]
    fn pq_distance_prefers_the_margin_side() {
        let d: f32 = kani::any();
        let m: f32 = kani::any();
        kani::assume(!d.is_nan() && !m.is_nan());
        let l = KDist::pq_distance(d, m, Side::Left);
        let r = KDist::pq_distance(d, m, Side::Right);
        if m > 0.0 { assert!(r >= l); assert!((r == l) == (d <= -m)); }
        if m < 0.0 { assert!(l >= r); assert!((r == l) == (d <= m)); }
        // the priority never exceeds the inherited bound and never exceeds |margin| on that side
        assert!(l <= d && r <= d);
        assert!(l == if -m < d { -m } else { d });
        assert!(r == if m < d { m } else { d });
        kani::cover!(true);
    }

    /// roots are queued with +inf: the first split below a root gets priorities (-margin, margin)
    #[kani::proof]
    fn pq_distance_from_root() {
        let m: f32 = kani::any();
        kani::assume(!m.is_nan());
        let l = KDist::pq_distance(f32::INFINITY, m, Side::Left);
        let r = KDist::pq_distance(f32::INFINITY, m, Side::Right);
        assert!(l == -m && r == m);
        kani::cover!(true);
    }

    /// C16/C06/C18: the metric names stored in the metadata are the seven reference strings, pairwise distinct, NUL-free
    #[kani::proof]
    #[kani::unwind(30)]
    fn metric_names_are_reference_strings() {
        let names = [Euclidean::name(), Cosine::name(), Manhattan::name(), DotProduct::name(),
                     BinaryQuantizedEuclidean::name(), BinaryQuantizedCosine::name(), BinaryQuantizedManhattan::name()];
        let reference = ["euclidean", "cosine", "manhattan", "dot-product",
                         "binary quantized euclidean", "binary quantized cosine", "binary quantized manhattan"];
        let i: usize = kani::any(); kani::assume(i < 7);
        let j: usize = kani::any(); kani::assume(j < 7);
        assert!(names[i].as_bytes() == reference[i].as_bytes());
        if i != j { assert!(names[i].as_bytes() != names[j].as_bytes()); }
        let k: usize = kani::any(); kani::assume(k < names[i].len());
        assert!(names[i].as_bytes()[k] != 0);
        kani::cover!(true);
    }
    /// C03: the default oversampling is 1 for the four float metrics and 3 for the three quantised ones
    #[kani::proof]
    fn default_oversampling_constants() {
        assert!(Euclidean::DEFAULT_OVERSAMPLING == 1 && Cosine::DEFAULT_OVERSAMPLING == 1 && Manhattan::DEFAULT_OVERSAMPLING == 1 && DotProduct::DEFAULT_OVERSAMPLING == 1);
        assert!(BinaryQuantizedEuclidean::DEFAULT_OVERSAMPLING == 3 && BinaryQuantizedCosine::DEFAULT_OVERSAMPLING == 3 && BinaryQuantizedManhattan::DEFAULT_OVERSAMPLING == 3);
        kani::cover!(true);
    }
}
