//@target src/version.rs
// Kani on the REAL VersionCodec (C16): value = be32(major) ‖ be32(minor) ‖ be32(patch)
#[cfg(kani)]
mod verif_kani_version_codec {
    use super::*;
    use heed::{BytesDecode, BytesEncode};
    #[kani::proof]
    #[kani::unwind(14)]
    fn version_encode_is_reference_layout() {
        let v = Version { major: kani::any(), minor: kani::any(), patch: kani::any() };
        let r = VersionCodec::bytes_encode(&v);
        if let Ok(b) = &r {
            assert!(b.len() == 12);
            let exp = [(v.major >> 24) as u8, (v.major >> 16) as u8, (v.major >> 8) as u8, v.major as u8,
                       (v.minor >> 24) as u8, (v.minor >> 16) as u8, (v.minor >> 8) as u8, v.minor as u8,
                       (v.patch >> 24) as u8, (v.patch >> 16) as u8, (v.patch >> 8) as u8, v.patch as u8];
            let i: usize = kani::any(); kani::assume(i < 12);
            assert!(b[i] == exp[i]);
        } else { assert!(false); }
        core::mem::forget(r);
        kani::cover!(true);
    }
    #[kani::proof]
    #[kani::unwind(14)]
    fn version_decode_reads_reference_layout() {
        let b: [u8; 12] = kani::any();
        let r = VersionCodec::bytes_decode(&b);
        if let Ok(v) = &r {
            assert!(v.major == u32::from_be_bytes([b[0], b[1], b[2], b[3]]));
            assert!(v.minor == u32::from_be_bytes([b[4], b[5], b[6], b[7]]));
            assert!(v.patch == u32::from_be_bytes([b[8], b[9], b[10], b[11]]));
        } else { assert!(false); }
        core::mem::forget(r);
        kani::cover!(true);
    }
}
