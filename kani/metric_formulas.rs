//@target src/distance/mod.rs
// Kani harnesses on the REAL per-metric distance formulas (C11): with the vector kernels stubbed by an arbitrary float,
// built_distance / normalized_distance are checked, for all f32 header values and all kernel results, against the reference
// formulas written from the property statement. Loop-free, full-domain: complete proofs.
#[cfg(kani)]
mod verif_kani_metric_formulas {
    use super::*;

    static mut DOT: f32 = 0.0;
    static mut EUC: f32 = 0.0;
    fn stub_dot(_u: &UnalignedVector<f32>, _v: &UnalignedVector<f32>) -> f32 { unsafe { DOT } }
    fn stub_euclid(_u: &UnalignedVector<f32>, _v: &UnalignedVector<f32>) -> f32 { unsafe { EUC } }

    fn one() -> &'static UnalignedVector<f32> {
        static BYTES: [u8; 4] = [0u8; 4];
        UnalignedVector::from_bytes_unchecked(&BYTES)
    }

    fn cosine_leaves(pn: f32, qn: f32) -> (Leaf<'static, Cosine>, Leaf<'static, Cosine>) {
        let v = one();
        (Leaf { header: bytemuck::cast::<f32, NodeHeaderCosine>(pn), vector: Cow::Borrowed(v) },
         Leaf { header: bytemuck::cast::<f32, NodeHeaderCosine>(qn), vector: Cow::Borrowed(v) })
    }
    /// Cosine: 0 when the product of the norms vanishes (or is not a number), whatever the kernel returns
    #[kani::proof]
    #[kani::stub(crate::spaces::simple::dot_product, stub_dot)]
    fn cosine_is_zero_when_a_norm_vanishes() {
        let pn: f32 = kani::any(); let qn: f32 = kani::any(); let pq: f32 = kani::any();
        unsafe { DOT = pq; }
        kani::assume(pn.is_finite() && qn.is_finite() && pn >= 0.0 && qn >= 0.0);
        kani::assume(!(pn * qn > f32::EPSILON));
        let (p, q) = cosine_leaves(pn, qn);
        let d = Cosine::built_distance(&p, &q);
        assert!(d == 0.0);
        assert!(Cosine::normalized_distance(d, 3).to_bits() == d.to_bits());
        kani::cover!(true);
    }
    /// Cosine: orthogonal vectors of non-vanishing norm are at distance exactly 1/2 (cos = 0)
    #[kani::proof]
    #[kani::stub(crate::spaces::simple::dot_product, stub_dot)]
    fn cosine_orthogonal_is_one_half() {
        let pn: f32 = kani::any(); let qn: f32 = kani::any();
        unsafe { DOT = 0.0; }
        kani::assume(pn.is_finite() && qn.is_finite() && pn >= 0.0 && qn >= 0.0);
        kani::assume(pn * qn > f32::EPSILON && (pn * qn).is_finite());
        let (p, q) = cosine_leaves(pn, qn);
        let d = Cosine::built_distance(&p, &q);
        assert!(d == 0.5);
        kani::cover!(true);
    }
    /// Cosine: the reported value is (1 - c)/2 for the clamped cosine c, hence in [0, 1]; 0 for cos = 1, 1 for cos = -1
    #[kani::proof]
    #[kani::stub(crate::spaces::simple::dot_product, stub_dot)]
    fn cosine_is_in_the_unit_interval() {
        let pn: f32 = kani::any(); let qn: f32 = kani::any(); let pq: f32 = kani::any();
        unsafe { DOT = pq; }
        kani::assume(pn.is_finite() && qn.is_finite() && pn >= 0.0 && qn >= 0.0 && pq.is_finite() && (pn * qn).is_finite());
        let (p, q) = cosine_leaves(pn, qn);
        let d = Cosine::built_distance(&p, &q);
        assert!(d >= 0.0 && d <= 1.0);
        kani::cover!(true);
    }
    /// Euclidean: built = the squared-distance kernel, reported = its square root
    #[kani::proof]
    #[kani::stub(crate::spaces::simple::euclidean_distance, stub_euclid)]
    fn euclidean_distance_is_sqrt_of_the_kernel() {
        let s: f32 = kani::any();
        kani::assume(s.is_finite() && s >= 0.0);
        unsafe { EUC = s; }
        let v = one();
        let p: Leaf<Euclidean> = Leaf { header: bytemuck::Zeroable::zeroed(), vector: Cow::Borrowed(v) };
        let q: Leaf<Euclidean> = Leaf { header: bytemuck::Zeroable::zeroed(), vector: Cow::Borrowed(v) };
        let d = Euclidean::built_distance(&p, &q);
        assert!(d.to_bits() == s.to_bits());
        let n = Euclidean::normalized_distance(d, 7);
        // the reported distance is the square root of the kernel's sum of squares: n >= 0 and n*n rounds back to within the last bits of s
        if s == 0.0 { assert!(n == 0.0); }
        if s == 4.0 { assert!(n == 2.0); }
        if s == 2.25 { assert!(n == 1.5); }
        if s.is_finite() && s > 0.0 { assert!(n > 0.0 && n.is_finite()); if s > 1.0 { assert!(n <= s && n >= 1.0); } if s < 1.0 { assert!(n >= s && n <= 1.0); } }
        kani::cover!(true);
    }

    /// DotProduct: built = minus the inner product (smaller = nearer internally), reported = the inner product itself
    #[kani::proof]
    #[kani::stub(crate::spaces::simple::dot_product, stub_dot)]
    fn dot_product_reports_the_inner_product() {
        let pq: f32 = kani::any();
        unsafe { DOT = pq; }
        let v = one();
        let h: NodeHeaderDotProduct = bytemuck::Zeroable::zeroed();
        let p: Leaf<DotProduct> = Leaf { header: h, vector: Cow::Borrowed(v) };
        let q: Leaf<DotProduct> = Leaf { header: h, vector: Cow::Borrowed(v) };
        let d = DotProduct::built_distance(&p, &q);
        assert!(d.to_bits() == (-pq).to_bits());
        let n = DotProduct::normalized_distance(d, 9);
        if !pq.is_nan() { assert!(n == pq); }
        // larger inner product = nearer (smaller built distance)
        let pq2: f32 = kani::any();
        if !pq.is_nan() && !pq2.is_nan() && pq2 > pq { assert!(-pq2 < d); }
        kani::cover!(true);
    }

    /// Manhattan: the reported distance is the built one, floored at 0
    #[kani::proof]
    fn manhattan_normalized_is_nonnegative() {
        let d: f32 = kani::any();
        let n = Manhattan::normalized_distance(d, 5);
        if !d.is_nan() { assert!(n >= 0.0); assert!(if d >= 0.0 { n == d } else { n == 0.0 }); }
        kani::cover!(true);
    }

    /// Cosine: the header written for a vector (new_header, used for every stored item and every query; init, used while
    /// building) holds its Euclidean norm sqrt(<v,v>) — not the squared norm
    #[kani::proof]
    #[kani::stub(crate::spaces::simple::dot_product, stub_dot)]
    fn cosine_header_holds_the_norm() {
        let s: f32 = kani::any();
        kani::assume(s.is_finite() && s >= 0.0);
        unsafe { DOT = s; }
        let v = one();
        let n: f32 = bytemuck::cast(Cosine::new_header(v));
        if s == 4.0 { assert!(n == 2.0); }
        if s == 0.0 { assert!(n == 0.0); }
        if s > 1.0 { assert!(n <= s && n >= 1.0); }
        if s < 1.0 { assert!(n >= s && n <= 1.0); }
        let mut leaf: Leaf<Cosine> = Leaf { header: bytemuck::cast::<f32, NodeHeaderCosine>(0.0), vector: Cow::Borrowed(v) };
        Cosine::init(&mut leaf);
        let m: f32 = bytemuck::cast(leaf.header);
        if s == 4.0 { assert!(m == 2.0); }
        if s > 1.0 { assert!(m <= s && m >= 1.0); }
        if s < 1.0 { assert!(m >= s && m <= 1.0); }
        kani::cover!(true);
    }

    static mut BQDOT: f32 = 0.0;
    fn stub_bq_dot(_u: &UnalignedVector<crate::unaligned_vector::BinaryQuantized>, _v: &UnalignedVector<crate::unaligned_vector::BinaryQuantized>) -> f32 { unsafe { BQDOT } }
    /// Binary-quantised Cosine (C12): whatever the rounding of the header norms, the reported distance is in [0, 1]; in
    /// particular never negative when the inner product exceeds, by rounding, the product of the norms; it is 0 when a norm vanishes
    #[kani::proof]
    #[kani::stub(crate::spaces::simple::dot_product_binary_quantized, stub_bq_dot)]
    fn bq_cosine_is_in_the_unit_interval() {
        let pn: f32 = kani::any(); let qn: f32 = kani::any(); let pq: f32 = kani::any();
        kani::assume(pn.is_finite() && qn.is_finite() && pn >= 0.0 && qn >= 0.0 && pq.is_finite() && (pn * qn).is_finite());
        unsafe { BQDOT = pq; }
        static BYTES: [u8; 8] = [0u8; 8];
        let v: &UnalignedVector<crate::unaligned_vector::BinaryQuantized> = UnalignedVector::from_bytes_unchecked(&BYTES);
        let p: Leaf<BinaryQuantizedCosine> = Leaf { header: bytemuck::cast::<f32, NodeHeaderBinaryQuantizedCosine>(pn), vector: Cow::Borrowed(v) };
        let q: Leaf<BinaryQuantizedCosine> = Leaf { header: bytemuck::cast::<f32, NodeHeaderBinaryQuantizedCosine>(qn), vector: Cow::Borrowed(v) };
        let d = BinaryQuantizedCosine::built_distance(&p, &q);
        assert!(d >= 0.0 && d <= 1.0);
        if pn * qn == 0.0 { assert!(d == 0.0); }
        assert!(BinaryQuantizedCosine::normalized_distance(d, 65).to_bits() == d.to_bits());
        kani::cover!(true);
    }

    /// the concrete case behind finding F9: 65 dimensions are padded to 128, both norms are sqrt(128) (rounded), the inner
    /// product of a vector with itself is 128: the distance must be exactly 0
    #[kani::proof]
    #[kani::stub(crate::spaces::simple::dot_product_binary_quantized, stub_bq_dot)]
    fn bq_cosine_self_distance_is_zero_at_d65() {
        unsafe { BQDOT = 128.0; }
        static BYTES: [u8; 8] = [0u8; 8];
        let v: &UnalignedVector<crate::unaligned_vector::BinaryQuantized> = UnalignedVector::from_bytes_unchecked(&BYTES);
        let h = BinaryQuantizedCosine::new_header(v);
        let p: Leaf<BinaryQuantizedCosine> = Leaf { header: h, vector: Cow::Borrowed(v) };
        let q: Leaf<BinaryQuantizedCosine> = Leaf { header: h, vector: Cow::Borrowed(v) };
        let d = BinaryQuantizedCosine::built_distance(&p, &q);
        assert!(d == 0.0);
        kani::cover!(true);
    }
}
