//@target src/unaligned_vector/f32.rs
// Kani on the REAL f32 vector codec (C05): bit-exact round trip for every f32 bit pattern
#[cfg(kani)]
mod verif_kani_f32_codec {
    use super::*;
    #[kani::proof]
    #[kani::unwind(6)]
    fn f32_from_slice_roundtrip_is_bit_exact() {
        let x: [f32; 3] = kani::any();
        let v = <f32 as UnalignedVectorCodec>::from_slice(&x);
        assert!(v.len() == 3);
        let i: usize = kani::any(); kani::assume(i < 3);
        let got = v.iter().nth(i);
        match got { Some(g) => assert!(g.to_bits() == x[i].to_bits()), None => assert!(false) }
        let back = <f32 as UnalignedVectorCodec>::to_vec(&v);
        assert!(back.len() == 3 && back[i].to_bits() == x[i].to_bits());
        // stored bytes are the native-endian bytes of the floats
        assert!(v.as_bytes()[4 * i..4 * i + 4] == x[i].to_ne_bytes());
        core::mem::forget(v);
        kani::cover!(true);
    }
    #[kani::proof]
    #[kani::unwind(6)]
    fn f32_from_vec_is_bit_exact() {
        let x: [f32; 2] = kani::any();
        let v = <f32 as UnalignedVectorCodec>::from_vec(vec![x[0], x[1]]);
        assert!(v.len() == 2);
        let i: usize = kani::any(); kani::assume(i < 2);
        assert!(v.as_bytes()[4 * i..4 * i + 4] == x[i].to_ne_bytes());
        kani::cover!(true);
    }
    #[kani::proof]
    fn f32_from_bytes_size_check() {
        let bytes: [u8; 12] = kani::any();
        let n: usize = kani::any(); kani::assume(n <= 12);
        let r = <f32 as UnalignedVectorCodec>::from_bytes(&bytes[..n]);
        assert!(r.is_ok() == (n % 4 == 0));
        if let Ok(v) = &r { assert!(v.len() == n / 4); }
        core::mem::forget(r);
        kani::cover!(true);
    }
}
