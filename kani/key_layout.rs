//@target src/key.rs
//@needs-format-stub
// Kani harnesses on the REAL KeyCodec / PrefixCodec / NodeMode (appended to src/key.rs in the scratch copy).
// Reference layout (written from the property statement C16, independent of the encoder):
//   key    = be16(index) ‖ kind ‖ be32(id) ‖ 0      kinds: 0 metadata, 1 updated, 2 tree, 3 item
//   prefix = be16(index) [‖ kind]
#[cfg(kani)]
mod verif_kani_key_layout {
    extern crate alloc;
    use super::*;
    use heed::{BytesDecode, BytesEncode};

    fn no_format(_args: core::fmt::Arguments<'_>) -> String { String::new() }

    fn ref_kind(m: NodeMode) -> u8 {
        match m { NodeMode::Metadata => 0, NodeMode::Updated => 1, NodeMode::Tree => 2, NodeMode::Item => 3 }
    }
    fn any_mode() -> NodeMode {
        match kani::any::<u8>() % 4 { 0 => NodeMode::Metadata, 1 => NodeMode::Updated, 2 => NodeMode::Tree, _ => NodeMode::Item }
    }
    fn ref_key(index: u16, m: NodeMode, id: u32) -> [u8; 8] {
        [(index >> 8) as u8, index as u8, ref_kind(m), (id >> 24) as u8, (id >> 16) as u8, (id >> 8) as u8, id as u8, 0]
    }
    fn enc(k: &Key) -> Option<[u8; 8]> {
        let r = KeyCodec::bytes_encode(k);
        let mut out = None;
        if let Ok(b) = &r {
            if b.len() == 8 { let mut a = [0u8; 8]; a.copy_from_slice(b); out = Some(a); }
        }
        core::mem::forget(r);
        out
    }

    /// C16: every key the code writes is the reference layout (all index, kind, id)
    #[kani::proof]
    #[kani::unwind(10)]
    fn key_encode_is_reference_layout() {
        let index: u16 = kani::any();
        let id: u32 = kani::any();
        let m = any_mode();
        let k = Key::new(index, NodeId { mode: m, item: id });
        let got = enc(&k);
        assert!(got == Some(ref_key(index, m, id)));
        kani::cover!(true);
    }

    /// C16: every reference-layout key decodes to the triple it denotes; kinds 4..=255 are rejected
    #[kani::proof]
    #[kani::unwind(10)]
    #[kani::stub(alloc::fmt::format, no_format)]
    fn key_decode_accepts_reference_layout() {
        let bytes: [u8; 8] = kani::any();
        let r = KeyCodec::bytes_decode(&bytes);
        if let Ok(k) = &r {
            assert!(bytes[2] <= 3);
            assert!(k.index == ((bytes[0] as u16) << 8 | bytes[1] as u16));
            assert!(ref_kind(k.node.mode) == bytes[2]);
            assert!(k.node.item == ((bytes[3] as u32) << 24 | (bytes[4] as u32) << 16 | (bytes[5] as u32) << 8 | bytes[6] as u32));
        } else {
            assert!(bytes[2] > 3);
        }
        core::mem::forget(r);
        kani::cover!(true);
    }

    /// C07/C16: byte-wise lexicographic order of encoded keys == (index, kind, id) order,
    /// with metadata < updated < tree < item. Two fully symbolic keys.
    #[kani::proof]
    #[kani::unwind(10)]
    fn key_byte_order_is_tuple_order() {
        let (i1, i2): (u16, u16) = (kani::any(), kani::any());
        let (d1, d2): (u32, u32) = (kani::any(), kani::any());
        let (m1, m2) = (any_mode(), any_mode());
        let a = enc(&Key::new(i1, NodeId { mode: m1, item: d1 }));
        let b = enc(&Key::new(i2, NodeId { mode: m2, item: d2 }));
        if let (Some(a), Some(b)) = (a, b) {
            let t1 = (i1, ref_kind(m1), d1);
            let t2 = (i2, ref_kind(m2), d2);
            assert!((a < b) == (t1 < t2));
            assert!((a == b) == (t1 == t2));
        } else {
            assert!(false);
        }
        kani::cover!(true);
    }

    /// C07: a prefix's bytes are a byte-prefix of an encoded key iff the key belongs to the prefix
    #[kani::proof]
    #[kani::unwind(10)]
    fn prefix_selects_exactly_its_index_and_kind() {
        let pi: u16 = kani::any();
        let with_mode: bool = kani::any();
        let pm = any_mode();
        let p = if with_mode {
            Prefix { index: pi, mode: Some(pm) }
        } else { Prefix { index: pi, mode: None } };
        let (ki, kd): (u16, u32) = (kani::any(), kani::any());
        let km = any_mode();
        let kb = enc(&Key::new(ki, NodeId { mode: km, item: kd }));
        let r = PrefixCodec::bytes_encode(&p);
        if let (Ok(pb), Some(kb)) = (&r, kb) {
            assert!(pb.len() == if with_mode { 3 } else { 2 });
            assert!(pb[0] == (pi >> 8) as u8 && pb[1] == pi as u8);
            if with_mode { assert!(pb[2] == ref_kind(pm)); }
            let is_prefix = pb.len() <= 8 && pb[0] == kb[0] && pb[1] == kb[1] && (!with_mode || pb[2] == kb[2]);
            let belongs = ki == pi && (!with_mode || km == pm);
            assert!(is_prefix == belongs);
        } else {
            assert!(false);
        }
        core::mem::forget(r);
        kani::cover!(true);
    }

    /// C07: the range Key::tree(i,0) ..= Key::tree(i,MAX) used by delete_range contains exactly the tree keys of i
    #[kani::proof]
    #[kani::unwind(10)]
    fn tree_range_contains_exactly_tree_keys_of_index() {
        let i: u16 = kani::any();
        let lo = enc(&Key::tree(i, 0));
        let hi = enc(&Key::tree(i, u32::MAX));
        let (ki, kd): (u16, u32) = (kani::any(), kani::any());
        let km = any_mode();
        let kb = enc(&Key::new(ki, NodeId { mode: km, item: kd }));
        if let (Some(lo), Some(hi), Some(kb)) = (lo, hi, kb) {
            let inside = lo <= kb && kb <= hi;
            assert!(inside == (ki == i && km == NodeMode::Tree));
        } else {
            assert!(false);
        }
        kani::cover!(true);
    }

    /// C16: constructors produce the kinds / ids the layout prescribes (version record = (metadata, 1))
    #[kani::proof]
    fn key_constructors() {
        let i: u16 = kani::any();
        let id: u32 = kani::any();
        let k = Key::metadata(i); assert!(k.index == i && k.node.mode == NodeMode::Metadata && k.node.item == 0);
        let k = Key::version(i); assert!(k.index == i && k.node.mode == NodeMode::Metadata && k.node.item == 1);
        let k = Key::updated(i, id); assert!(k.index == i && k.node.mode == NodeMode::Updated && k.node.item == id);
        let k = Key::item(i, id); assert!(k.index == i && k.node.mode == NodeMode::Item && k.node.item == id);
        let k = Key::tree(i, id); assert!(k.index == i && k.node.mode == NodeMode::Tree && k.node.item == id);
        assert!(NodeMode::Metadata as u8 == 0 && NodeMode::Updated as u8 == 1 && NodeMode::Tree as u8 == 2 && NodeMode::Item as u8 == 3);
        kani::cover!(true);
    }
}
