//@target src/metadata.rs
// Kani on the REAL MetadataCodec (C16): value = name bytes ‖ 0 ‖ be32(dimensions) ‖ be32(len of the serialized item set) ‖
// serialized item set ‖ root ids (raw native-endian u32s).  The roaring serialisation itself is an external format: the two
// roaring calls of the encoder are stubbed (serialized_size = N, serialize_into writes N arbitrary bytes), with N symbolic in 0..=2; the metric name is the concrete reference name "cosine" (the seven names are proved elsewhere: distance_side::metric_names_are_reference_strings); everything else is symbolic.
#[cfg(kani)]
mod verif_kani_metadata_codec {
    use super::*;
    use heed::BytesEncode;

    static mut SER_LEN: usize = 0;
    static mut SER_BYTES: [u8; 3] = [0; 3];
    fn stub_size(_b: &RoaringBitmap) -> usize { unsafe { SER_LEN } }
    fn stub_ser<W: std::io::Write>(_b: &RoaringBitmap, mut w: W) -> std::io::Result<()> {
        unsafe { w.write_all(&SER_BYTES[..SER_LEN]) }
    }
    fn any_name() -> &'static str { "cosine" }

    #[kani::proof]
    #[kani::unwind(24)]
    #[kani::stub(roaring::RoaringBitmap::serialized_size, stub_size)]
    #[kani::stub(roaring::RoaringBitmap::serialize_into, stub_ser)]
    fn metadata_encode_is_reference_layout() {
        let n: usize = kani::any();
        kani::assume(n <= 2);
        let sb: [u8; 3] = kani::any();
        unsafe { SER_LEN = n; SER_BYTES = sb; }
        let roots: [u32; 2] = kani::any();
        let name = any_name();
        let dims: u32 = kani::any();
        let m = Metadata { dimensions: dims, items: RoaringBitmap::new(), roots: ItemIds::from_slice(&roots), distance: name };
        let r = MetadataCodec::bytes_encode(&m);
        if let Ok(b) = &r {
            let l = name.len();
            assert!(b.len() == l + 1 + 4 + 4 + n + 8);
            let i: usize = kani::any(); kani::assume(i < l); assert!(b[i] == name.as_bytes()[i]);
            assert!(b[l] == 0);
            assert!(b[l + 1..l + 5] == dims.to_be_bytes());
            assert!(b[l + 5..l + 9] == (n as u32).to_be_bytes());
            let j: usize = kani::any(); kani::assume(j < n); assert!(b[l + 9 + j] == sb[j]);
            let rb: [[u8; 4]; 2] = [roots[0].to_ne_bytes(), roots[1].to_ne_bytes()];
            let k: usize = kani::any(); kani::assume(k < 8); assert!(b[l + 9 + n + k] == rb[k / 4][k % 4]);
        } else { assert!(false); }
        core::mem::forget(r); core::mem::forget(m);
        kani::cover!(true);
    }

    // (A harness for bytes_decode on the same layout does not finish in 25 min of CBMC: CStr::from_bytes_until_nul and the UTF-8
    // validation of to_str are word-at-a-time code. The decoder is tied to this layout by the crate's own round-trip test.)
}
