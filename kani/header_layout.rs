//@target src/distance/dot_product.rs
// Kani on the REAL leaf header types (C16): a leaf is stored as tag ‖ raw header bytes ‖ vector bytes (node_codec.rs proves that
// composition), so the declaration order and size of the `#[repr(C)]` header structs IS the on-disk layout.
#[cfg(kani)]
mod verif_kani_header_layout {
    use super::*;
    use crate::distance::{
        NodeHeaderBinaryQuantizedCosine, NodeHeaderBinaryQuantizedEuclidean, NodeHeaderBinaryQuantizedManhattan, NodeHeaderCosine,
        NodeHeaderEuclidean, NodeHeaderManhattan,
    };

    /// DotProduct: `extra_dim` (4 bytes, native order) then `norm` (4 bytes) — for all pairs of f32 bit patterns
    #[kani::proof]
    fn dot_product_header_is_extra_dim_then_norm() {
        let a: u32 = kani::any();
        let b: u32 = kani::any();
        let h = NodeHeaderDotProduct { extra_dim: f32::from_bits(a), norm: f32::from_bits(b) };
        let bytes = bytemuck::bytes_of(&h);
        assert!(bytes.len() == 8);
        let (ab, bb) = (a.to_ne_bytes(), b.to_ne_bytes());
        let i: usize = kani::any();
        kani::assume(i < 4);
        assert!(bytes[i] == ab[i] && bytes[4 + i] == bb[i]);
        // and back: the first four stored bytes are read as extra_dim, the next four as norm
        let raw: [u8; 8] = [ab[0], ab[1], ab[2], ab[3], bb[0], bb[1], bb[2], bb[3]];
        let back: NodeHeaderDotProduct = bytemuck::pod_read_unaligned(&raw);
        assert!(back.extra_dim.to_bits() == a && back.norm.to_bits() == b);
        kani::cover!(true);
    }
    /// the six other headers are exactly one f32
    #[kani::proof]
    fn single_field_headers_are_four_bytes() {
        assert!(core::mem::size_of::<NodeHeaderEuclidean>() == 4 && core::mem::size_of::<NodeHeaderManhattan>() == 4);
        assert!(core::mem::size_of::<NodeHeaderCosine>() == 4 && core::mem::size_of::<NodeHeaderBinaryQuantizedCosine>() == 4);
        assert!(core::mem::size_of::<NodeHeaderBinaryQuantizedEuclidean>() == 4 && core::mem::size_of::<NodeHeaderBinaryQuantizedManhattan>() == 4);
        assert!(core::mem::size_of::<NodeHeaderDotProduct>() == 8);
        kani::cover!(true);
    }
}
