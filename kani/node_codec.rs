//@target src/node.rs
// Kani on the REAL NodeCodec (C16, C05): value layouts
//   leaf   = 0 ‖ header bytes ‖ vector bytes
//   bucket = 1 ‖ serialized roaring bitmap
//   split  = 2 ‖ kind,be32(left) ‖ kind,be32(right) ‖ normal bytes
// Vector lengths are CONCRETE (listed per harness), contents symbolic.
#[cfg(kani)]
mod verif_kani_node_codec {
    extern crate alloc;
    use super::*;
    use crate::distance::{Euclidean, NodeHeaderEuclidean};
    use crate::node_id::NodeMode;
    fn no_format(_args: core::fmt::Arguments<'_>) -> String { String::new() }
    fn any_child() -> NodeId {
        let item: u32 = kani::any();
        if kani::any() { NodeId::tree(item) } else { NodeId::item(item) }
    }
    fn kind(m: NodeMode) -> u8 { match m { NodeMode::Metadata => 0, NodeMode::Updated => 1, NodeMode::Tree => 2, NodeMode::Item => 3 } }

    /// leaf with 2 floats (Euclidean header = 4 bytes)
    #[kani::proof]
    #[kani::unwind(16)]
    fn leaf_encode_is_reference_layout_len2() {
        let hb: [u8; 4] = kani::any();
        let vb: [u8; 8] = kani::any();
        let header: NodeHeaderEuclidean = pod_read_unaligned(&hb);
        let vector: &UnalignedVector<f32> = UnalignedVector::from_bytes_unchecked(&vb);
        let node: Node<Euclidean> = Node::Leaf(Leaf { header, vector: Cow::Borrowed(vector) });
        let r = NodeCodec::<Euclidean>::bytes_encode(&node);
        if let Ok(b) = &r {
            assert!(b.len() == 13);
            assert!(b[0] == 0);
            let i: usize = kani::any(); kani::assume(i < 4); assert!(b[1 + i] == hb[i]);
            let j: usize = kani::any(); kani::assume(j < 8); assert!(b[5 + j] == vb[j]);
        } else { assert!(false); }
        core::mem::forget(r); core::mem::forget(node);
        kani::cover!(true);
    }
    /// split node with a 1-float normal
    #[kani::proof]
    #[kani::unwind(16)]
    fn split_encode_is_reference_layout_len1() {
        let vb: [u8; 4] = kani::any();
        let normal: &UnalignedVector<f32> = UnalignedVector::from_bytes_unchecked(&vb);
        let (left, right) = (any_child(), any_child());
        let node: Node<Euclidean> = Node::SplitPlaneNormal(SplitPlaneNormal { left, right, normal: Cow::Borrowed(normal) });
        let r = NodeCodec::<Euclidean>::bytes_encode(&node);
        if let Ok(b) = &r {
            assert!(b.len() == 15);
            assert!(b[0] == 2);
            assert!(b[1] == kind(left.mode) && b[2..6] == left.item.to_be_bytes());
            assert!(b[6] == kind(right.mode) && b[7..11] == right.item.to_be_bytes());
            let j: usize = kani::any(); kani::assume(j < 4); assert!(b[11 + j] == vb[j]);
        } else { assert!(false); }
        core::mem::forget(r); core::mem::forget(node);
        kani::cover!(true);
    }
    /// the three tags are 0 / 1 / 2 (constants of the codec)
    #[kani::proof]
    fn node_tags_are_reference_values() {
        assert!(LEAF_TAG == 0 && DESCENDANTS_TAG == 1 && SPLIT_PLANE_NORMAL_TAG == 2);
        kani::cover!(true);
    }
}
