//@target src/node_id.rs
// Kani on the REAL NodeId::to_bytes / from_bytes and NodeMode::try_from (C16): the 5-byte child reference
// inside split nodes is  kind ‖ be32(id)  with kinds 0 metadata, 1 updated, 2 tree, 3 item.
//@contract pub fn to_bytes(self) -> [u8; 5] { || #[cfg_attr(kani, kani::ensures(|out: &[u8; 5]| out[0] == (match self.mode { NodeMode::Metadata => 0u8, NodeMode::Updated => 1, NodeMode::Tree => 2, NodeMode::Item => 3 }) && out[1] == (self.item >> 24) as u8 && out[2] == (self.item >> 16) as u8 && out[3] == (self.item >> 8) as u8 && out[4] == self.item as u8))]
#[cfg(kani)]
mod verif_kani_node_id_codec {
    extern crate alloc;
    use super::*;
    fn no_format(_args: core::fmt::Arguments<'_>) -> String { String::new() }
    impl kani::Arbitrary for NodeMode {
        fn any() -> Self { match kani::any::<u8>() % 4 { 0 => NodeMode::Metadata, 1 => NodeMode::Updated, 2 => NodeMode::Tree, _ => NodeMode::Item } }
    }
    /// function contract of NodeId::to_bytes = the reference layout (proved for all modes and ids)
    #[kani::proof_for_contract(NodeId::to_bytes)]
    fn node_id_to_bytes_contract() {
        let id = NodeId { mode: kani::any(), item: kani::any() };
        id.to_bytes();
    }
    /// from_bytes reads the reference layout (uses only the CONTRACT of to_bytes: stub_verified)
    #[kani::proof]
    #[kani::stub_verified(NodeId::to_bytes)]
    #[kani::stub(alloc::fmt::format, no_format)]
    fn node_id_roundtrip_via_contract() {
        let id = NodeId { mode: kani::any(), item: kani::any() };
        let b = id.to_bytes();
        let (back, rest) = NodeId::from_bytes(&b);
        assert!(back == id);
        assert!(rest.is_empty());
        kani::cover!(true);
    }
    /// from_bytes on arbitrary reference-layout bytes
    #[kani::proof]
    #[kani::stub(alloc::fmt::format, no_format)]
    fn node_id_from_bytes_reference_layout() {
        let b: [u8; 7] = kani::any();
        kani::assume(b[0] <= 3);
        let (id, rest) = NodeId::from_bytes(&b);
        assert!(id.mode as u8 == b[0]);
        assert!(id.item == ((b[1] as u32) << 24 | (b[2] as u32) << 16 | (b[3] as u32) << 8 | b[4] as u32));
        assert!(rest.len() == 2 && rest[0] == b[5] && rest[1] == b[6]);
        kani::cover!(true);
    }
    /// NodeMode::try_from accepts exactly 0..=3 with the reference meaning (all 256 codes)
    #[kani::proof]
    #[kani::stub(alloc::fmt::format, no_format)]
    fn node_mode_try_from_all_codes() {
        let v: u8 = kani::any();
        let r = NodeMode::try_from(v);
        match &r {
            Ok(m) => { assert!(v <= 3); assert!(*m as u8 == v);
                       assert!((v == 0) == matches!(m, NodeMode::Metadata)); assert!((v == 1) == matches!(m, NodeMode::Updated));
                       assert!((v == 2) == matches!(m, NodeMode::Tree)); assert!((v == 3) == matches!(m, NodeMode::Item)); }
            Err(_) => assert!(v > 3),
        }
        core::mem::forget(r);
        kani::cover!(true);
    }
}
