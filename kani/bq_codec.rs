//@target src/unaligned_vector/binary_quantized.rs
// Kani harnesses on the REAL binary-quantisation code (C12, C05): sign packing, unpacking, length.
// Each harness fixes a CONCRETE length and leaves the contents fully symbolic (all sign patterns,
// +-0.0, NaNs of both signs, infinities are just bit patterns): complete for the listed lengths.
#[cfg(kani)]
mod verif_kani_bq_codec {
    use super::*;

    fn check_from_slice<const N: usize>() {
        let v: [f32; N] = kani::any();
        let out = from_slice_non_optimized(&v);
        let words = (N + 63) / 64;
        assert!(out.len() == 8 * words);
        // bit i = sign-positive of x[i]
        let i: usize = kani::any();
        kani::assume(i < N);
        let mut w = [0u8; 8];
        w.copy_from_slice(&out[(i / 64) * 8..(i / 64) * 8 + 8]);
        let word = u64::from_ne_bytes(w);
        assert!(((word >> (i % 64)) & 1 == 1) == v[i].is_sign_positive());
        // padding bits are zero
        let j: usize = kani::any();
        kani::assume(j >= N && j < 64 * words);
        let mut w2 = [0u8; 8];
        w2.copy_from_slice(&out[(j / 64) * 8..(j / 64) * 8 + 8]);
        assert!((u64::from_ne_bytes(w2) >> (j % 64)) & 1 == 0);
        kani::cover!(true);
    }
    fn check_from_slice_exact<const N: usize>() {
        // N is a multiple of 64: no padding
        let v: [f32; N] = kani::any();
        let out = from_slice_non_optimized(&v);
        assert!(out.len() == N / 8);
        let i: usize = kani::any();
        kani::assume(i < N);
        let mut w = [0u8; 8];
        w.copy_from_slice(&out[(i / 64) * 8..(i / 64) * 8 + 8]);
        assert!(((u64::from_ne_bytes(w) >> (i % 64)) & 1 == 1) == v[i].is_sign_positive());
        kani::cover!(true);
    }

    #[kani::proof] #[kani::unwind(67)] fn bq_from_slice_len_1() { check_from_slice::<1>() }
    #[kani::proof] #[kani::unwind(67)] fn bq_from_slice_len_2() { check_from_slice::<2>() }
    #[kani::proof] #[kani::unwind(67)] fn bq_from_slice_len_7() { check_from_slice::<7>() }
    #[kani::proof] #[kani::unwind(67)] fn bq_from_slice_len_8() { check_from_slice::<8>() }
    #[kani::proof] #[kani::unwind(67)] fn bq_from_slice_len_9() { check_from_slice::<9>() }
    #[kani::proof] #[kani::unwind(67)] fn bq_from_slice_len_31() { check_from_slice::<31>() }
    #[kani::proof] #[kani::unwind(67)] fn bq_from_slice_len_33() { check_from_slice::<33>() }
    #[kani::proof] #[kani::unwind(67)] fn bq_from_slice_len_63() { check_from_slice::<63>() }
    #[kani::proof] #[kani::unwind(67)] fn bq_from_slice_len_64() { check_from_slice_exact::<64>() }
    #[kani::proof] #[kani::unwind(67)] fn bq_from_slice_len_65() { check_from_slice::<65>() }
    #[kani::proof] #[kani::unwind(67)] fn bq_from_slice_len_127() { check_from_slice::<127>() }
    #[kani::proof] #[kani::unwind(67)] fn bq_from_slice_len_128() { check_from_slice_exact::<128>() }
    #[kani::proof] #[kani::unwind(67)] fn bq_from_slice_len_129() { check_from_slice::<129>() }

    /// unpacking: element i of the iterator / to_vec_non_optimized is +1 iff bit i is set, -1 otherwise; len = 64 * words
    fn check_unpack<const B: usize>() {
        let bytes: [u8; B] = kani::any();
        let v: &UnalignedVector<BinaryQuantized> = UnalignedVector::from_bytes_unchecked(&bytes);
        assert!(v.len() == (B / 8) * 64);
        let i: usize = kani::any();
        kani::assume(i < (B / 8) * 64);
        let got = v.iter().nth(i);
        let bit = (bytes[i / 8] >> (i % 8)) & 1;   // little-endian word layout == native layout on this target
        let mut w = [0u8; 8];
        w.copy_from_slice(&bytes[(i / 64) * 8..(i / 64) * 8 + 8]);
        let bitw = ((u64::from_ne_bytes(w) >> (i % 64)) & 1) as u8;
        assert!(bit == bitw);
        assert!(got == Some(if bitw == 1 { 1.0 } else { -1.0 }));
        assert!(v.iter().len() == (B / 8) * 64);
        kani::cover!(true);
    }
    #[kani::proof] #[kani::unwind(130)] fn bq_unpack_8_bytes() { check_unpack::<8>() }
    #[kani::proof] #[kani::unwind(130)] fn bq_unpack_16_bytes() { check_unpack::<16>() }

    /// to_vec_non_optimized collects exactly the iterator
    #[kani::proof] #[kani::unwind(67)]
    fn bq_to_vec_non_optimized_8_bytes() {
        let bytes: [u8; 8] = kani::any();
        let v: &UnalignedVector<BinaryQuantized> = UnalignedVector::from_bytes_unchecked(&bytes);
        let out = to_vec_non_optimized(v);
        assert!(out.len() == 64);
        let i: usize = kani::any();
        kani::assume(i < 64);
        let bit = (u64::from_ne_bytes(bytes) >> i) & 1;
        assert!(out[i] == if bit == 1 { 1.0 } else { -1.0 });
        kani::cover!(true);
    }

    /// round trip at the declared dimension: write d floats, read back, truncate to d => the sign pattern (+1 / -1)
    fn check_roundtrip<const N: usize>() {
        let v: [f32; N] = kani::any();
        let bytes = from_slice_non_optimized(&v);
        let u: &UnalignedVector<BinaryQuantized> = UnalignedVector::from_bytes_unchecked(&bytes);
        let i: usize = kani::any();
        kani::assume(i < N);
        let got = u.iter().nth(i);
        assert!(got == Some(if v[i].is_sign_positive() { 1.0 } else { -1.0 }));
        // padding reads as -1 (and is cut by the truncation to the declared dimension)
        let j: usize = kani::any();
        kani::assume(j >= N && j < u.len());
        assert!(u.iter().nth(j) == Some(-1.0));
        kani::cover!(true);
    }
    #[kani::proof] #[kani::unwind(67)] fn bq_roundtrip_len_3() { check_roundtrip::<3>() }
    #[kani::proof] #[kani::unwind(67)] fn bq_roundtrip_len_40() { check_roundtrip::<40>() }

    /// from_bytes accepts exactly multiples of 8 bytes
    #[kani::proof]
    fn bq_from_bytes_size_check() {
        let bytes: [u8; 24] = kani::any();
        let n: usize = kani::any();
        kani::assume(n <= 24);
        let r = <BinaryQuantized as UnalignedVectorCodec>::from_bytes(&bytes[..n]);
        assert!(r.is_ok() == (n % 8 == 0));
        if let Ok(v) = &r { assert!(v.len() == (n / 8) * 64); }
        core::mem::forget(r);
        kani::cover!(true);
    }
    /// the constants the Verus unit bq_pack restates (64-bit words of 8 bytes); loop-free: a complete proof
    #[kani::proof]
    fn bq_word_constants() {
        assert!(QUANTIZED_WORD_BITS == 64);
        assert!(QUANTIZED_WORD_BYTES == 8);
        assert!(core::mem::size_of::<QuantizedWord>() == 8 && QuantizedWord::BITS == 64);
        kani::cover!(true);
    }

    /// one step of the real iterator inside a word (no refill): for EVERY word and every position the value produced is exactly
    /// +1.0 for a set low bit and -1.0 otherwise (the float arithmetic `bit as f32 * 2.0 - 1.0` the Verus unit bq_pack abstracts
    /// as pm_one_); loop-free over the full u64 domain: a complete proof
    #[kani::proof]
    fn bq_iterator_step_value() {
        let e: u64 = kani::any();
        let it: usize = kani::any();
        kani::assume(it < 64);
        let empty: [u8; 0] = [];
        let mut i = BinaryQuantizedIterator { current_element: e, current_iteration: it, iter: empty.chunks_exact(QUANTIZED_WORD_BYTES) };
        let got = i.next();
        assert!(got == Some(if e & 1 == 1 { 1.0f32 } else { -1.0f32 }));
        assert!(i.current_element == e >> 1 && i.current_iteration == it + 1);
        kani::cover!(true);
    }
}
