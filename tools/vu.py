#!/usr/bin/env python3
"""dev helper: generate one unit from /repo's working tree and run verus on it; prints errors compactly.
usage: tools/vu.py <unit> [--fn NAME] [--rlimit N]"""
import sys, os, json, subprocess, time
sys.path.insert(0, os.path.dirname(os.path.dirname(os.path.abspath(__file__))))
from engine import verus
unit = sys.argv[1]
out = '/tmp/verif_gen'; os.makedirs(out, exist_ok=True)
path = os.path.join(out, unit + '.rs')
metas = verus.generate(unit, os.environ.get('VU_REPO', '/repo'), path)
extra = []
if '--fn' in sys.argv: extra += ['--verify-function', sys.argv[sys.argv.index('--fn') + 1], '--verify-root']
if '--rlimit' in sys.argv: extra += ['--rlimit', sys.argv[sys.argv.index('--rlimit') + 1]]
t = time.time()
p = subprocess.run(['verus', path, '--triggers-mode', 'silent', '--expand-errors', '--time'] + extra, capture_output=True, text=True)
print(p.stderr[-6000:] if '--full' not in sys.argv else p.stderr)
print(p.stdout[-1500:])
print('wall %.1fs' % (time.time() - t))
