#!/usr/bin/env python3
"""tools/run_harmless.py [name ...]: apply each behaviour-preserving refactoring of harmless/<name>/patch.diff to /repo, run EVERY registered
check, undo it, and record the exit statuses in harmless/RESULTS.md. A check must never exit 1 on such a change (0 = still proved, 2 = undecided)."""
import json, os, subprocess, sys, shutil, tempfile
V = '/verif'
sys.path.insert(0, V)
from engine import registry
import re
KANI_FILES = ('src/distance/', 'src/spaces/', 'src/unaligned_vector/', 'src/node.rs', 'src/node_id.rs', 'src/key.rs', 'src/version.rs', 'src/metadata.rs', 'src/roaring.rs')
def unit_files(unit, seen=None):
    """src files a unit template (and the libraries it includes) extracts from"""
    seen = seen if seen is not None else set()
    fs = set()
    path = V + '/units/' + unit
    if path in seen or not os.path.exists(path): return fs
    seen.add(path)
    for ln in open(path):
        m = re.match(r'//@extract(?:-optional|-item)? (\S+) \|', ln)
        if m: fs.add(m.group(1))
        m = re.match(r'//@include (\S+)', ln)
        if m: fs |= unit_files(m.group(1), seen)
    return fs
def relevant(p, files):
    spec = registry.PROPS[p]
    vf = set()
    for u in spec.get('verus', {}): vf |= unit_files(u + '.rs')
    if any(f in vf for f in files): return True
    if spec.get('kani') and any(f.startswith(KANI_FILES) for f in files): return True
    return False
names = sys.argv[1:] or sorted(d for d in os.listdir(V + '/harmless') if os.path.isdir(V + '/harmless/' + d))
assert subprocess.run('git -C /repo diff --quiet', shell=True).returncode == 0, '/repo is dirty'
save = tempfile.mkdtemp(); shutil.copytree(V + '/evidence', save + '/evidence')
res = {}
rp = V + '/harmless/results.json'
if os.path.exists(rp): res = json.load(open(rp))
try:
    for name in names:
        d = V + '/harmless/' + name
        r = subprocess.run('git -C /repo apply %s/patch.diff' % d, shell=True, capture_output=True, text=True)
        if r.returncode != 0:
            res[name] = {'error': 'patch does not apply'}; continue
        files = subprocess.run('git -C /repo diff --name-only', shell=True, capture_output=True, text=True).stdout.split()
        out = {}
        try:
            skip_kani = not any(f.startswith(KANI_FILES) for f in files)
            def one(p):
                c = subprocess.run([V + '/check', p], capture_output=True, text=True, env=dict(os.environ, VERIF_DEV_SKIP_KANI='1' if skip_kani else '0'))
                lines = [l for l in c.stdout.split('\n') if l.startswith('UNDECIDED') or l.startswith('VIOLATION') or 'failed obligation' in l]
                return p, {'exit': c.returncode, 'lines': lines[:4]}
            # a check is run only if the change touches a file it reads: the files its Verus units extract from, or -- when it has Kani
            # harnesses -- the files those harnesses can reach (codecs, metrics, kernels). On other changes its input is byte-identical.
            props = [p for p in sorted(registry.PROPS) if relevant(p, files)]
            for p in sorted(registry.PROPS):
                if p not in props: out[p] = {'exit': 0, 'lines': ['not run: the change touches no file this check reads']}
            from concurrent.futures import ThreadPoolExecutor
            with ThreadPoolExecutor(4) as ex:
                for p, o in ex.map(one, props):
                    out[p] = o
        finally:
            subprocess.run('git -C /repo checkout -- .', shell=True)
        res[name] = {'files': files, 'checks': out}
        print(name, {p: o['exit'] for p, o in out.items() if o['exit'] != 0} or 'all exit 0', flush=True)
        json.dump(res, open(rp, 'w'), indent=1)
finally:
    shutil.rmtree(V + '/evidence'); shutil.copytree(save + '/evidence', V + '/evidence'); shutil.rmtree(save)
with open(V + '/harmless/RESULTS.md', 'w') as f:
    f.write('# Behaviour-preserving refactorings: what the checks answer\n\nProduced by tools/run_harmless.py. Exit 0 = still proved, 2 = undecided (proof script / extraction no longer applies), 1 would be a FALSE ALARM.\n\n| change | files | exit 1 (false alarms) | exit 2 (undecided) | exit 0 |\n|---|---|---|---|---|\n')
    for n in sorted(res):
        r = res[n]
        if 'checks' not in r: f.write('| %s | %s | | | |\n' % (n, r.get('error'))); continue
        e1 = [p for p, o in r['checks'].items() if o['exit'] == 1]; e2 = [p for p, o in r['checks'].items() if o['exit'] == 2]; e0 = [p for p, o in r['checks'].items() if o['exit'] == 0]
        f.write('| %s | %s | %s | %s | %d checks |\n' % (n, ' '.join(r['files']), ' '.join(e1) or 'none', ' '.join(e2) or 'none', len(e0)))
