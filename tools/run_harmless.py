#!/usr/bin/env python3
"""tools/run_harmless.py [name ...]: apply each behaviour-preserving refactoring of harmless/<name>/patch.diff to /repo, run EVERY registered
check, undo it, and record the exit statuses in harmless/RESULTS.md. A check must never exit 1 on such a change (0 = still proved, 2 = undecided)."""
import json, os, subprocess, sys, shutil, tempfile
V = '/verif'
sys.path.insert(0, V)
from engine import registry
names = sys.argv[1:] or sorted(d for d in os.listdir(V + '/harmless') if os.path.isdir(V + '/harmless/' + d))
assert subprocess.run('git -C /repo diff --quiet', shell=True).returncode == 0, '/repo is dirty'
save = tempfile.mkdtemp(); shutil.copytree(V + '/evidence', save + '/evidence')
res = {}
rp = V + '/harmless/results.json'
if os.path.exists(rp): res = json.load(open(rp))
try:
    for name in names:
        d = V + '/harmless/' + name
        r = subprocess.run('git -C /repo apply %s/patch.diff' % d, shell=True, capture_output=True, text=True)
        if r.returncode != 0:
            res[name] = {'error': 'patch does not apply'}; continue
        files = subprocess.run('git -C /repo diff --name-only', shell=True, capture_output=True, text=True).stdout.split()
        out = {}
        try:
            def one(p):
                c = subprocess.run([V + '/check', p], capture_output=True, text=True)
                lines = [l for l in c.stdout.split('\n') if l.startswith('UNDECIDED') or l.startswith('VIOLATION') or 'failed obligation' in l]
                return p, {'exit': c.returncode, 'lines': lines[:4]}
            # the float-kernel checks (4 min of CBMC each) are skipped when the change cannot reach them
            props = [p for p in sorted(registry.PROPS)
                     if not (p in ('C11',) and not any(f.startswith(('src/spaces', 'src/distance', 'src/unaligned_vector')) for f in files))]
            from concurrent.futures import ThreadPoolExecutor
            with ThreadPoolExecutor(4) as ex:
                for p, o in ex.map(one, props):
                    out[p] = o
        finally:
            subprocess.run('git -C /repo checkout -- .', shell=True)
        res[name] = {'files': files, 'checks': out}
        print(name, {p: o['exit'] for p, o in out.items() if o['exit'] != 0} or 'all exit 0', flush=True)
        json.dump(res, open(rp, 'w'), indent=1)
finally:
    shutil.rmtree(V + '/evidence'); shutil.copytree(save + '/evidence', V + '/evidence'); shutil.rmtree(save)
with open(V + '/harmless/RESULTS.md', 'w') as f:
    f.write('# Behaviour-preserving refactorings: what the checks answer\n\nProduced by tools/run_harmless.py. Exit 0 = still proved, 2 = undecided (proof script / extraction no longer applies), 1 would be a FALSE ALARM.\n\n| change | files | exit 1 (false alarms) | exit 2 (undecided) | exit 0 |\n|---|---|---|---|---|\n')
    for n in sorted(res):
        r = res[n]
        if 'checks' not in r: f.write('| %s | %s | | | |\n' % (n, r.get('error'))); continue
        e1 = [p for p, o in r['checks'].items() if o['exit'] == 1]; e2 = [p for p, o in r['checks'].items() if o['exit'] == 2]; e0 = [p for p, o in r['checks'].items() if o['exit'] == 0]
        f.write('| %s | %s | %s | %s | %d checks |\n' % (n, ' '.join(r['files']), ' '.join(e1) or 'none', ' '.join(e2) or 'none', len(e0)))
