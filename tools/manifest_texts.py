NOTES = ("Exit status of ./check: 0 = every obligation of the property discharged; 1 = an obligation that is discharged on the unchanged tree now fails "
         "(VIOLATION line; 'no-failing-input-found' when the failing back end is Verus, which gives no model; Kani counterexamples are replayed natively on the real crate); "
         "2 = undecided (lost anchor, unsupported construct, resource limit, drift of an assumed function, vacuity canary) — never an alarm. "
         "Genuine defects found and repaired: see known_findings.json and DESIGN.md §5.")
UNDER = 'units for this property are still under construction in this session (see DESIGN.md §6 for the order of work); not claimed until its check is green'
NOT_APPLICABLE = {
    'C08': 'quantifies over thread schedules and rests on LMDB MVCC (outside the code base, trusted); Kani has no threads and the real code uses plain heed transactions, not Verus permission types — no contract within reach expresses it (DESIGN.md §4 C08)',
    'C09': 'quantifies over kill points of a process and rests on LMDB copy-on-write durability; no contract on arroy functions can express durability of an mmapped file (DESIGN.md §4 C09)',
}
for k in ['C01','C02','C03','C04','C05','C06','C07','C10','C11','C12','C13','C14','C15','C16','C17','C18','C19','C20']:
    NOT_APPLICABLE.setdefault(k, UNDER)
CHECKS = {
 'C02': {
  'text': 'Verus proves on the real Reader::nns_by_leaf: on any index whose forest satisfies the C01 invariant (every root a well-formed tree over exactly the stored items) and with an unlimited budget (search_k x oversampling saturating to usize::MAX), with or without a candidate filter: the traversal loses nothing (loop invariant: every stored item inside the filter is already collected or lies below a queued node; the queue is drained), so every stored item inside the filter is either returned or the result is full (len = count) and that item is not nearer, in (distance, id) order, than any returned one; together with the C03 clauses (distinct, sorted nearest first, at most count, each distance computed from the CURRENT leaf of that id) this is exactly the min(count, n) nearest stored items; no deleted or overwritten vector can be returned because every candidate is scored from its current Item key; the search never reports MissingKey on such a forest.',
  'note': 'Exactness is relative to the computed built_distance in OrderedFloat order; closeness of that value to the real-number metric is floating point (C11/C12). Depends on C01 for the precondition.',
  'technique': 'Verus loop invariants (reachability / heap order) on the extracted real search function',
 },
 'C17': {
  'text': 'Verus proves on the real upgrade functions, for all database contents: (1) cosine_from_0_4_to_0_5: under the well-formedness of the old database, Ok implies that the write view is exactly the fold, over the old entries in key order, of the reference re-tagging written from the property statement (items copied byte for byte under kind Item; tree nodes with both children re-tagged; the metadata record with the metric renamed; one Updated mark per id of the old pending-updates bitmap; nothing else, the write database being cleared first); errors are heed errors or CannotDecodeKeyMode; no panic. (2) from_0_5_to_0_6: the write view gains a version record for exactly the indexes 0..=65535 that have metadata in the read view and nothing else changes.',
  'note': 'LazyDecode::decode is assumed total (A3). That the result opens / satisfies C01 is C06/C01 on the resulting view.',
  'technique': 'Verus postconditions + loop invariants on the extracted real functions',
 }, 'C10': {
  'text': 'In every extracted build-path function (delete_items_in_file, insert_items_in_file, ImmutableLeafs::new, item_indices, reset_and_retrieve_updated_items, the single-bucket shortcut, clear_tree_nodes) each dependency call and each poll of the cancellation callback returns an arbitrary Ok/Err, so all fault sequences at all poll points are covered at once; Verus proves: Ok only with the full functional postcondition (never success over a half-done edit), Err(e) => e in {BuildCancelled, Heed, Io, DatabaseFull} (no MissingKey on a well-formed tree), and no panic on any path (unwrap, unreachable!, assert!, arithmetic overflow, division by zero are proof obligations).',
  'note': 'PARTIAL: build() and its loop drivers are not under contract (evidence lists them); abort/retry and resource release are LMDB/OS (not decided). Assumption A1 (used_tree_node) is documented, not alarmed on.',
  'technique': 'Verus postconditions with nondeterministic stand-in results on extracted real functions',
 },
 'C20': {
  'text': 'Roll-up: the structural contracts of C01 (delete / insert / leaf selection), the store contracts of C05 and the result well-formedness of C03 are proved with every float-dependent decision uninterpreted and OrderedFloat as an abstract total order, hence for duplicate, zero, collinear, extreme, NaN and infinite data alike; no-panic obligations of those functions hold under the same abstraction.',
  'note': 'PARTIAL: termination and the float code itself (two_means, create_split, normalize, make_tree_in_file) are not under contract; the first three are drift-guarded (a change there makes the check undecided, exit 2).',
  'technique': 'Verus contracts on extracted real functions with uninterpreted float decisions',
 },
 'C01': {
  'text': 'Verus proves full inductive contracts, over a forest specification library (well-formed subtree = every referenced node exists, children are Tree/Item references, no item or node reachable twice), for the real recursive tree surgery: delete_items_in_file (result = items of the subtree minus the deleted ids; the returned id roots a well-formed subtree over exactly those items after write-back; edits confined to the subtree; every dropped node is scheduled for deletion, i.e. no orphan; a subtree that fits one bucket is one bucket) and insert_items_in_file (result roots a well-formed subtree over old items plus inserted ones; reference kind preserved unless a single item grows into a fresh bucket; fresh ids only from the generator; rewritten splits reference the new children), plus ImmutableLeafs::new (candidates = selected + remaining, disjoint), item_indices, reset_and_retrieve_updated_items, the single-bucket shortcut and clear_tree_nodes. Each contract is proved for all tree shapes, ids, capacities >= 1 and all outcomes of float/RNG decisions.',
  'note': 'PARTIAL: the per-function contracts above are discharged; make_tree_in_file, the loop drivers (delete_items_from_trees, insert_items_in_current_trees, incremental_index_large_descendants, delete_extra_trees/delete_tree) and the composition into "build ok => forest_ok" are NOT under contract yet (listed in the evidence). TmpNodes, the frozen readers and the id generator are assumed stand-ins (drift-guarded; the generator contract is the one proved in C13).',
  'technique': 'Verus inductive contracts + lemma library on extracted real recursive functions',
 },
 'C14': {
  'text': 'Verus proves on the real ImmutableLeafs::new, for every memory value (the page budget is uninterpreted): the candidate ids are split into the selected ids and the ids left for the next pass with nothing lost or duplicated, ids are taken in ascending order, and a non-empty candidate set always yields a non-empty selection (progress of every batching pass); and the per-tree contracts of C01 (insert / delete) hold for every available_memory because it is unconstrained in them.',
  'note': 'PARTIAL: termination of the outer batching loops and the known re-queue livelock for capacities >= 200 with tiny memory are not decided (see not_decided_clauses).',
  'technique': 'Verus postconditions + loop invariants on the extracted real function',
 },
 'C03': {
  'text': 'Verus proves on the real Reader::nns_by_leaf (arbitrary count, search_k, oversampling, candidates; any database whose nodes are locally well-formed): at most count results; pairwise distinct ids; every id has an Item key in the snapshot and lies in the candidate filter; each reported distance is normalized_distance(built_distance(query, CURRENT leaf of that id), declared dimension); results are ordered nearest first (ties by id) in OrderedFloat order; the budget actually used is search_k, or count x number-of-trees saturating, times oversampling, or the metric default, saturating (assertion inside the function; Kani checks the per-metric default constants 1/1/1/1/3/3/3); no panic (unwrap_item, unreachable!, ilog2 of 0, overflow). Reader::nns starts with no budget/oversampling/filter; by_item on an unknown id returns Ok(None); by_vector rejects a wrong length (C19).',
  'note': 'PARTIAL: budget monotonicity and the by_item/by_vector equivalence are not decided (see evidence not_decided_clauses); unlimited budget + filter = exact search restricted to the filter is proved (same obligation as C02).',
  'technique': 'Verus postconditions + loop invariants on the extracted real search function',
 },
 'C18': {
  'text': 'Verus proves on the real prepare_changing_distance / clear_tree_nodes with two uninterpreted metrics: same metric => the database view is unchanged; different metric => metadata and every tree key of the index are removed, the item key set is unchanged, every leaf becomes Leaf(ND::new_header(v), ND::enc(v)) with v = D::dec(old) truncated to the declared dimension (header computed from the truncated vector), marks, the version record and all other indexes are untouched; hence stale() holds afterwards (need_build / Reader::open contracts of C06), and the metric names are pairwise distinct (Kani), so opening under the old metric fails after a rebuild.',
  'note': 'All ordered metric pairs are covered because both metrics are uninterpreted; the rebuild itself is the build chain (C01).',
  'technique': 'Verus postconditions + loop invariants on extracted real functions',
 },
 'C04': {
  'text': 'Three links, each proved on the real code. (1) Kani, all f32 values: the default Distance::side stores an item Right iff its margin is positive and Left iff negative; Distance::pq_distance gives the child on the margin side a priority >= the other child (equal only when the inherited bound d <= -|margin|), and from a root exactly (-margin, margin); no metric overrides them. (2) Verus, writer: make_tree_in_file and insert_items_in_file place every item under the child that side() chose for it against the split plane actually stored (unless the plane is the zeroed random-split plane), and a rewritten split keeps its plane and each side keeps its items (children are never swapped). (3) Verus, reader: every entry pushed by nns_by_leaf is the Left (Right) child of the split just read with priority pq_distance(d, margin(plane, query), Left (Right)).',
  'note': 'The composition needs margin(plane, query) = margin(query, plane) (IEEE commutativity and identical summation order of the kernels: assumed) and leaves ties d <= -|margin| to node-id order.',
  'technique': 'Kani full-domain proofs on the real Distance default methods + Verus placement postconditions / loop invariants on extracted writer and reader functions',
 }, 'C07': {
  'text': 'Every Verus contract of the item-store mutators carries the frame other_indexes_unchanged(old, new, self.index) over the abstract database view and is discharged from stand-in contracts that touch one key or one prefix/range; Kani proves on the real KeyCodec/PrefixCodec, for all u16 indexes (0 and 65535 included) and all u32 ids, that keys are be16(index) kind be32(id) 0, that byte order = (index, kind, id) order, that a prefix selects exactly its index (and kind), and that the tree range used by delete_range contains exactly the tree keys of the index.',
  'note': 'The frame of build / prepare_changing_distance is claimed where those units are listed in the evidence. LMDB prefix / range semantics are assumed (stand-ins).',
  'technique': 'Verus frame postconditions on extracted real functions + Kani proof of the real key codec',
 },
 'C12': {
  'text': 'Kani proves on the real from_slice_non_optimized / BinaryQuantizedIterator / to_vec_non_optimized / len / from_bytes, for each listed concrete length with fully symbolic contents (all sign patterns, +-0.0, NaNs of both signs, infinities): bit i = sign-positive of x[i], padding bits zero, output length 8*ceil(d/64), read-back +1/-1 per bit, padding reads -1 and is cut by the truncation; and on the real xor/popcount kernels: squared Euclidean = 4h, Manhattan = 2h, dot product = 64*words - 2h, symmetric, reported distance 4h/d and 2h/d.',
  'note': 'Complete for the listed lengths only (see trusted base); cosine needs float sqrt (not decided); to_vec_sse unverified.',
  'technique': 'Kani proofs on the real crate, concrete lengths with symbolic contents',
 },
 'C16': {
  'text': 'The reference layout is written by hand in the harnesses, independent of the encoder. Kani proves on the real codecs: KeyCodec encode = be16(index) kind be32(id) 0 and decode of any such key returns the triple (kinds 4..255 rejected); byte order = tuple order; PrefixCodec; NodeId::to_bytes (function contract) / from_bytes; NodeMode::try_from over all 256 codes; VersionCodec = three be32; leaf = 0 header vector and split = 2 left right normal for concrete vector lengths; tags 0/1/2; f32 vector codec bit-exact; the seven metric names.',
  'note': 'Layout half only. Not decided: golden fixtures from a reference binary, MetadataCodec and roaring serialisation, NodeCodec::bytes_decode as a whole.',
  'technique': 'Kani proofs and one Kani function contract on the real codecs',
 },
 'C13': {
  'text': 'Verus proves the real ConcurrentNodeIds::new / next against an interference-tolerant contract for atomics: fetch_add returns a ticket (issued(v)) and nothing is assumed about what other threads do in between; next returns Ok(id) only with a ticket (a cursor ticket s with available.select(s) = id, or a counter ticket id), id is not in the set of used ids, and the only error is DatabaseFull. A pure lemma shows that different tickets give different ids (select injective; recycled ids < initial counter <= fresh ids). Because the proof never uses the order of other threads it covers every interleaving; replacing fetch_add by load+store loses the ticket and fails the postcondition.',
  'note': 'Assumes atomicity of fetch_add (no value issued twice before wrap) and rank/select properties of roaring; rayon scheduling itself is trusted.',
  'technique': 'Verus postconditions on extracted real functions with ghost ticket facts for atomics',
 },
 'C15': {
  'text': 'Verus proves on the real target_n_trees: an explicit n_trees is returned unchanged; the automatic count is the documented formula (at least 1) or, under the uninterpreted hysteresis test, the current number of roots when that is larger; no overflow or division by zero for dimensions >= 1. fit_in_descendant(n) <=> n <= split_after (or dimensions).',
  'note': 'dimensions >= 1 is a precondition (Writer::new does not check it); the f64 ratio test is uninterpreted.',
  'technique': 'Verus postconditions + overflow obligations on extracted real functions',
 },
 'C05': {
  'text': 'Verus proves the item-store contracts of the real Writer/Reader functions (add_item, append_item, del_item, clear, contains_item, item_vector, iter, is_empty, ItemIter::next, item_leaf) over an abstract database view Map<(index,kind,id),value>: add writes exactly the leaf new_leaf(v) and the mark; del_item returns whether the key existed and removes exactly it; clear leaves no key of the index; item_vector / iteration return the decoded stored vector cut to the declared dimension, iteration in ascending id order, each key once; emptiness agrees with the key set. Presence at every point of a history is then induction over these per-operation postconditions.',
  'note': 'Vector codec enc/dec is uninterpreted here (bit-exactness of the f32 codec and sign pattern of the quantised codec are the Kani units of C12/C16); build-does-not-touch-items is part of the build chain units; representation invariant items_are_leaves is used by is_empty.',
  'technique': 'Verus postconditions + loop invariants on extracted real functions; Kani on the real key codec',
 },
 'C06': {
  'text': 'Verus proves on the real code: need_build returns exactly stale(view) = (an Updated key exists or no metadata); Reader::open returns Ok only if metadata exists, its metric name equals D::name() and no Updated key exists, and otherwise one of three distinct errors (MissingMetadata / UnmatchingDistance / NeedBuild) each characterised exactly; add_item, append_item and a successful del_item create the mark, rejected calls and del_item of an absent id leave the view unchanged; clear removes the metadata.',
  'note': 'Persistence of a mark across committed transactions is LMDB (trusted). A cursor read error inside need_build/open is reported as stale (read_faulty disjunct). The build ok-path (no mark left, metadata written) is part of the build chain units.',
  'technique': 'Verus postconditions on extracted real functions',
 },
 'C19': {
  'text': 'Verus proves, for all inputs and database states, the postconditions of the real add_item / append_item / del_item (extracted from /repo each run): wrong length => Err(InvalidVecDimension{expected,received}) and the abstract database view is unchanged; append => Err(InvalidItemAppend) iff some key of the whole database is not smaller than the new key, and then nothing changes, else the same post-state as add_item; del_item of an absent id => Ok(false), view unchanged. Kani proves on the real KeyCodec that byte order of keys is (index, kind, id) order, which is what links the MDB_APPEND rule to the abstract order.',
  'note': 'LMDB/heed semantics (incl. MDB_APPEND) are assumed stand-in contracts; by_vector length check is decided by the reader unit once built; unchanged view = no updated mark = not stale (C06).',
  'technique': 'Verus postconditions on extracted real functions + Kani proof on the real key codec',
 },
}
