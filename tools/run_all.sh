#!/bin/sh
# run every registered check on the current tree (quick tier unless TIER=thorough), in sequence
cd /verif || exit 9
rc=0
for p in $(python3 -c "from engine import registry; print(' '.join(sorted(registry.PROPS)))"); do
  ./check "$p" ${TIER:+--tier $TIER} | tail -1 || rc=1
done
exit $rc
