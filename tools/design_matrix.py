#!/usr/bin/env python3
"""tools/design_matrix.py: rewrite the seeded-change table of DESIGN.md §7 from seeded/*/meta.json"""
import json, os, re
rows = []
for d in sorted(os.listdir('/verif/seeded')):
    mp = '/verif/seeded/%s/meta.json' % d
    if not os.path.exists(mp): continue
    m = json.load(open(mp))
    det = m.get('detected_by') or []; und = m.get('undecided_by') or []; mis = m.get('missed_by') or []
    out = m.get('check_output') or {}
    first = ''
    for p in det:
        for l in out.get(p, []):
            if 'failed obligation' in l:
                mm = re.search(r'failed obligation: (\S+?)::(\S+?)::', l)
                if mm: first = mm.group(1) + '::' + mm.group(2); break
        if first: break
    if not first and det: first = 'Kani harness (counterexample replayed)'
    if not first and und:
        for l in out.get(und[0], []):
            first = re.sub(r'^UNDECIDED: ', '', l)[:90]; break
    rows.append((d, 'detected (' + ','.join(det) + ')' if det else ('undecided, exit 2 (' + ','.join(und) + ')' if und else 'missed (' + ','.join(mis) + ')'), first.replace('|', '/')))
n = len(rows); nd = sum(1 for r in rows if r[1].startswith('detected')); nu = sum(1 for r in rows if r[1].startswith('undecided')); nm = n - nd - nu
tab = '| change | outcome | first failed obligation (unit::function) / reason |\n|---|---|---|\n' + '\n'.join('| %s | %s | %s |' % r for r in rows)
p = '/verif/DESIGN.md'
s = open(p).read()
a = re.search(r'\d+ seeded changes \(', s).start()
b = s.index('The undecided ones')
s = s[:a] + '%d seeded changes (six rounds of independent sub-agents): **%d detected** (exit 1 with a named obligation), %d undecided (exit 2, never an alarm), %d missed.\n\n%s\n\n' % (n, nd, nu, nm, tab) + s[b:]
open(p, 'w').write(s)
print(n, nd, nu, nm)
for r in rows:
    if not r[1].startswith('detected'): print(r)
