#!/usr/bin/env python3
"""tools/confirm_mutant.py <Cxx> <a|b> : confirm a sub-agent's change in its scratch worktree and file it under seeded/."""
import json, os, re, shutil, subprocess, sys
pid, ab = sys.argv[1], sys.argv[2]
wt = '/tmp/mut_%s' % pid
src = os.path.join(wt, 'out', ab)
dst = '/verif/seeded/%s-%s' % (pid, ab)
def sh(cmd, **kw):
    return subprocess.run(cmd, shell=True, cwd=wt, capture_output=True, text=True, **kw)
sh('git checkout -- . && git clean -fdq src')
r = sh('git apply --check %s/patch.diff' % src)
assert r.returncode == 0, 'patch does not apply: ' + r.stderr
modname = 'demo_%s' % ab
shutil.copy(os.path.join(src, 'demo.rs'), os.path.join(wt, 'src/tests/%s.rs' % modname))
mp = os.path.join(wt, 'src/tests/mod.rs'); s = open(mp).read()
open(mp, 'w').write(s.replace('mod writer;', 'mod writer;\nmod %s;' % modname, 1))
def run_tests():
    r = sh('cargo test --offline --lib 2>&1', timeout=1800)
    out = r.stdout
    failed = re.findall(r'(?m)^test (\S+) \.\.\. FAILED', out)
    ok = re.findall(r'(?m)^test (\S+) \.\.\. ok', out)
    m = re.search(r'test result: \w+\. (\d+) passed; (\d+) failed', out)
    return failed, ok, (m.groups() if m else None), out
# without the change
f0, ok0, res0, out0 = run_tests()
sh('git apply %s/patch.diff' % src)
f1, ok1, res1, out1 = run_tests()
sh('git checkout -- . && git clean -fdq src')
old_ok_with = [t for t in ok1 if modname not in t]
verdict = {
    'without_change': {'result': res0, 'failed': f0},
    'with_change': {'result': res1, 'failed': f1, 'existing_tests_passed': len(old_ok_with)},
}
good = (res0 is not None and not f0 and res1 is not None and f1 and all(modname in t for t in f1) and len(old_ok_with) == 57)
print(pid, ab, 'CONFIRMED' if good else 'NOT CONFIRMED', json.dumps(verdict))
if good:
    os.makedirs(dst, exist_ok=True)
    for fn in ('patch.diff', 'demo.rs', 'README.md'):
        shutil.copy(os.path.join(src, fn), os.path.join(dst, fn))
    readme = open(os.path.join(src, 'README.md')).read()
    meta = {'property': pid, 'origin': 'independent sub-agent given only the property text and a scratch worktree',
            'needs_to_manifest': re.sub(r'\s+', ' ', readme)[:1500],
            'confirmed_by': 'tools/confirm_mutant.py in scratch worktree %s: cargo test --offline --lib with demo module %s' % (wt, modname),
            'confirmation': verdict, 'detected_by': None}
    json.dump(meta, open(os.path.join(dst, 'meta.json'), 'w'), indent=1)
