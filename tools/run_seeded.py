#!/usr/bin/env python3
"""tools/run_seeded.py [name ...]: apply each seeded change to /repo, run the registered check(s), undo it, and record the outcome in
seeded/<name>/meta.json (detected_by / undecided_by / missed_by) and in seeded/MATRIX.md. Evidence files are saved and restored
(committed evidence comes from the unchanged tree only)."""
import json, os, re, shutil, subprocess, sys, tempfile, time
V = '/verif'
sys.path.insert(0, V)
from engine import registry
EXTRA = {'C11': ['C02', 'C04', 'C12'], 'C02': ['C04', 'C01', 'C11'], 'C03': ['C01'], 'C04': ['C01'], 'C12': ['C03', 'C05'], 'C08': [], 'C09': []}   # C02-C04 take the C01 forest as their precondition: a change that breaks it is C01's to catch
names = sys.argv[1:] or sorted(d for d in os.listdir(V + '/seeded') if os.path.isdir(V + '/seeded/' + d))
assert subprocess.run('git -C /repo diff --quiet', shell=True).returncode == 0, '/repo is dirty'
save = tempfile.mkdtemp()
shutil.copytree(V + '/evidence', save + '/evidence')
rows = []
try:
    for name in names:
        d = V + '/seeded/' + name
        meta = json.load(open(d + '/meta.json'))
        pid = meta['property']
        props = [p for p in [pid] + EXTRA.get(pid, []) if p in registry.PROPS]
        r = subprocess.run('git -C /repo apply %s/patch.diff' % d, shell=True, capture_output=True, text=True)
        if r.returncode != 0:
            rows.append((name, 'PATCH DOES NOT APPLY', '')); continue
        det, und, miss, lines = [], [], [], {}
        try:
            for p in props:
                t = time.time()
                c = subprocess.run([V + '/check', p], capture_output=True, text=True)
                out = c.stdout.strip().split('\n')
                lines[p] = [l for l in out if l.startswith('VIOLATION') or l.startswith('  failed obligation') or l.startswith('UNDECIDED')][:6]
                (det if c.returncode == 1 else und if c.returncode == 2 else miss).append(p)
        finally:
            subprocess.run('git -C /repo checkout -- .', shell=True)
        meta['detected_by'] = det; meta['undecided_by'] = und; meta['missed_by'] = miss
        meta['check_output'] = lines
        json.dump(meta, open(d + '/meta.json', 'w'), indent=1)
        rows.append((name, 'DETECTED by ' + ','.join(det) if det else ('UNDECIDED (exit 2) by ' + ','.join(und) if und else 'MISSED by ' + ','.join(miss)),
                     '; '.join(sum(lines.values(), []))[:300]))
        print(rows[-1][0], rows[-1][1], flush=True)
finally:
    shutil.rmtree(V + '/evidence'); shutil.copytree(save + '/evidence', V + '/evidence'); shutil.rmtree(save)
# merge into MATRIX.md
mp = V + '/seeded/MATRIX.md'
old = {}
if os.path.exists(mp):
    for l in open(mp):
        m = re.match(r'\| (\S+) \| (.*?) \| (.*) \|$', l.strip())
        if m and m.group(1) not in ('change', '---'): old[m.group(1)] = (m.group(2), m.group(3))
for n, a, b in rows: old[n] = (a, b.replace('|', '/'))
with open(mp, 'w') as f:
    f.write('# Seeded changes and what the checks report on them\n\nProduced by tools/run_seeded.py (each change applied to /repo, checks run, change undone).\n\n| change | outcome | first lines |\n| --- | --- | --- |\n')
    for n in sorted(old): f.write('| %s | %s | %s |\n' % (n, old[n][0], old[n][1]))
