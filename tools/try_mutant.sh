#!/bin/sh
# tools/try_mutant.sh <patch.diff> <property>...   apply a seeded change to /repo, run the checks, undo it.
patch="$1"; shift
cd /repo || exit 9
git diff --quiet || { echo "/repo is dirty"; exit 9; }
git apply "$patch" || { echo "patch does not apply"; exit 9; }
trap 'git -C /repo checkout -- . ' EXIT INT TERM
for p in "$@"; do
  echo "=== $p on $(basename $(dirname $patch))/$(basename $patch)"
  /verif/check "$p" ${TIER:+--tier $TIER}; echo "exit=$?"
done
