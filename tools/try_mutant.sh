#!/bin/sh
# tools/try_mutant.sh <patch.diff> <property>...   apply a seeded change to /repo, run the checks, undo it.
# Evidence files are saved and restored: committed evidence must come from the unchanged tree only.
patch="$1"; shift
cd /repo || exit 9
git diff --quiet || { echo "/repo is dirty"; exit 9; }
git apply "$patch" || { echo "patch does not apply"; exit 9; }
save=$(mktemp -d)
cp -r /verif/evidence "$save/evidence" 2>/dev/null
trap 'git -C /repo checkout -- . ; rm -rf /verif/evidence; cp -r "$save/evidence" /verif/evidence; rm -rf "$save"' EXIT INT TERM
for p in "$@"; do
  echo "=== $p on $(basename $(dirname $patch))/$(basename $patch)"
  /verif/check "$p" ${TIER:+--tier $TIER}; echo "exit=$?"
done
