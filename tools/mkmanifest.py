#!/usr/bin/env python3
"""Regenerate MANIFEST.json from engine/registry.py + tools/manifest_texts.py (single source of truth)."""
import json, os, sys
sys.path.insert(0, os.path.dirname(os.path.dirname(os.path.abspath(__file__))))
from engine import registry
from tools import manifest_texts as T
checks = []
for pid in sorted(registry.PROPS):
    t = T.CHECKS[pid]
    checks.append({
        'property_id': pid,
        'quick_cmd': './check %s --tier quick' % pid,
        'thorough_cmd': './check %s --tier thorough' % pid,
        'evidence_file': 'evidence/%s.json' % pid,
        'replay_cmd_template': 'cat {path}',
        'engine': 'contracts',
        'level_claimed': {'category': 'proof', 'text': t['text'], 'design_ref': 'DESIGN.md §4 ' + pid},
        'level_note': t['note'],
        'technique': t['technique'],
    })
na = [{'property_id': k, 'reason': v} for k, v in sorted(T.NOT_APPLICABLE.items()) if k not in registry.PROPS]
m = {
    'version': 1,
    'setup_cmd': './setup.sh',
    'hooks': {'guard': 'cfg(kani) — set by cargo kani on a scratch copy only; no source commit in /repo carries a hook',
              'enable': 'harness modules of /verif/kani/*.rs are appended as #[cfg(kani)] modules to a scratch copy of /repo on every run; /repo itself is never instrumented',
              'baseline_off_cmd': 'cd /repo && cargo test --workspace --no-fail-fast --offline',
              'source_commits': [], 'add_only': True},
    'engines': [{'name': 'contracts', 'path': 'engine/', 'serves_properties': sorted(registry.PROPS),
                 'kind_free_text': 'contract-based deductive verification: Verus on functions extracted mechanically from /repo each run (units/*.rs hold the contracts), Kani/CBMC harnesses and function contracts on the real crate (kani/*.rs)'}],
    'checks': checks,
    'notes': T.NOTES,
    'not_applicable': na,
}
json.dump(m, open(os.path.join(os.path.dirname(os.path.dirname(os.path.abspath(__file__))), 'MANIFEST.json'), 'w'), indent=1)
print('checks:', [c['property_id'] for c in checks], 'n/a:', [x['property_id'] for x in na])
