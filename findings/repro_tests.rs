// Reproductions of the genuine defects F1..F4, F6..F10 against the real crate.
// Usage (scratch copy only): copy to src/tests/verif_repro.rs and add `mod verif_repro;` to src/tests/mod.rs.
use super::{create_database, rng};
use crate::distance::{BinaryQuantizedEuclidean, Euclidean};
use crate::{Reader, Writer};

fn six_items(writer: &Writer<Euclidean>, wtxn: &mut heed::RwTxn) {
    for i in 0..6u32 {
        writer.add_item(wtxn, i, &[i as f32, 0.0]).unwrap();
    }
}

/// F1: an insertion landing next to a single-item child of a split.
#[test]
fn f1_insert_next_to_single_item_child() {
    let handle = create_database::<Euclidean>();
    let mut wtxn = handle.env.write_txn().unwrap();
    let writer = Writer::new(handle.database, 0, 2);
    six_items(&writer, &mut wtxn);
    writer.builder(&mut rng()).n_trees(1).build(&mut wtxn).unwrap();
    wtxn.commit().unwrap();
    let mut wtxn = handle.env.write_txn().unwrap();
    writer.add_item(&mut wtxn, 100, &[-1.0, 0.0]).unwrap();
    writer.builder(&mut rng()).n_trees(1).build(&mut wtxn).unwrap();
    wtxn.commit().unwrap();
    let rtxn = handle.env.read_txn().unwrap();
    let reader = Reader::open(&rtxn, 0, handle.database).unwrap();
    reader.assert_validity(&rtxn).unwrap();
}

/// F2: deletions plus tree-count shrink.
#[test]
fn f2_delete_then_shrink_tree_count() {
    let handle = create_database::<Euclidean>();
    let mut wtxn = handle.env.write_txn().unwrap();
    let writer = Writer::new(handle.database, 0, 2);
    six_items(&writer, &mut wtxn);
    writer.builder(&mut rng()).n_trees(2).build(&mut wtxn).unwrap();
    wtxn.commit().unwrap();
    let mut wtxn = handle.env.write_txn().unwrap();
    writer.del_item(&mut wtxn, 0).unwrap();
    writer.del_item(&mut wtxn, 2).unwrap();
    writer.builder(&mut rng()).n_trees(1).build(&mut wtxn).unwrap();
    wtxn.commit().unwrap();
    let rtxn = handle.env.read_txn().unwrap();
    let reader = Reader::open(&rtxn, 0, handle.database).unwrap();
    reader.assert_validity(&rtxn).unwrap();
    assert_eq!(reader.n_trees(), 1);
}

/// F3: one-dimensional index, automatic tree count.
#[test]
fn f3_one_dimension_auto_tree_count() {
    let handle = create_database::<Euclidean>();
    let mut wtxn = handle.env.write_txn().unwrap();
    let writer = Writer::new(handle.database, 0, 1);
    for i in 0..6u32 {
        writer.add_item(&mut wtxn, i, &[i as f32]).unwrap();
    }
    writer.builder(&mut rng()).build(&mut wtxn).unwrap();
    wtxn.commit().unwrap();
    let rtxn = handle.env.read_txn().unwrap();
    let reader = Reader::open(&rtxn, 0, handle.database).unwrap();
    assert!(reader.n_trees() >= 1, "n_trees = {}", reader.n_trees());
    let r = reader.nns(3).by_vector(&rtxn, &[0.0]).unwrap();
    assert_eq!(r.len(), 3);
}

/// F4: count * n_trees overflows.
#[test]
fn f4_huge_count() {
    let handle = create_database::<Euclidean>();
    let mut wtxn = handle.env.write_txn().unwrap();
    let writer = Writer::new(handle.database, 0, 2);
    six_items(&writer, &mut wtxn);
    writer.builder(&mut rng()).n_trees(3).build(&mut wtxn).unwrap();
    wtxn.commit().unwrap();
    let rtxn = handle.env.read_txn().unwrap();
    let reader = Reader::open(&rtxn, 0, handle.database).unwrap();
    let r = reader.nns(usize::MAX).by_vector(&rtxn, &[0.0, 0.0]).unwrap();
    assert_eq!(r.len(), 6);
    let r = reader.nns(usize::MAX / 2 + 1).by_vector(&rtxn, &[0.0, 0.0]).unwrap();
    assert_eq!(r.len(), 6);
}

/// F6: changing the metric away from a binary-quantised one keeps 64-padded vectors.
#[test]
fn f6_change_distance_from_binary_quantized() {
    let handle = create_database::<BinaryQuantizedEuclidean>();
    let mut wtxn = handle.env.write_txn().unwrap();
    let writer = Writer::new(handle.database, 0, 40);
    for i in 0..50u32 {
        let v: Vec<f32> = (0..40).map(|j| if (i >> (j % 6)) & 1 == 1 { 1.0 } else { -1.0 }).collect();
        writer.add_item(&mut wtxn, i, &v).unwrap();
    }
    writer.builder(&mut rng()).build(&mut wtxn).unwrap();
    let writer = writer.prepare_changing_distance::<Euclidean>(&mut wtxn).unwrap();
    // every stored leaf must have the declared dimension under the new metric
    let db: crate::Database<Euclidean> = handle.database.remap_data_type();
    for i in 0..50u32 {
        let leaf = crate::reader::item_leaf(db, 0, &wtxn, i).unwrap().unwrap();
        assert_eq!(leaf.vector.len(), 40, "item {i} stored with {} floats", leaf.vector.len());
    }
    writer.add_item(&mut wtxn, 1000, &[0.5; 40]).unwrap();
    writer.builder(&mut rng()).build(&mut wtxn).unwrap();
    wtxn.commit().unwrap();
    let rtxn = handle.env.read_txn().unwrap();
    let reader = Reader::<Euclidean>::open(&rtxn, 0, db).unwrap();
    reader.assert_validity(&rtxn).unwrap();
}

/// F7: item iterators must return the declared dimension for binary-quantised metrics.
#[test]
fn f7_iter_returns_declared_dimension_for_binary_quantized() {
    let handle = create_database::<BinaryQuantizedEuclidean>();
    let mut wtxn = handle.env.write_txn().unwrap();
    let writer = Writer::new(handle.database, 0, 16);
    let v: Vec<f32> = (0..16).map(|j| if j % 3 == 0 { 1.0 } else { -1.0 }).collect();
    writer.add_item(&mut wtxn, 7, &v).unwrap();
    writer.builder(&mut rng()).build(&mut wtxn).unwrap();
    let got = writer.item_vector(&wtxn, 7).unwrap().unwrap();
    assert_eq!(got, v);
    let (id, it) = writer.iter(&wtxn).unwrap().next().unwrap().unwrap();
    assert_eq!(id, 7);
    assert_eq!(it, got, "iter yields {} floats, item_vector {}", it.len(), got.len());
    wtxn.commit().unwrap();
    let rtxn = handle.env.read_txn().unwrap();
    let reader = Reader::open(&rtxn, 0, handle.database).unwrap();
    let (_, it) = reader.iter(&rtxn).unwrap().next().unwrap().unwrap();
    assert_eq!(it, got);
}

/// F8 (C14, fixed by 7b6828b): with a bucket capacity >= 200 and a tiny memory hint an over-full bucket was re-queued forever.
/// Before the fix the build was cancelled after 15 s.
#[test]
fn f8_memory_limited_build_with_large_capacity_terminates() {
    use std::time::{Duration, Instant};
    let handle = create_database::<Euclidean>();
    let mut wtxn = handle.env.write_txn().unwrap();
    let writer = Writer::new(handle.database, 0, 2);
    for i in 0..600u32 {
        writer.add_item(&mut wtxn, i, &[(i % 25) as f32, (i / 25) as f32]).unwrap();
    }
    let start = Instant::now();
    let r = writer.builder(&mut rng()).n_trees(1).split_after(250).available_memory(0)
        .cancel(move || start.elapsed() > Duration::from_secs(15)).build(&mut wtxn);
    assert!(r.is_ok(), "build did not terminate within 15 s: {r:?}");
}

/// F9 (C12, fixed by 3496d34): the binary-quantised cosine distance of a vector to itself must be 0 (it was about -6e-8 for d = 65)
#[test]
fn f9_bq_cosine_self_distance_is_zero_for_every_dimension() {
    use crate::distance::{BinaryQuantizedCosine, Distance};
    use crate::internals::{Leaf, UnalignedVector};
    use std::borrow::Cow;
    for d in 1..=300usize {
        let v: Vec<f32> = (0..d).map(|i| if i % 3 == 0 { 1.0 } else { -1.0 }).collect();
        let uv = UnalignedVector::from_slice(&v);
        let p: Leaf<BinaryQuantizedCosine> = Leaf { header: BinaryQuantizedCosine::new_header(&uv), vector: Cow::Owned(uv.clone().into_owned()) };
        let q: Leaf<BinaryQuantizedCosine> = Leaf { header: BinaryQuantizedCosine::new_header(&uv), vector: Cow::Owned(uv.clone().into_owned()) };
        let dist = BinaryQuantizedCosine::normalized_distance(BinaryQuantizedCosine::built_distance(&p, &q), d);
        assert!(dist == 0.0, "dimension {d}: distance of a vector to itself is {dist:e}");
    }
}

/// F10: a `true` answer of the cancellation callback (or a read error) while the used tree-node
/// ids are collected is swallowed: the ids are silently reported as all free.
#[test]
fn f10_cancellation_seen_while_collecting_the_used_node_ids_is_reported() {
    let handle = create_database::<Euclidean>();
    let mut wtxn = handle.env.write_txn().unwrap();
    let writer = Writer::new(handle.database, 0, 2);
    for i in 0..100u32 {
        writer.add_item(&mut wtxn, i, &[i as f32, (i * i % 17) as f32]).unwrap();
    }
    writer.builder(&mut rng()).n_trees(3).split_after(4).build(&mut wtxn).unwrap();
    wtxn.commit().unwrap();

    let mut wtxn = handle.env.write_txn().unwrap();
    for i in 100..140u32 {
        writer.add_item(&mut wtxn, i, &[i as f32, (i * i % 17) as f32]).unwrap();
    }
    let in_step = std::sync::atomic::AtomicBool::new(false);
    let res = writer
        .builder(&mut rng())
        .n_trees(3)
        .split_after(4)
        .progress(|p| in_step.store(p.main == crate::writer::MainStep::RetrievingTheUsedTreeNodes, std::sync::atomic::Ordering::SeqCst))
        // answers `true` once, at the first poll made while the used node ids are collected
        .cancel(|| in_step.swap(false, std::sync::atomic::Ordering::SeqCst))
        .build(&mut wtxn);
    match res {
        Err(crate::Error::BuildCancelled) => (),
        Err(e) => panic!("unexpected error {e}"),
        Ok(()) => {
            wtxn.commit().unwrap();
            let rtxn = handle.env.read_txn().unwrap();
            let reader = Reader::open(&rtxn, 0, handle.database).unwrap();
            let valid = reader.assert_validity(&rtxn);
            panic!("the build swallowed the cancellation and reported success; forest validity: {valid:?}");
        }
    }
}
