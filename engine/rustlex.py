"""Minimal Rust lexing helpers: enough to find items and match braces in rustfmt-formatted source.

Nothing here interprets Rust; it only distinguishes code from comments / string / char literals so
that brace matching and keyword search are not fooled by them.
"""
import re


def mask(src: str) -> str:
    """Return a string of the same length where comments, string and char literals are replaced by
    spaces (newlines kept), so that positions in the mask equal positions in the source."""
    out = list(src)
    i, n = 0, len(src)

    def blank(a, b):
        for k in range(a, b):
            if out[k] != '\n':
                out[k] = ' '

    while i < n:
        c = src[i]
        if src.startswith('//', i):
            j = src.find('\n', i)
            j = n if j < 0 else j
            blank(i, j)
            i = j
        elif src.startswith('/*', i):
            depth, j = 1, i + 2
            while j < n and depth:
                if src.startswith('/*', j):
                    depth += 1
                    j += 2
                elif src.startswith('*/', j):
                    depth -= 1
                    j += 2
                else:
                    j += 1
            blank(i, j)
            i = j
        elif c == '"' or (c == 'b' and src.startswith('b"', i)):
            j = i + (2 if c == 'b' else 1)
            while j < n and src[j] != '"':
                j += 2 if src[j] == '\\' else 1
            blank(i + 1, j)
            i = j + 1
        elif c == 'r' and re.match(r'r#*"', src[i:i + 8]):
            m = re.match(r'r(#*)"', src[i:i + 8])
            close = '"' + m.group(1)
            j = src.find(close, i + len(m.group(0)))
            j = n if j < 0 else j + len(close)
            blank(i + 1, j - 1)
            i = j
        elif c == "'":
            # char literal or lifetime
            m = re.match(r"'(\\.[^']*|[^'\\])'", src[i:i + 12])
            if m:
                blank(i + 1, i + len(m.group(0)) - 1)
                i += len(m.group(0))
            else:
                i += 1
        else:
            i += 1
    return ''.join(out)


def match_close(masked: str, open_pos: int) -> int:
    """Position of the bracket closing the one at open_pos (any of ([{ )."""
    pairs = {'(': ')', '[': ']', '{': '}'}
    o = masked[open_pos]
    c = pairs[o]
    depth = 0
    for k in range(open_pos, len(masked)):
        ch = masked[k]
        if ch == o:
            depth += 1
        elif ch == c:
            depth -= 1
            if depth == 0:
                return k
    raise ValueError('unbalanced bracket at %d' % open_pos)


def next_open_brace(masked: str, start: int) -> int:
    """First '{' at paren/bracket depth 0 at or after start."""
    depth = 0
    for k in range(start, len(masked)):
        ch = masked[k]
        if ch in '([':
            depth += 1
        elif ch in ')]':
            depth -= 1
        elif ch == '{' and depth == 0:
            return k
        elif ch == ';' and depth == 0:
            raise ValueError('no body')
    raise ValueError('no open brace')


def norm_ws(s: str) -> str:
    return re.sub(r'\s+', ' ', s).strip()


def find_impl_block(src: str, masked: str, header: str):
    """Return (body_start, body_end) positions (inside the braces) of the impl/trait/mod block whose
    header (text before '{', whitespace-normalised) equals `header`."""
    want = norm_ws(header)
    for m in re.finditer(r'(?m)^[ \t]*((?:unsafe\s+)?impl\b|(?:pub(?:\([a-z]+\))?\s+)?trait\b|(?:pub(?:\([a-z]+\))?\s+)?mod\b)', masked):
        try:
            ob = next_open_brace(masked, m.start())
        except ValueError:
            continue
        head = norm_ws(src[m.start():ob])
        if head == want:
            return ob + 1, match_close(masked, ob)
    raise KeyError('impl header not found: ' + header)


FN_RE = r'(?m)^([ \t]*)((?:#\[[^\n]*\]\s*\n[ \t]*)*)((?:pub(?:\([a-z]+\))?\s+)?(?:const\s+)?(?:unsafe\s+)?fn\s+%s\b)'


def find_fn(src: str, masked: str, name: str, lo: int, hi: int, depth_ok=True):
    """Locate `fn name` inside [lo, hi) at the block's top level. Returns dict with positions:
    start (start of attributes), fn_kw, body_open, body_close (position of '}')."""
    for m in re.finditer(FN_RE % re.escape(name), masked[lo:hi]):
        pos = lo + m.start()
        # top level of the block: brace depth between lo and pos must be 0
        seg = masked[lo:pos]
        if seg.count('{') != seg.count('}'):
            continue
        ob = next_open_brace(masked, lo + m.start(3))
        cb = match_close(masked, ob)
        # doc comments directly above
        return {
            'start': lo + m.start(),
            'attrs': (lo + m.start(2), lo + m.end(2)),
            'fn_kw': lo + m.start(3),
            'body_open': ob,
            'body_close': cb,
        }
    raise KeyError('fn not found: ' + name)


LOOP_RE = re.compile(r'\b(while|for|loop)\b')


def find_loops(masked_fn: str, body_open: int):
    """Return list of (kw_pos, kw, body_open_pos) for loops in source order inside a function text."""
    res = []
    for m in LOOP_RE.finditer(masked_fn, body_open):
        kw = m.group(1)
        # `for<'a>` in types is not a loop
        after = masked_fn[m.end():m.end() + 2]
        if kw == 'for' and after.lstrip().startswith('<'):
            continue
        # `impl X for Y`
        if kw == 'for':
            line_start = masked_fn.rfind('\n', 0, m.start()) + 1
            if re.match(r'\s*(unsafe\s+)?impl\b', masked_fn[line_start:m.start()]):
                continue
        try:
            ob = next_open_brace(masked_fn, m.end())
        except ValueError:
            continue
        res.append((m.start(), kw, ob))
    return res


def line_of(src: str, pos: int) -> int:
    return src.count('\n', 0, pos) + 1
