"""python3 -m engine.kani_dev <stem,stem> [harness ...]   (developer helper)"""
import sys, json
from . import kani
stems = sys.argv[1].split(',')
files = kani.harness_files()
hs = sys.argv[2:] or [h for s in stems for h in files[s]['harnesses']]
res, meta = kani.run('/repo', stems, hs, 12, 3000, '/tmp/kani_dev.log')
print(meta['wall_s'], 'compile_error' if meta['compile_error'] else '', meta['tail'][-1500:])
for h in hs:
    r = res.get(h, {})
    print('%-45s %-10s checks=%s failed=%s t=%s %s' % (h, r.get('status'), r.get('checks'), r.get('failed'), r.get('time_s'), r.get('failed_checks', '')[:2] if r.get('failed_checks') else ''))
