"""Which units decide which property (DESIGN.md §4). `verus`: unit -> list of qualified function
names whose verification conditions count for the property (None = every extracted function)."""

TRUSTED_COMMON = [
    'LMDB via heed: a transaction is a finite map from 8-byte keys to byte strings; get/put/delete act on one key; prefix iterators yield exactly the keys under the byte prefix in ascending order; del_current/put_current act on the key last yielded; delete_range deletes exactly the keys of the range; MDB_APPEND fails with KeyExist iff the key is not greater than every key of the database; a failing call returns a heed error and changes nothing (stand-in contracts in units/lib/prelude.rs, all #[verifier::external_body])',
    'roaring::RoaringBitmap is a finite Set<u32> with the usual operations (stand-in contracts)',
    'extraction rules R1-R10 of engine/extract.py are semantics preserving (each firing is reported per function)',
    'one uninterpreted metric `Dist` stands for every Distance implementation (rule R1); heed::Error / io::Error / arroy::Error are one sum type (rule R10); RoTxn and RwTxn are one stand-in type',
    'Verus 0.2026.09.13 + Z3, Kani 0.68 + CBMC 6.11 are sound; partial correctness unless a decreases clause is listed',
    'cross-engine: the abstraction of keys as (index, kind, id) triples ordered lexicographically, and of prefixes / ranges as sets of triples, is what the Kani unit key_layout proves about the real byte codecs',
]

BOUNDS = {}

KEYS = ['NodeId::metadata', 'NodeId::version', 'NodeId::updated', 'NodeId::tree', 'NodeId::item',
        'Key::new', 'Key::metadata', 'Key::version', 'Key::updated', 'Key::item', 'Key::tree',
        'Prefix::all', 'Prefix::item', 'Prefix::tree', 'Prefix::updated']

KEY_LAYOUT_ALL = ['key_encode_is_reference_layout', 'key_decode_accepts_reference_layout', 'key_byte_order_is_tuple_order',
                  'prefix_selects_exactly_its_index_and_kind', 'tree_range_contains_exactly_tree_keys_of_index', 'key_constructors']

STORE_W = ['Writer::add_item', 'Writer::append_item', 'Writer::del_item', 'Writer::clear', 'Writer::contains_item',
           'Writer::item_vector', 'Writer::iter', 'Writer::is_empty', 'Writer::need_build', 'item_leaf', 'ItemIter::next']
STORE_R = ['Reader::open', 'Reader::dimensions', 'Reader::n_trees', 'Reader::n_items', 'Reader::item_ids', 'Reader::index',
           'Reader::contains_item', 'Reader::item_vector', 'Reader::iter', 'Reader::is_empty', 'ItemIter::next', 'item_leaf', 'QueryBuilder::by_vector', 'QueryBuilder::by_item']

PROPS = {
    'C05': {
        'verus': {'store': KEYS + STORE_W, 'reader_open': KEYS + STORE_R},
        'kani': {'quick': [('key_layout', ['key_byte_order_is_tuple_order', 'prefix_selects_exactly_its_index_and_kind'])]},
        'not_decided': [],
    },
    'C06': {
        'verus': {'store': KEYS + ['Writer::add_item', 'Writer::append_item', 'Writer::del_item', 'Writer::clear', 'Writer::need_build'],
                  'reader_open': KEYS + ['Reader::open']},
        'kani': {'quick': [('key_layout', ['prefix_selects_exactly_its_index_and_kind'])]},
        'not_decided': [],
    },
    'C13': {
        'verus': {'node_ids': ['ConcurrentNodeIds::new', 'ConcurrentNodeIds::next', 'lemma_distinct_tickets_distinct_ids']},
        'trusted': ['A-ticket: an atomic fetch_add never returns the same value twice before the counter wraps (the `used` budget check stops the generator before 2^32 requests); load()/store() give no ticket',
                    'RoaringBitmap::select is injective and returns members (axiom_nth, admitted)',
                    'rayon and the two `unsafe impl Sync` are trusted: the per-root closures share only the id generator and read-only frozen views'],
        'not_decided': ['the second sentence of C13 (a build yields a C01 forest for every thread-pool size) beyond: the contracts of the per-tree functions never depend on the order in which other threads run'],
    },
    'C15': {
        'verus': {'tree_count': ['Writer::fit_in_descendant', 'target_n_trees']},
        'trusted': ['the f64 hysteresis test of target_n_trees is an uninterpreted boolean'],
        'not_decided': ['reader-visible tree count and bucket bound after a whole build: decided by the build-chain units (delete_extra_trees, missing-tree loop, bucket clauses) where claimed'],
    },
    'C19': {
        'verus': {'store': KEYS + ['Writer::add_item', 'Writer::append_item', 'Writer::del_item'],
                  'reader_open': KEYS + ['QueryBuilder::by_vector', 'Reader::dimensions']},
        'kani': {'quick': [('key_layout', ['key_byte_order_is_tuple_order'])]},
        'not_decided': [],
    },
}
