"""Which units decide which property (DESIGN.md §4). `verus`: unit -> list of qualified function
names whose verification conditions count for the property (None = every extracted function)."""

TRUSTED_COMMON = [
    'LMDB via heed: a transaction is a finite map from 8-byte keys to byte strings; get/put/delete act on one key; prefix iterators yield exactly the keys under the byte prefix in ascending order; del_current/put_current act on the key last yielded; delete_range deletes exactly the keys of the range; MDB_APPEND fails with KeyExist iff the key is not greater than every key of the database; a failing call returns a heed error and changes nothing (stand-in contracts in units/lib/prelude.rs, all #[verifier::external_body])',
    'roaring::RoaringBitmap is a finite Set<u32> with the usual operations (stand-in contracts)',
    'extraction rules R1-R10 of engine/extract.py are semantics preserving (each firing is reported per function)',
    'one uninterpreted metric `Dist` stands for every Distance implementation (rule R1); heed::Error / io::Error / arroy::Error are one sum type (rule R10); RoTxn and RwTxn are one stand-in type',
    'Verus 0.2026.09.13 + Z3, Kani 0.68 + CBMC 6.11 are sound; partial correctness unless a decreases clause is listed',
    'cross-engine: the abstraction of keys as (index, kind, id) triples ordered lexicographically, and of prefixes / ranges as sets of triples, is what the Kani unit key_layout proves about the real byte codecs',
]

BOUNDS = {}

KEYS = ['NodeId::metadata', 'NodeId::version', 'NodeId::updated', 'NodeId::tree', 'NodeId::item',
        'Key::new', 'Key::metadata', 'Key::version', 'Key::updated', 'Key::item', 'Key::tree',
        'Prefix::all', 'Prefix::item', 'Prefix::tree', 'Prefix::updated']

KEY_LAYOUT_ALL = ['key_encode_is_reference_layout', 'key_decode_accepts_reference_layout', 'key_byte_order_is_tuple_order',
                  'prefix_selects_exactly_its_index_and_kind', 'tree_range_contains_exactly_tree_keys_of_index', 'key_constructors']

STORE_W = ['Writer::add_item', 'Writer::append_item', 'Writer::del_item', 'Writer::clear', 'Writer::contains_item',
           'Writer::item_vector', 'Writer::iter', 'Writer::is_empty', 'Writer::need_build', 'item_leaf', 'ItemIter::next']
STORE_R = ['Reader::open', 'Reader::dimensions', 'Reader::n_trees', 'Reader::n_items', 'Reader::item_ids', 'Reader::index',
           'Reader::contains_item', 'Reader::item_vector', 'Reader::iter', 'Reader::is_empty', 'ItemIter::next', 'item_leaf', 'QueryBuilder::by_vector', 'QueryBuilder::by_item']

BQ_QUICK = ['bq_word_constants', 'bq_iterator_step_value', 'bq_from_slice_len_1', 'bq_from_slice_len_63', 'bq_from_slice_len_64', 'bq_from_slice_len_65', 'bq_unpack_8_bytes',
            'bq_roundtrip_len_3', 'bq_from_bytes_size_check']
BQ_MORE = ['bq_from_slice_len_2', 'bq_from_slice_len_7', 'bq_from_slice_len_8', 'bq_from_slice_len_9', 'bq_from_slice_len_31', 'bq_from_slice_len_33',
           'bq_from_slice_len_127', 'bq_from_slice_len_128', 'bq_from_slice_len_129', 'bq_unpack_16_bytes', 'bq_to_vec_non_optimized_8_bytes', 'bq_roundtrip_len_40']
NODE_ID = ['node_id_to_bytes_contract', 'node_id_roundtrip_via_contract', 'node_id_from_bytes_reference_layout', 'node_mode_try_from_all_codes']

TREE_INSERT = ['Writer::insert_items_in_file', 'randomly_split_children', 'Writer::fit_in_descendant',
               'lemma_ins_item_new', 'lemma_ins_item_same', 'lemma_ins_desc', 'lemma_ins_split']
TREE_MAKE = ['Writer::make_tree_in_file', 'Writer::fit_in_descendant', 'lemma_mk_item', 'lemma_mk_desc', 'lemma_mk_split', 'lemma_part_step', 'lemma_part_done']
MAKE_ASSUMED = [('src/writer.rs', None, 'split_imbalance'), ('src/parallel.rs', "impl<'t, D: Distance> ImmutableSubsetLeafs<'t, D>", 'from_item_ids')]
TREE_DRIVERS = ['Writer::delete_tree', 'Writer::delete_extra_trees', 'Writer::delete_items_from_trees']
DRIVER_LEMMAS = {'drivers_lib': None, 'writeback_lib': None}
WB_ASSUMED = [('src/parallel.rs', 'impl TmpNodesReader', 'to_insert'), ('src/parallel.rs', 'impl TmpNodesReader', 'to_delete'),
              ('src/parallel.rs', "impl<'a, DE: BytesEncode<'a>> TmpNodes<DE>", 'into_bytes_reader')]
FROZEN_ASSUMED = [('src/parallel.rs', "impl<'t, D: Distance> ImmutableLeafs<'t, D>", 'get'), ('src/parallel.rs', "impl<'t, D: Distance> ImmutableTrees<'t, D>", 'get')]

BUILD_CHAIN = {'tmp_nodes': ['TmpNodesC::put', 'TmpNodesC::remap', 'TmpNodesC::remove'], 'trees_new': ['ImmutableTrees::new', 'ImmutableTrees::sub_tree_from_id', 'ImmutableTrees::empty', 'NodeId::unwrap_tree'], 'insert_glue': ['Writer::insert_items_in_tree'], 'insert_driver': ['Writer::insert_items_in_current_trees'], 'iict_lib': None,
               'incr_driver': ['Writer::incremental_index_large_descendants'], 'incr_lib': None,
               'build': ['Writer::build', 'meta_roots_'], 'build_lib': None, 'inv_lib': None, 'used_nodes': ['Writer::used_tree_node'],
               'builder_opts': ['BuildOption::default', 'Writer::builder', 'ArroyBuilder::n_trees', 'ArroyBuilder::split_after', 'ArroyBuilder::available_memory', 'ArroyBuilder::build']}
TMP = "impl<'a, DE: BytesEncode<'a>> TmpNodes<DE>"
BUILD_ASSUMED = [('src/writer.rs', 'impl<D: Distance> Writer<D>', 'pre_process_items'),
                 ('src/parallel.rs', TMP, 'new'), ('src/parallel.rs', TMP, 'new_in')]
BUILD_TRUSTED = [
    'A5 (build-level, not proved): while the id generator of a build is alive, every tree id of the index in the database was present when the generator was created or was issued by it; hence an id it returns is not a tree key of the current view (ConcurrentNodeIds::next_v_) nor of the view a staging area was created under (TmpNodes::taken, rules R12/R12b/R14); axiom_generator_covers ties this to the set passed to ConcurrentNodeIds::new',
    'A6: rule R11 renders the rayon map of insert_items_in_tree as the sequential loop over the same closure body (proved: one result per root, each satisfying the PROVED contract of insert_items_in_file for a fresh staging area; errors propagate); what the interleaving adds is assumed as axiom_distinct_staging: ids handed to different staging areas during one call are different (the sequential restatement of C13). pre_process_items only rewrites item leaves of the index in place (no key added or removed, encoded length kept); used_tree_node is PROVED in unit used_nodes (exactly the tree ids of the index; a cancellation or read error met during the fold is returned — defect F10, repaired — over a trusted stand-in of Iterator::try_fold with a ghost fold invariant). ImmutableTrees::new / sub_tree_from_id / empty are PROVED in unit trees_new (every tree node of the index / exactly the subtree, with the database values; the (len, ptr) pairs are abstracted as the mapped bytes, the unsafe slice reconstruction in ImmutableTrees::get stays assumed); callers additionally use a ghost-only name db_has for the tree ids the database held when the view was frozen',
    'ghost parameter: incremental_index_large_descendants receives the roots of the forest as a ghost argument (//@ghostparam, //@ghostarg Ghost(roots@) at its call in build); erased at run time',
    'precondition of build: index_inv (tree keys hold tree nodes, leaves have one length, and when metadata exists: the forest it records is well formed over metadata.items with buckets within the capacity, and an id without an updated mark is stored iff the trees hold it); build re-establishes it (built ==> index_inv); unit inv_lib proves that the exact post-states which unit store / writer_scans prove for add_item, append_item, del_item, clear, prepare_changing_distance (its postcondition is literally the precondition of lemma_inv_no_forest), rejected calls and operations on other indexes preserve it (the new leaf having the common encoded length is a hypothesis there: a codec fact); the composition over a history is by matching those post-states with the lemma preconditions, not one mechanised induction (stating the preservation inside the store contracts was tried and withdrawn: the proof hints it needs made four seeded changes of those functions undecided instead of detected)',
]
PROPS = {
    'C01': {
        'verus': {'forest_lib': None,
                  'tree_delete': ['Writer::delete_items_in_file', 'Writer::fit_in_descendant', 'lemma_del_common', 'lemma_del_fit', 'lemma_del_one_side_empty', 'lemma_del_keep'],
                  'tree_insert': TREE_INSERT, 'tree_make': TREE_MAKE, 'tree_drivers': TREE_DRIVERS, 'drivers_lib': None, 'writeback_lib': None,
                  'leafs_new': ['ImmutableLeafs::new'], 'tree_count': ['Writer::fit_in_descendant', 'target_n_trees'],
                  'writer_scans': ['Writer::item_indices', 'Writer::reset_and_retrieve_updated_items', 'Writer::clear_db_and_create_a_single_leaf', 'clear_tree_nodes'],
                  **BUILD_CHAIN},
        'assumed_fns': FROZEN_ASSUMED + MAKE_ASSUMED + WB_ASSUMED + BUILD_ASSUMED,
        'trusted': BUILD_TRUSTED,
        'not_decided': ['that the reader-visible forest (Reader::open on the metadata written by build) is the one `built` describes is the conjunction of this contract with Reader::open (C05/C06 unit reader_open); not restated as one lemma',
                        'termination of the build (C14)'],
    },
    'C02': {
        'verus': {'reader_search': ['Reader::nns', 'Reader::nns_by_leaf', 'NodeId::unwrap_item'], 'forest_lib': None,
                  'reader_open': ['QueryBuilder::by_vector', 'QueryBuilder::by_item', 'item_leaf', 'Reader::open']},
        'trusted': ['precondition search_forest_ok = the reader-side part of the C01 forest invariant (every root is a well-formed tree over exactly the stored items); C02 holds on every index for which C01 holds',
                    'std BinaryHeap / sort_unstable / dedup stand-ins; OrderedFloat total order (uninterpreted order embedding)',
                    'A4: a Vec<u32> never holds usize::MAX elements'],
        'not_decided': ['that built_distance followed by normalized_distance equals the mathematical metric within rounding (floating point: see C11 / C12); "nearest" is in the total order OrderedFloat puts on the computed distances, ties by id',
                        'reader.item_ids() = stored item keys is an assumption of search_forest_ok (it is what build writes: C01 / C05)'],
    },
    'C03': {
        'verus': {'reader_search': ['Reader::nns', 'Reader::nns_by_leaf', 'NodeId::unwrap_item'],
                  'reader_open': ['QueryBuilder::by_vector', 'QueryBuilder::by_item', 'item_leaf', 'Reader::dimensions'],
                  'search_lib': None},
        'kani': {'quick': [('distance_side', ['default_oversampling_constants'])]},
        'trusted': ['std BinaryHeap (pop returns a minimum through Reverse), sort_unstable + dedup, Vec::extend from a bitmap iterator (members appended in ascending order): stand-in contracts in units/lib/reader_types.rs',
                    'budget monotonicity: std BinaryHeap is deterministic: what pop returns is a function (pop_of, uninterpreted) of the sequence of operations applied to the heap; with it the traversal loop is proved to be n steps of a budget-independent step function (t_iter), stopped by the budget (t_stops), and the result to be the selection of the count nearest among the collected candidates (top_of); unit search_lib proves from two such descriptions with budgets k1 <= k2 that the second result is not shorter and no rank is worse (pigeonhole over the sorted results). Runs that end in an error are not compared',
                    'OrderedFloat is a total order (order-embedding fkey into the integers, uninterpreted)',
                    'requires nodes_ok: Item keys hold leaves, Tree keys hold tree nodes whose children are Tree/Item references (local part of the C01 forest invariant)'],
        'not_decided': ['by_item(id) = by_vector(vector of id): both call nns_by_leaf whose contract mentions the query only through built_spec(query leaf, .); that new_header recomputes the header fields read by built_distance is not proved',
                        ],
    },
    'C04': {
        'verus': {'tree_insert': TREE_INSERT, 'tree_make': TREE_MAKE, 'reader_search': ['Reader::nns_by_leaf']},
        'assumed_fns': FROZEN_ASSUMED + MAKE_ASSUMED,
        'kani': {'quick': [('distance_side', ['side_follows_margin_sign', 'pq_distance_prefers_the_margin_side', 'pq_distance_from_root'])]},
        'static': ['no_override_side_pq'],
        'not_decided': [                        'margin(normal, q) = margin(q, normal) (IEEE commutativity of multiplication and identical summation order of the kernels) is assumed',
                        'ties d <= -margin fall back to node-id order'],
    },
    'C07': {
        'verus': {'store': KEYS + ['Writer::add_item', 'Writer::append_item', 'Writer::del_item', 'Writer::clear'],
                  'writer_scans': ['Writer::item_indices', 'Writer::reset_and_retrieve_updated_items', 'Writer::clear_db_and_create_a_single_leaf',
                                   'Writer::prepare_changing_distance', 'clear_tree_nodes', 'lemma_tree_range'],
                  'tree_drivers': TREE_DRIVERS, 'insert_driver': ['Writer::insert_items_in_current_trees'], 'incr_driver': ['Writer::incremental_index_large_descendants'],
                  'trees_new': ['ImmutableTrees::new', 'ImmutableTrees::sub_tree_from_id'], 'insert_glue': ['Writer::insert_items_in_tree'],
                  'build': ['Writer::build'], 'inv_lib': None, 'used_nodes': ['Writer::used_tree_node'],
                  # read side ("hence the same items, forest and query answers"): these contracts mention entries of the reader's own index only
                  'reader_open': ['Reader::open', 'item_leaf', 'QueryBuilder::by_item']},
        'kani': {'quick': [('key_layout', KEY_LAYOUT_ALL)]},
        'assumed_fns': WB_ASSUMED + BUILD_ASSUMED,
        'trusted': ['build and its drivers: the frame clause same_except(old, final, index, ..) is an UNCONDITIONAL postcondition (it also holds on every error exit); the glue function pre_process_items is assumed to stay within the index (A6)',
                    'read side: the contracts of Reader::open / item_leaf / by_item state their result from the entries of the reader\'s own index only (metadata key, marks and item keys of `index`), so an answer cannot depend on another index'],
        'not_decided': [],
    },
    'C10': {
        'verus': {'tree_delete': ['Writer::delete_items_in_file', 'lemma_del_fit', 'lemma_del_one_side_empty', 'lemma_del_keep', 'lemma_del_common'],
                  'tree_insert': TREE_INSERT, 'tree_make': TREE_MAKE, 'tree_drivers': TREE_DRIVERS, 'leafs_new': ['ImmutableLeafs::new'],
                  'writer_scans': ['Writer::item_indices', 'Writer::reset_and_retrieve_updated_items', 'Writer::clear_db_and_create_a_single_leaf', 'clear_tree_nodes', 'NodeId::unwrap_item'],
                  **BUILD_CHAIN},
        'assumed_fns': FROZEN_ASSUMED + MAKE_ASSUMED + WB_ASSUMED + BUILD_ASSUMED + [('src/writer.rs', "impl BuildOption<'_>", 'cancelled')],
        'trusted': ['every heed / TmpNodes stand-in call and every poll of cancelled() may return an arbitrary Ok/Err: all fault sequences at all poll points are covered symbolically',
                    'used_tree_node (unit used_nodes) returns a cancellation or read error met inside its try_fold (it used to turn it into "no id is used": defect F10, repaired)',
                    'Writer::build: r is Ok ==> built(..) (a complete, well-formed forest with its metadata), r is Err ==> the error is a heed/io error, BuildCancelled or DatabaseFull: Ok is never returned over a half-built forest, for every fault sequence at every poll point'] + BUILD_TRUSTED,
        'not_decided': ['abort restores the previous contents and a retry succeeds (LMDB, trusted)', 'temporary files and file descriptors are released (OS resources)',
                        ],
    },
    'C20': {
        'verus': {'tree_delete': ['Writer::delete_items_in_file', 'lemma_del_fit', 'lemma_del_one_side_empty', 'lemma_del_keep', 'lemma_del_common'],
                  'tree_insert': TREE_INSERT, 'tree_make': TREE_MAKE, 'leafs_new': ['ImmutableLeafs::new'],
                  'reader_search': ['Reader::nns_by_leaf'], 'store': ['Writer::add_item', 'Writer::item_vector', 'ItemIter::next']},
        'assumed_fns': FROZEN_ASSUMED + [('src/distance/mod.rs', None, 'two_means'), ('src/distance/mod.rs', None, 'two_means_binary_quantized'),
                                         ('src/writer.rs', None, 'split_imbalance')],
        'trusted': ['every float-dependent decision (side, create_split, split_imbalance, margins, distances) is uninterpreted in these units, so the structural contracts hold for duplicates, zero vectors, collinear data, huge / subnormal values, NaN and infinities alike',
                    'OrderedFloat is a total order (uninterpreted order embedding)'],
        'not_decided': ['bounded time (termination): not decided; two_means / create_split / normalize (closure and iterator float code) are not under contract, only drift-guarded',
                        ],
    },
    'C11': {
        'verus': {'simd_kernels': None},
        'kani': {'quick': [('metric_formulas', ['cosine_is_zero_when_a_norm_vanishes', 'cosine_orthogonal_is_one_half', 'cosine_is_in_the_unit_interval',
                                                 'euclidean_distance_is_sqrt_of_the_kernel', 'dot_product_reports_the_inner_product', 'manhattan_normalized_is_nonnegative', 'cosine_header_holds_the_norm'])]},
        'trusted': ['STRUCTURE ONLY in the Verus unit: every f32 of the kernels is replaced by a ghost term (substitution f32 -> F32 in the extracted functions); floating-point values are not computed',
                    'intrinsics are stand-ins with the lane semantics of the Intel intrinsics guide: loadu (8 / 4 consecutive elements, all must exist), sub / mul / add / fmadd lane-wise, extractf128 / castps256_ps128 halves, movehl = [b2,b3,a2,a3], shuffle by its immediate, add_ss lane 0, cvtss lane 0',
                    'pointers are (vector, element offset, length) triples; pointer::add must stay within the allocation or one past its end; read_unaligned / loadu need the element(s) to exist: these are the obligations of the unsafe blocks',
                    'the plain loops euclidean_distance_non_optimized / dot_product_non_optimized / Manhattan::built_distance (iterator adapters) are ASSUMED to add one summand per index (CBMC does not finish on them even for length 3)',
                    'is_x86_feature_detected! is an arbitrary boolean; the NEON file is not compiled on this host (its cfg block is dropped as the compiler does)',
                    'Kani harnesses: the kernels are stubbed by an arbitrary float; header norms are finite and non-negative, kernel results finite (inputs outside produce NaN, which the property does not speak about)'],
        'not_decided': ['the first sentence of C11 — the reported value is the mathematical one WITHIN THE ROUNDING ERROR of single-precision summation: floating point is uninterpreted in Verus and CBMC cannot discharge summation-order obligations; what is decided is that the computed expression has the right SHAPE (each index once, both operands at the same index, right combination formula per metric)',
                        'symmetry and self-distance zero: follow from the shape (each summand pairs the same index of both vectors) plus IEEE facts ((a-b)^2 = (b-a)^2, a*b = b*a, x-x = 0) that are not proved',
                        'byte offsets / alignment of the stored vector: the loads are unaligned loads by construction (loadu / read_unaligned); the pointer stand-in has no alignment notion',
                        'Euclidean normalized distance is checked to be the correctly signed, monotone square root on sample points and in range, not bit-exact against a reference sqrt'],
    },
    'C12': {
        # the reported distance divides by the DECLARED dimension (not the padded length of the quantised vector): clause of the search contract
        # unit bq_pack: the packing loop and the plain unpacking iterator for EVERY length (loop invariants over the bits of the words)
        'verus': {'reader_search': ['Reader::nns_by_leaf'], 'bq_pack': None},
        'kani': {'quick': [('bq_codec', BQ_QUICK), ('bq_distance', ['bq_euclidean_is_4h_8_bytes', 'bq_dot_product_is_n_minus_2h_8_bytes']), ('bq_manhattan', ['bq_manhattan_is_2h_8_bytes']),
                           ('metric_formulas', ['bq_cosine_self_distance_is_zero_at_d65'])],
                 'thorough': [('bq_codec', BQ_MORE), ('bq_distance', ['bq_euclidean_is_4h_16_bytes']), ('metric_formulas', ['bq_cosine_is_in_the_unit_interval'])]},
        'trusted': ['sign packing (from_slice_non_optimized) and the plain iterator (BinaryQuantizedIterator::next, BinaryQuantized::iter / len) are proved by Verus for EVERY length (unit bq_pack); the Kani harnesses at lengths 1, 63, 64, 65 (quick) + 2, 7, 8, 9, 31, 33, 127, 128, 129 (thorough) remain as the end-to-end cross-check on the compiled code (bounded, not counted as proof)',
                    'unit bq_pack: std slice::chunks / iter().rev() / chunks_exact / u64::to_ne_bytes / from_ne_bytes are stand-ins with the std semantics (to_ne_bytes / from_ne_bytes as an uninterpreted bijection: no byte order is assumed); a float enters only through is_sign_positive (uninterpreted predicate) and through the value produced from one bit (stand-in pm_one_, whose arithmetic `bit as f32 * 2.0 - 1.0` is proved by the loop-free Kani harness bq_iterator_step_value over all u64 words); the constants 64 / 8 restated in the unit are proved equal to the real ones by Kani (bq_word_constants)',
                    'BinaryQuantized::len requires fewer than 2^61 stored bytes (no overflow of (len / 8) * 64)',
                    'BinaryQuantized::from_bytes (unit bq_pack, all lengths): accepted iff the length is a multiple of 8, and then the vector is exactly those bytes; the transmute to the transparent wrapper is a stand-in (unsafe: trusted)',
                    'the SSE unpacking path to_vec_sse (intrinsics) is not verified; the plain iterator is (all lengths), to_vec_non_optimized = iter().collect() for 8 bytes (Kani)',
                    'NEON code is not compiled on this host'],
        'not_decided': ['cosine: the exact value h / (64*ceil(d/64)) needs sqrt and division on floats (not decided); decided: the xor/popcount dot product it is computed from, that the reported value is in [0, 1] for all header norms (thorough tier, ~4 min) and exactly 0 in the concrete case of finding F9 (d = 65)',
                        'the xor/popcount distance kernels are proved for 8 / 16 bytes (Kani, symbolic contents), not for every length (iterator adapters zip / map / sum)'],
    },
    'C16': {
        # size checks of the two vector codecs for EVERY byte length (the Kani harnesses cover <= 12 / <= 24 bytes)
        'verus': {'bq_pack': ['F32Codec::from_bytes', 'F32Codec::len', 'BinaryQuantized::from_bytes', 'BinaryQuantized::len']},
        'kani': {'quick': [('key_layout', KEY_LAYOUT_ALL), ('node_id_codec', NODE_ID), ('version_codec', ['version_encode_is_reference_layout', 'version_decode_reads_reference_layout']),
                           ('node_codec', ['leaf_encode_is_reference_layout_len2', 'split_encode_is_reference_layout_len1', 'node_tags_are_reference_values']),
                           ('f32_codec', ['f32_from_slice_roundtrip_is_bit_exact', 'f32_from_vec_is_bit_exact', 'f32_from_bytes_size_check']),
                           ('distance_side', ['metric_names_are_reference_strings']),
                           ('header_layout', ['dot_product_header_is_extra_dim_then_norm', 'single_field_headers_are_four_bytes']),
                           ('metadata_codec', ['metadata_encode_is_reference_layout'])]},
        'trusted': ['node value layouts are proved for concrete vector lengths (leaf: 2 floats, split normal: 1 float) with symbolic contents',
                    'unit bq_pack: size_of::<f32>() == 4 and the transmute of a byte slice to the transparent UnalignedVector wrapper are stand-ins; with them from_bytes of both vector codecs accepts exactly the multiples of 4 / 8 bytes and len is bytes / 4 resp. 64 * (bytes / 8), for every length'],
        'not_decided': ['golden fixtures written by a reference binary (none exists in the sandbox)', 'the roaring serialisation format (external crate; stubbed in the MetadataCodec harness) and MetadataCodec::bytes_decode (CBMC does not finish on CStr / UTF-8 validation; tied to the proved encoder layout by the crate\'s round-trip test)',
                        'NodeCodec::bytes_decode of leaf / split values (CBMC does not finish on the boxed-error path); its parts NodeId::from_bytes, the tags and the vector size checks are proved'],
    },
    'C05': {
        'verus': {'store': KEYS + STORE_W, 'reader_open': KEYS + STORE_R, 'writer_scans': ['Writer::item_indices', 'NodeId::unwrap_item'],
                  'build': ['Writer::build'], 'build_lib': None},
        'assumed_fns': BUILD_ASSUMED,
        'trusted': ['Writer::build: the set of stored item keys is unchanged and the metadata lists exactly it (built); pre_process_items may rewrite leaf headers in place (A6)'],
        'kani': {'quick': [('key_layout', ['key_byte_order_is_tuple_order', 'prefix_selects_exactly_its_index_and_kind']),
                           ('f32_codec', ['f32_from_slice_roundtrip_is_bit_exact', 'f32_from_vec_is_bit_exact']),
                           ('bq_codec', ['bq_roundtrip_len_3', 'bq_from_slice_len_65'])]},
        'not_decided': [],
    },
    'C06': {
        'verus': {'store': KEYS + ['Writer::add_item', 'Writer::append_item', 'Writer::del_item', 'Writer::clear', 'Writer::need_build'],
                  'reader_open': KEYS + ['Reader::open'],
                  'writer_scans': ['Writer::reset_and_retrieve_updated_items', 'clear_tree_nodes', 'Writer::prepare_changing_distance', 'Writer::clear_db_and_create_a_single_leaf'],
                  'build': ['Writer::build'], 'build_lib': None},
        'assumed_fns': BUILD_ASSUMED,
        'trusted': ['Writer::build Ok ==> metadata present and no updated mark left (built), i.e. the index is not stale afterwards'],
        'kani': {'quick': [('key_layout', ['prefix_selects_exactly_its_index_and_kind'])]},
        'not_decided': [],
    },
    'C13': {
        'verus': {'node_ids': ['ConcurrentNodeIds::new', 'ConcurrentNodeIds::next', 'lemma_distinct_tickets_distinct_ids'],
                  # every new tree node written while trees are updated gets its id from the generator (freshness clauses of ins_post / mk_post)
                  'tree_insert': TREE_INSERT, 'tree_make': TREE_MAKE, 'insert_glue': ['Writer::insert_items_in_tree'],
                  'insert_driver': ['Writer::insert_items_in_current_trees'], 'iict_lib': None, 'incr_driver': ['Writer::incremental_index_large_descendants'], 'incr_lib': None,
                  'build': ['Writer::build'], 'build_lib': None, 'used_nodes': ['Writer::used_tree_node']},
        'assumed_fns': BUILD_ASSUMED + WB_ASSUMED + FROZEN_ASSUMED + MAKE_ASSUMED,
        'trusted': ['A-ticket: an atomic fetch_add never returns the same value twice before the counter wraps (the `used` budget check stops the generator before 2^32 requests); load()/store() give no ticket',
                    'RoaringBitmap::select is injective and returns members (axiom_nth, admitted)',
                    'rayon and the two `unsafe impl Sync` are trusted: the per-root closures share only the id generator and read-only frozen views'] + BUILD_TRUSTED,
        'not_decided': ['the second sentence of C13 (a build yields a C01 forest for every thread-pool size): decided as "the build contract (C01) is proved from per-root results whose only interaction is that their fresh ids are pairwise different and not in the database (glue_post + A5)", for every schedule that satisfies the generator contract'],
    },
    'C14': {
        'verus': {'leafs_new': ['ImmutableLeafs::new'], 'insert_driver': ['Writer::insert_items_in_current_trees'], 'incr_driver': ['Writer::incremental_index_large_descendants'],
                  'build': ['Writer::build'], 'tree_insert': TREE_INSERT,
                  'tree_delete': ['Writer::delete_items_in_file', 'lemma_del_fit', 'lemma_del_one_side_empty', 'lemma_del_keep', 'lemma_del_common']},
        'assumed_fns': FROZEN_ASSUMED + MAKE_ASSUMED + WB_ASSUMED + BUILD_ASSUMED,
        'trusted': ['available_memory is an unconstrained Option<usize> / usize in every contract: what is proved holds for every value including 0; Writer::build and its drivers are proved to produce the same `built` postcondition whatever its value',
                    'pages_allowed_ (the f64 floor of memory / page_size) and the page bookkeeping are uninterpreted: the partition and progress results do not depend on them'],
        'not_decided': ['termination of the queue loop of incremental_index_large_descendants and of the recursion of make_tree_in_file (no decreases clause: the split heuristic is random). The batching loop of insert_items_in_current_trees HAS a verified decreases clause (the set of pending ids strictly shrinks at every pass, for every memory hint), relative to the termination of the calls it makes; what is proved is the per-pass progress of ImmutableLeafs::new (a non-empty candidate set always yields a non-empty selection of at least min_items ids or everything) and that no candidate is lost or duplicated. A non-termination defect found on the way (F8: capacity >= 200 with a tiny memory hint) was repaired in /repo (known_findings.json)'],
    },
    'C15': {
        'verus': {'tree_count': ['Writer::fit_in_descendant', 'target_n_trees'], 'writer_scans': ['Writer::clear_db_and_create_a_single_leaf'],
                  'tree_insert': TREE_INSERT, 'tree_make': TREE_MAKE, 'tree_drivers': TREE_DRIVERS, 'drivers_lib': None, 'tree_delete': ['Writer::delete_items_in_file', 'lemma_del_fit', 'lemma_del_one_side_empty', 'lemma_del_keep', 'lemma_del_common'],
                  'reader_open': ['Reader::open', 'Reader::n_trees'], **BUILD_CHAIN},
        'assumed_fns': FROZEN_ASSUMED + MAKE_ASSUMED + WB_ASSUMED + BUILD_ASSUMED,
        'trusted': ['the f64 hysteresis test of target_n_trees is an uninterpreted boolean'] + BUILD_TRUSTED,
        'not_decided': ['"searches on any non-empty index return results": follows from C02/C03 on a forest with at least one tree; not restated',
                        'the bucket bound is proved for a build whose capacity equals the capacity of the previous build (index_inv is stated for one `cap`): a history that changes split_after between builds is outside the contract'],
    },
    'C17': {
        'verus': {'upgrade': ['from_0_5_to_0_6'], 'upgrade04': ['cosine_from_0_4_to_0_5', 'OldNodeMode::try_from']},
        'trusted': ['A3: the v0.4 database is well formed: every value decodes under the codec its kind prescribes (LazyDecode::decode is total in the stand-in) and metadata ids are 0 or 1 (precondition wf04)',
                    'the enum OldNodeMode and its try_from are extracted from inside the function body (rule R13 hoists item statements); the reference re-tagging (new_kind / retag_tree / step / upgraded) is written from the property statement'],
        'not_decided': ['the upgraded database "opens (or demands a build iff updates were pending) and satisfies C01": follows from C06 / C01 on the resulting view, not re-proved here',
                        'a pointwise (key by key) restatement of the fold `upgraded` is not proved as a separate lemma'],
    },
    'C18': {
        'verus': {'writer_scans': KEYS + ['Writer::prepare_changing_distance', 'clear_tree_nodes'], 'store': ['Writer::need_build'], 'reader_open': ['Reader::open'], 'inv_lib': None},
        'kani': {'quick': [('distance_side', ['metric_names_are_reference_strings'])]},
        'trusted': ['two uninterpreted metrics Dist / NDist stand for every ordered pair of the 7 metrics; the TypeId test is an uninterpreted boolean',
                    'requires items_are_leaves (an Item key always holds a leaf) — representation invariant of the item store'],
        'not_decided': ['after building, the index is valid and searchable under the new metric: lemma_inv_no_forest (unit inv_lib) shows that the post-state of prepare_changing_distance satisfies the precondition index_inv of Writer::build on its no-metadata branch; the build itself is C01, the search C02',
                        'vectors "as representable under the new metric": the value is ND::enc(truncate(D::dec(old), dims)); what enc/dec do per codec is C05/C12'],
    },
    'C19': {
        'verus': {'store': KEYS + ['Writer::add_item', 'Writer::append_item', 'Writer::del_item'],
                  'reader_open': KEYS + ['QueryBuilder::by_vector', 'Reader::dimensions']},
        'kani': {'quick': [('key_layout', ['key_byte_order_is_tuple_order'])]},
        'not_decided': [],
    },
}
