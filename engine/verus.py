import shutil
"""Verus back end: generate one single-file crate per unit from the snapshot, run verus, classify."""
import json
import os
import re
import subprocess
import time

from . import extract

HERE = os.path.dirname(os.path.dirname(os.path.abspath(__file__)))
UNITS = os.path.join(HERE, 'units')

VC_MESSAGES = (
    'postcondition not satisfied', 'precondition not satisfied', 'assertion failed',
    'possible arithmetic underflow/overflow', 'possible division by zero', 'possible bit shift underflow/overflow',
    'loop invariant not satisfied', 'invariant not satisfied at end of loop body', 'invariant not satisfied before loop',
    'could not prove termination', 'decreases not satisfied', 'recommendation not met',
    'unable to prove assertion', 'assert_by', 'loop ensures not satisfied', 'possible index out of bounds',
    'value may be out of range', 'postcondition of loop not satisfied', 'unable to prove post-condition of closure',
    'unable to prove pre-condition of closure', 'arithmetic underflow/overflow',
)


def impl_context(template_text_before):
    """Name of the impl block the next extracted fn lands in (None for free functions)."""
    cur = None
    for ln in template_text_before.split('\n'):
        m = re.match(r'^\s{0,4}(?:pub\s+)?impl(?:<[^>]*>)?\s+(?:[\w:<>, ]+\s+for\s+)?([A-Za-z_]\w*)', ln)
        if m and not ln.startswith('        '):
            cur = m.group(1)
        elif re.match(r'^\}', ln):
            cur = None
    return cur


def generate(unit, snapshot, out_path, canary=False, force_stub=None):
    tpl = os.path.join(UNITS, unit + '.rs')
    text, metas = extract.build_unit(tpl, UNITS, snapshot, canary=canary, force_stub=force_stub)
    lines = text.split('\n')
    skipped = [m for m in metas if m.get('skipped')]
    metas[:] = [m for m in metas if not m.get('skipped')]   # (in place: keeps metas.lemma_canaries)
    generate.skipped = [m['fn'] for m in skipped]
    for m in metas:
        m['qual'] = (m['impl_ctx'] + '::' if m['impl_ctx'] else '') + m['fn']
    with open(out_path, 'w') as f:
        f.write(text)
    return text, metas


def _fn_of_line(metas, line):
    for m in metas:
        if m['gen_lines'][0] <= line <= m['gen_lines'][1]:
            return m
    return None


def run(unit, snapshot, outdir, canary=False, rlimit=None, seed=None, timeout_s=900, force_stub=None):
    out_path = os.path.join(outdir, unit + ('_canary' if canary else '') + ('_seed%d' % seed if seed else '') + '.rs')
    t0 = time.time()
    text, metas = generate(unit, snapshot, out_path, canary=canary, force_stub=force_stub)
    cmd = ['verus', out_path, '--output-json', '--time', '--multiple-errors', '50', '--error-format=json',
           '--triggers-mode', 'silent']
    if rlimit:
        cmd += ['--rlimit', str(rlimit)]
    if seed:
        cmd += ['--smt-option', 'smt.random_seed=%d' % seed]
    try:
        p = subprocess.run(cmd, capture_output=True, text=True, timeout=timeout_s, cwd=outdir)
        stdout, stderr, rc = p.stdout, p.stderr, p.returncode
    except subprocess.TimeoutExpired:
        return {'unit': unit, 'canary': canary, 'timeout': True, 'metas': metas, 'errors': [], 'functions': {},
                'compile_error': False, 'wall_s': round(time.time() - t0, 1), 'cmd': ' '.join(cmd), 'gen_path': out_path}
    res = {'unit': unit, 'canary': canary, 'metas': metas, 'lemma_canaries': list(getattr(metas, 'lemma_canaries', [])), 'cmd': ' '.join(cmd), 'gen_path': out_path, 'rc': rc,
           'timeout': False, 'functions': {}, 'errors': [], 'other_errors': []}
    js = None
    try:
        js = json.loads(stdout[stdout.index('{'):])
    except Exception:
        pass
    if js:
        vr = js.get('verification-results', {})
        res['verified'] = vr.get('verified')
        res['n_errors'] = vr.get('errors')
        res['vir_error'] = vr.get('encountered-vir-error')
        tm = js.get('times-ms', {})
        res['smt_ms'] = tm.get('smt', {}).get('total')
        res['total_ms'] = tm.get('total')
        res['verus_version'] = js.get('verus', {}).get('version')
        for mod in tm.get('smt', {}).get('smt-run-module-times', []):
            for fb in mod.get('function-breakdown', []):
                name = fb['function'].split('::', 1)[1] if '::' in fb['function'] else fb['function']
                res['functions'][name] = {'success': fb.get('success'), 'time_ms': fb.get('time'), 'mode': fb.get('mode:'), 'rlimit': fb.get('rlimit')}
    lines = text.split('\n')
    for ln in stderr.split('\n'):
        ln = ln.strip()
        if not ln.startswith('{'):
            continue
        try:
            d = json.loads(ln)
        except Exception:
            continue
        if d.get('level') != 'error':
            continue
        msg = d.get('message', '')
        if msg.startswith('aborting due to'):
            continue
        spans = d.get('spans', [])
        prim = [s for s in spans if s.get('is_primary')] or spans
        here = [s for s in spans if s.get('file_name', '').endswith(os.path.basename(out_path))]
        gl = prim[0]['line_start'] if prim else None
        meta = None
        for s in here:
            meta = _fn_of_line(metas, s['line_start']) or meta
        label = ''
        if prim and prim[0].get('text'):
            label = re.sub(r'\s+', ' ', ' '.join(t['text'].strip() for t in prim[0]['text'][:3]))[:240]
        exit_line = None
        for s in spans:
            if s.get('label') and ('at this exit' in s['label'] or 'at the end of the function body' in s['label'] or 'at this call' in s['label']):
                exit_line = s['line_start']
        src_line = None
        for cand in ([gl] if gl else []) + ([exit_line] if exit_line else []):
            if meta and cand in meta['line_map']:
                src_line = meta['line_map'][cand]
        is_vc = any(msg.startswith(k) or k in msg for k in VC_MESSAGES)
        is_rlimit = 'rlimit' in msg.lower() or 'resource limit' in msg.lower()
        e = {'message': msg, 'gen_line': gl, 'fn': meta['qual'] if meta else None, 'file': meta['file'] if meta else None,
             'src_line': src_line, 'exit_gen_line': exit_line,
             'exit_text': lines[exit_line - 1].strip()[:200] if exit_line and exit_line <= len(lines) else None,
             'label': label, 'rendered': (d.get('rendered') or '')[:3000]}
        if is_rlimit:
            e['kind'] = 'rlimit'
            res['errors'].append(e)
        elif is_vc:
            e['kind'] = 'vc'
            res['errors'].append(e)
        else:
            e['kind'] = 'other'
            res['other_errors'].append(e)
    res['compile_error'] = bool(res['other_errors']) or js is None or (res.get('verified') is None)
    if res['compile_error'] and res['other_errors'] and len(force_stub or {}) < 4:
        # function-local fallback: when everything the compiler / Verus front end rejects lies inside extracted function bodies, those
        # functions are kept as contract-only stubs (reported UNDECIDED by the check) and the rest of the unit is verified
        by_qual = {m['qual']: m for m in metas}
        bad = {}
        for e in res['other_errors']:
            m = by_qual.get(e['fn']) if e['fn'] else None
            if m is None or m.get('stub') or m.get('item') or m.get('fallback'):
                bad = None
                break
            bad.setdefault(e['fn'], 'verus rejected the extracted body: ' + e['message'][:160])
        if bad:
            fs = dict(force_stub or {}); fs.update(bad)
            return run(unit, snapshot, outdir, canary=canary, rlimit=rlimit, seed=seed, timeout_s=timeout_s, force_stub=fs)
    if js is None:
        res['stderr_tail'] = stderr[-3000:]
    res['wall_s'] = round(time.time() - t0, 1)
    return res


def obligation_name(unit, e):
    kind = e['message'].split(':')[0]
    lab = e['label']
    return '%s::%s::%s[%s]' % (unit, e['fn'] or '<prelude-or-lemma>', kind, lab)
