"""Warm caches: compile the crate's dependencies for Kani once, run Verus once."""
import os, subprocess, tempfile, shutil
from . import kani, verus
def main():
    d = tempfile.mkdtemp(prefix='verif-warm-')
    try:
        snap = os.path.join(d, 's')
        subprocess.run(['rsync', '-a', '--exclude', '/target', '--exclude', '.git', '/repo/', snap + '/'], check=True)
        try:
            r = verus.run('store', snap, d)
            print('verus warm:', r.get('verified'), 'verified')
        except Exception as e:
            print('verus warm failed', e)
        try:
            res, meta = kani.run(snap, ['key_layout'], ['key_constructors'], 4, 3000)
            print('kani warm:', {k: v.get('status') for k, v in res.items()}, meta['wall_s'])
        except Exception as e:
            print('kani warm failed', e)
    finally:
        shutil.rmtree(d, ignore_errors=True)
main()
