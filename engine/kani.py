"""Kani back end: harness modules from /verif/kani are appended to a scratch copy of the real crate,
`cargo kani` is run on it, and refuted assertions are replayed natively (cargo test) with a small
`kani` shim that feeds the counterexample's concrete values to the same harness body.
"""
import fcntl
import os
import re
import shutil
import subprocess
import time

HERE = os.path.dirname(os.path.dirname(os.path.abspath(__file__)))
KANI_DIR = os.path.join(HERE, 'kani')
CACHE = os.path.join(HERE, '.cache')
TARGET = os.path.join(CACHE, 'kani-target')
REPLAY_TARGET = os.path.join(CACHE, 'replay-target')
WORK_ROOT = '/var/tmp/verif-arroy-kani'


class KaniError(Exception):
    pass


def harness_files():
    res = {}
    for f in sorted(os.listdir(KANI_DIR)):
        if f.endswith('.rs'):
            txt = open(os.path.join(KANI_DIR, f)).read()
            m = re.search(r'(?m)^//@target (\S+)', txt)
            names = re.findall(r'#\[kani::proof(?:_for_contract\([^)]*\))?\](?:\s*#\[[^\]]*\])*\s*(?:pub )?fn (\w+)', txt)
            res[f[:-3]] = {'target': m.group(1), 'text': txt, 'harnesses': names}
    return res


def _module_text(txt):
    i = txt.index('#[cfg(kani)]')
    return txt[i:]


def _inject(work, files, which):
    """Append the harness modules `which` (file stems) to their target files; apply //@contract lines."""
    for stem in which:
        hf = files[stem]
        tgt = os.path.join(work, hf['target'])
        if not os.path.exists(tgt):
            raise KaniError('lost anchor: %s (target of %s)' % (hf['target'], stem))
        src = open(tgt).read()
        for m in re.finditer(r'(?m)^//@contract (.+?) \|\| (.+)$', hf['text']):
            anchor, attr = m.group(1), m.group(2)
            if src.count(anchor) != 1:
                raise KaniError('lost anchor for contract in %s: %r occurs %d times' % (hf['target'], anchor, src.count(anchor)))
            pos = src.index(anchor)
            ls = src.rfind('\n', 0, pos) + 1
            indent = re.match(r'\s*', src[ls:]).group(0)
            src = src[:ls] + indent + attr + '\n' + src[ls:]
        src += '\n' + _module_text(hf['text'])
        open(tgt, 'w').write(src)


SHIM = r'''
    #[allow(dead_code, unused)]
    pub mod kani {
        use std::cell::RefCell;
        thread_local! { static VALS: RefCell<(Vec<Vec<u8>>, usize)> = RefCell::new((Vec::new(), 0)); }
        pub struct AssumeFailed;
        pub fn set(v: Vec<Vec<u8>>) { VALS.with(|c| *c.borrow_mut() = (v, 0)); }
        fn next_bytes(n: usize) -> Vec<u8> {
            VALS.with(|c| { let mut c = c.borrow_mut(); let i = c.1; c.1 += 1;
                let mut v = c.0.get(i).cloned().unwrap_or_default(); v.resize(n, 0); v })
        }
        pub trait Arb: Sized { fn arb() -> Self; }
        macro_rules! prim { ($($t:ty),*) => { $(impl Arb for $t { fn arb() -> Self { let b = next_bytes(core::mem::size_of::<$t>()); <$t>::from_le_bytes(b.try_into().unwrap()) } })* } }
        prim!(u8, u16, u32, u64, u128, usize, i8, i16, i32, i64, isize, f32, f64);
        impl Arb for bool { fn arb() -> Self { next_bytes(1)[0] & 1 == 1 } }
        impl<T: Arb, const N: usize> Arb for [T; N] { fn arb() -> Self { core::array::from_fn(|_| T::arb()) } }
        impl<A: Arb, B: Arb> Arb for (A, B) { fn arb() -> Self { let a = A::arb(); let b = B::arb(); (a, b) } }
        pub fn any<T: Arb>() -> T { T::arb() }
        pub fn assume(c: bool) { if !c { std::panic::panic_any(AssumeFailed); } }
    }
'''


def _replay_module(hf, stem, harness, vals):
    body = _module_text(hf['text'])
    body = body.replace('#[cfg(kani)]', '#[cfg(test)]', 1)
    body = re.sub(r'mod verif_kani_\w+', 'mod verif_replay_%s' % stem, body, count=1)
    body = re.sub(r'(?m)^\s*#\[kani::[^\n]*\]\s*\n', '', body)
    body = re.sub(r'(?m)^\s*impl kani::Arbitrary for [^\n]*\{[^\n]*\}\s*\n', '', body)
    body = re.sub(r'kani::cover!\([^;]*\);', '', body)
    # put shim + test right after the opening brace of the module
    ob = body.index('{')
    test = '''
    #[test]
    fn verif_replay_counterexample() {
        kani::set(vec![%s]);
        let r = std::panic::catch_unwind(|| { %s(); });
        match r {
            Ok(()) => println!("VERIF-REPLAY: harness completed without failure"),
            Err(e) => {
                if e.downcast_ref::<kani::AssumeFailed>().is_some() { println!("VERIF-REPLAY: assumption not satisfied by the replayed values"); }
                else {
                    let msg = e.downcast_ref::<String>().cloned().or_else(|| e.downcast_ref::<&str>().map(|s| s.to_string())).unwrap_or_default();
                    println!("VERIF-REPLAY: FAILED-AS-PREDICTED {}", msg);
                }
            }
        }
    }
''' % (', '.join('vec![%s]' % ', '.join(str(b) for b in v) for v in vals), harness)
    return body[:ob + 1] + SHIM + test + body[ob + 1:]


def _parse(out, names):
    out = re.sub(r'(?m)^Thread (\d+):\s*$', r'Thread \1: ', out)
    res = {}
    # split into thread blocks if -j was used
    cur = {}
    chunks = re.split(r'(?m)^Thread (\d+): ?', out)
    blocks = []
    if len(chunks) > 1:
        for k in range(1, len(chunks), 2):
            blocks.append((chunks[k], chunks[k + 1]))
    else:
        blocks = [('0', out)]
    for tid, txt in blocks:
        for piece in re.split(r'(?=Checking harness )', txt):
            m = re.match(r'Checking harness (\S+?)\.\.\.', piece)
            if m:
                cur[tid] = m.group(1)
            h = cur.get(tid)
            if not h:
                continue
            short = h.split('::')[-1]
            r = res.setdefault(short, {'full': h, 'raw': ''})
            r['raw'] += piece
    for short, r in res.items():
        raw = r['raw']
        m = re.search(r'\*\* (\d+) of (\d+) failed', raw)
        if m:
            r['failed'], r['checks'] = int(m.group(1)), int(m.group(2))
        m = re.search(r'\*\* (\d+) of (\d+) cover properties satisfied', raw)
        if m:
            r['cover_sat'], r['covers'] = int(m.group(1)), int(m.group(2))
        m = re.search(r'VERIFICATION:- (\w+)', raw)
        r['status'] = m.group(1) if m else 'UNKNOWN'
        m = re.search(r'Verification Time: ([0-9.]+)s', raw)
        r['time_s'] = float(m.group(1)) if m else None
        r['failed_checks'] = re.findall(r'Failed Checks: ([^\n]*)\n\s*File: "([^"]+)", line (\d+)', raw)
        r['stubs'] = re.findall(r'- Stub: ([^\n]*)', raw)
        r['unsupported'] = 'unsupported' in raw.lower() and 'Failed Checks' in raw and bool(re.search(r'Failed Checks: [^\n]*(not currently supported|unsupported)', raw))
        r['unwinding'] = bool(re.search(r'Failed Checks: unwinding assertion', raw))
    # concrete playback tests
    for m in re.finditer(r'Concrete playback unit test for `([^`]+)`:\s*```(.*?)```', out, re.S):
        short = m.group(1).split('::')[-1]
        body = m.group(2)
        if 'Check for `cover`' in body:
            continue
        vals = [[int(x) for x in re.findall(r'\d+', v)] for v in re.findall(r'vec!\[([^\]]*)\],', body.split('vec![', 1)[1])]
        desc = re.search(r'Check for `\w+`: "([^"]*)"', body)
        res.setdefault(short, {}).setdefault('playback', []).append({'check': desc.group(1) if desc else '', 'vals': vals, 'test': body.strip()})
    return res


def run(snapshot, stems, harnesses, jobs=8, timeout_s=1500, log=None):
    """Run the named harnesses (from harness files `stems`) on a scratch copy of `snapshot`.
    Returns (results dict, meta dict)."""
    files = harness_files()
    os.makedirs(CACHE, exist_ok=True)
    os.makedirs(WORK_ROOT, exist_ok=True)
    lock = open(os.path.join(WORK_ROOT, 'lock'), 'w')
    fcntl.flock(lock, fcntl.LOCK_EX)
    work = os.path.join(WORK_ROOT, 'work')
    t0 = time.time()
    try:
        shutil.rmtree(work, ignore_errors=True)
        subprocess.run(['rsync', '-a', '--exclude', 'target', '--exclude', '.git', snapshot.rstrip('/') + '/', work + '/'], check=True)
        _inject(work, files, stems)
        base = ['cargo', 'kani', '-Z', 'function-contracts', '-Z', 'stubbing', '--output-format', 'terse']
        cmd = base + ['-j', str(jobs)]
        for h in harnesses:
            cmd += ['--harness', h]
        env = dict(os.environ, CARGO_NET_OFFLINE='true', CARGO_TARGET_DIR=TARGET)

        def call(cmd, tmo):
            try:
                p = subprocess.run(cmd, cwd=work, env=env, capture_output=True, text=True, timeout=tmo)
                return p.stdout + '\n' + p.stderr, p.returncode
            except subprocess.TimeoutExpired as e:
                o = e.stdout.decode(errors='replace') if isinstance(e.stdout, bytes) else (e.stdout or '')
                subprocess.run(['pkill', '-9', '-x', 'cbmc'], capture_output=True)
                return o + '\nVERIF: cargo kani timed out after %ds' % tmo, -9

        out, rc = call(cmd, timeout_s)
        compile_error = bool(re.search(r'(?m)^error(\[E\d+\])?: ', out)) and 'Checking harness' not in out
        res = _parse(out, harnesses)
        # a refuted harness is run again alone to obtain the counterexample (concrete playback excludes -j)
        n_cex = 0
        for short, r in sorted(res.items(), key=lambda kv: kv[1].get('time_s') or 1e9):
            if r.get('status') == 'FAILED' and not r.get('unwinding') and n_cex < 1:
                n_cex += 1
                o2, _ = call(base + ['-Z', 'concrete-playback', '--concrete-playback=print', '--harness', short], 600)
                out += '\n==== counterexample run for %s ====\n' % short + o2
                r2 = _parse(o2, [short]).get(short, {})
                if r2.get('playback'):
                    r['playback'] = r2['playback']
        if log:
            open(log, 'w').write(out)
        meta = {'cmd': ' '.join(cmd), 'rc': rc, 'wall_s': round(time.time() - t0, 1), 'compile_error': compile_error,
                'tail': out[-3000:] if (compile_error or rc == -9) else ''}
        # replay refuted harnesses natively
        for short, r in res.items():
            if r.get('status') == 'FAILED' and r.get('playback'):
                stem = next(s for s in stems if short in files[s]['harnesses'])
                r['replay'] = _replay(snapshot, files, stem, short, r['playback'][0]['vals'])
        return res, meta
    finally:
        shutil.rmtree(work, ignore_errors=True)
        fcntl.flock(lock, fcntl.LOCK_UN)
        lock.close()


def _replay(snapshot, files, stem, harness, vals):
    work = os.path.join(WORK_ROOT, 'replay')
    shutil.rmtree(work, ignore_errors=True)
    try:
        subprocess.run(['rsync', '-a', '--exclude', 'target', '--exclude', '.git', snapshot.rstrip('/') + '/', work + '/'], check=True)
        hf = files[stem]
        tgt = os.path.join(work, hf['target'])
        mod = _replay_module(hf, stem, harness, vals)
        open(tgt, 'a').write('\n' + mod)
        env = dict(os.environ, CARGO_NET_OFFLINE='true', CARGO_TARGET_DIR=REPLAY_TARGET)
        p = subprocess.run(['cargo', 'test', '--offline', '--lib', 'verif_replay_counterexample', '--', '--nocapture', '--test-threads', '1'],
                           cwd=work, env=env, capture_output=True, text=True, timeout=900)
        out = p.stdout + p.stderr
        m = re.search(r'VERIF-REPLAY: ([^\n]*)', out)
        return {'ran': bool(m), 'verdict': m.group(1) if m else 'replay did not run', 'confirmed': bool(m and m.group(1).startswith('FAILED-AS-PREDICTED')),
                'values': vals, 'test_module': mod, 'output_tail': out[-1500:]}
    except Exception as e:  # noqa
        return {'ran': False, 'verdict': 'replay infrastructure error: %r' % e, 'confirmed': False, 'values': vals}
    finally:
        shutil.rmtree(work, ignore_errors=True)
