"""Mechanical extraction of functions from /repo sources into a single-file Verus crate.

A *unit template* (units/<name>.rs) is ordinary Rust/Verus text with directive lines starting with `//@`:

  //@include <path relative to /verif/units>          textual include (prelude, spec library)
  //@extract <file> | <impl header or -> | <fn name>   start of an extraction block
  //@rename <new fn name>                              (optional) emit the function under another name
  //@attr <attribute text>                             attribute put in front of the emitted function
  //@spec                                              following plain lines: requires/ensures/decreases
  //@loop <n>                                          following plain lines: invariant/decreases of the n-th loop
  //@subst [count=N]                                   following lines: <<< old === new >>>  (exact text, site specific)
  //@hint after|before <<<anchor>>>                    following plain lines: proof text inserted at the anchor
  //@noglobal <rule> ...                               do not apply the named global rules to this function
  //@end                                               end of the extraction block

The function body is taken from the snapshot of /repo at run time. Only the rewrites listed in RULES
(global, regex based) and the unit's own `subst` blocks change it. Everything fails closed:
a missing anchor, a subst whose old text does not occur exactly `count` times, or a missing loop
raises ExtractError and the unit is UNDECIDED.
"""
import difflib
import hashlib
import os
import re

from . import rustlex


class ExtractError(Exception):
    pass


# ---------------------------------------------------------------------------------------------
# Global rewrite rules (DESIGN.md §2.2). Each: (id, description, regex, replacement)
# Applied in order to every extracted function text. They are purely syntactic.
# ---------------------------------------------------------------------------------------------
def _codec_suffix(m):
    inner = re.sub(r'[^A-Za-z0-9]+', '_', m.group('ty')).strip('_')
    return '.%s__%s(' % (m.group('meth'), inner)


RULES = [
    # R8: attributes
    ('R8a', 'drop #[allow(..)] / #[track_caller] / #[inline..] / #[target_feature(..)] attributes',
     re.compile(r'(?m)^[ \t]*#\[(allow|track_caller|inline|must_use|doc|target_feature)[^\]]*\]\s*\n'), ''),
    ('R8c', '`unsafe fn` -> `fn` (the obligations of the unsafe operations inside — in-bounds pointer arithmetic and reads — are stated by the stand-ins)',
     re.compile(r'\bunsafe fn\b'), 'fn'),
    # R5: logging and progress callback statements
    ('R5a', 'drop tracing::debug!(..); statements',
     re.compile(r'(?m)^[ \t]*tracing::(debug|info|trace|warn)!\((?:[^;]|\n)*?\);\s*\n'), ''),
    ('R5b', 'drop (options.progress)(..); statements',
     re.compile(r'(?m)^[ \t]*\(options\.progress\)\((?:[^;]|\n)*?\);\s*\n'), ''),
    ('R5c', 'drop debug_assert!(..); statements (compiled out in release; not relied upon)',
     re.compile(r'(?m)^[ \t]*debug_assert(?:_eq)?!\((?:[^;]|\n)*?\);\s*\n'), ''),
    # R1: metric / codec generics
    ('R1a', 'impl<D: Distance> X<D> -> impl X', re.compile(r'impl<(?:\'\w+,\s*)?D: Distance>'), 'impl'),
    ('R1k', 'generic RNG parameter: R: Rng + SeedableRng -> R: Rng', re.compile(r'\bR: Rng \+ SeedableRng\b'), 'R: Rng'),
    ('R1b', 'Type<D> / Type<\'_, D> / Type<NodeCodec<D>> -> Type',
     re.compile(r'\b(Writer|Reader|Database|Node|Leaf|SplitPlaneNormal|FrozzenReader|ImmutableLeafs|ImmutableTrees|ImmutableSubsetLeafs|TmpNodes|QueryBuilder|ItemIter)<(?:\'\w+,\s*)?(?:D|ND|NodeCodec<D>)>'), r'\1'),
    ('R1l', '(D|ND)::VectorCodec -> <(D|ND) as DistanceT>::VectorCodec (associated type of the uninterpreted metric; the unit defines the aliases D / ND)',
     re.compile(r'\b(ND|D)::VectorCodec\b'), r'<\1 as DistanceT>::VectorCodec'),
    ('R1c', 'D::f(..) -> Dist::f(..)', re.compile(r'\bD::(?=[a-zA-Z_])'), 'Dist::'),
    ('R1j', 'Dist::DEFAULT_OVERSAMPLING -> Dist::default_oversampling_() (associated const of the uninterpreted metric)',
     re.compile(r'\bDist::DEFAULT_OVERSAMPLING\b'), 'Dist::default_oversampling_()'),
    ('R1i', 'ND::f(..) -> NDist::f(..) (second uninterpreted metric of prepare_changing_distance)', re.compile(r'\bND::(?=[a-zA-Z_])'), 'NDist::'),
    ('R1d', 'drop lifetime-only generics on stand-in types (Reader<\'t> etc.)',
     re.compile(r"\b(RoTxn|RwTxn|ItemIds|Descendants|Metadata)<'\w+>"), r'\1'),
    ('R1e', 'erase lifetimes (checked by rustc on the real code): &\'a T -> &T, fn f<\'a, ..> -> fn f<..>',
     re.compile(r"&'\w+ "), '&'),
    ('R1f', 'erase lifetime parameters of fn generics', re.compile(r"(fn \w+)<'\w+(?:,\s*'\w+)*(?:,\s*)?([^>]*)>"), lambda m: m.group(1) + ('<' + m.group(2) + '>' if m.group(2).strip() else '')),
    ('R1h', 'drop the metric parameter of fn generics: fn f<D: Distance, ..> -> fn f<..>',
     re.compile(r"(fn \w+)<(?:D|ND): Distance(?:,\s*)?([^>]*)>"), lambda m: m.group(1) + ('<' + m.group(2) + '>' if m.group(2).strip() else '')),
    ('R1g', 'Type<\'a> -> Type for stand-in types', re.compile(r"\b(Reader|QueryBuilder|ItemIter|Leaf|Node|RoTxn|RwTxn)<'\w+>"), r'\1'),
    # R7 (generic one-liners)
    ('R7a', 'X.try_into().unwrap() -> X.try_into_unwrap_()  (prelude trait with the overflow precondition)',
     re.compile(r'\.try_into\(\)\.unwrap\(\)'), '.try_into_unwrap_()'),
    ('R7c', 'RoaringBitmap::from_sorted_iter(Some(x)).unwrap() / RoaringBitmap::from_iter([x]) -> RoaringBitmap::singleton_(x)',
     re.compile(r'RoaringBitmap::from_sorted_iter\(Some\(([\w.]+)\)\)\.unwrap\(\)|RoaringBitmap::from_iter\(\[([\w.]+)\]\)'),
     lambda m: 'RoaringBitmap::singleton_(%s)' % (m.group(1) or m.group(2))),
    ('R7d', 'RoaringBitmap::from_sorted_iter(v).unwrap() -> RoaringBitmap::from_sorted_vec_unwrap_(v) (requires v strictly increasing)',
     re.compile(r'RoaringBitmap::from_sorted_iter\((\w+)\)\.unwrap\(\)'), r'RoaringBitmap::from_sorted_vec_unwrap_(\1)'),
    ('R7h', '`X OP= EXPR as QuantizedWord;` -> `X OP= bool_word_(EXPR);` (Verus has no bool-to-integer cast; bool_word_ is the verified function `if b { 1 } else { 0 }`, Rust\'s definition of the cast)',
     re.compile(r'(\w+ (?:\+|\||\^)= )([^;\n]+?) as QuantizedWord;'), r'\1bool_word_(\2);'),
    ('R6e', '`for _ in A..B {` -> `let mut cnt__ = A; while cnt__ < B { cnt__ += 1;` (counting loop without a loop variable; gives the invariant a name for the progress)',
     re.compile(r'for _ in (\w+)\.\.(\w+) \{'), r'let mut cnt__ = \1; while cnt__ < \2 { cnt__ += 1;'),
    ('R6f', '`for x in A..=B {` -> `let mut cnti__: u64 = A as u64; while cnti__ <= B as u64 { let x = cnti__ as _; cnti__ += 1;` (inclusive counting loop, counter widened so that the last value does not overflow)',
     re.compile(r'for (\w+) in (\w+)\.\.=([\w:]+) \{'), r'let mut cnti__: u64 = \2 as u64; while cnti__ <= \3 as u64 { let \1 = cnti__ as _; cnti__ += 1;'),
    ('R6g', '`for x in A..B {` -> `let mut cnti__: u64 = A as u64; while cnti__ < B as u64 { let x = cnti__ as _; cnti__ += 1;` (exclusive counting loop, same counter name as R6f)',
     re.compile(r'for ([a-z]\w*) in (\w+)\.\.([\w:]+(?: [-+*/%] \w+)?) \{'), r'let mut cnti__: u64 = \2 as u64; while cnti__ < (\3) as u64 { let \1 = cnti__ as _; cnti__ += 1;'),
    ('R7b', 'X.map(Some) -> X.map_some_()', re.compile(r'\.map\(Some\)'), '.map_some_()'),
    # (R2 retired: heed's remap_* type-state is modelled natively by DatabaseG<DC: DataCodec>)
    ('R2', 'NodeCodec<D> -> NodeCodec (codec marker of the uninterpreted metric)', re.compile(r'\bNodeCodec<(?:D|ND)>'), 'NodeCodec'),
    # R3: Cow is value-transparent
    ('R3a', 'Cow::Owned(e) -> e', re.compile(r'\bCow::Owned\('), 'cow_owned('),
    ('R3b', 'Cow::Borrowed(e) -> cow_borrowed(e) (= e.clone())', re.compile(r'\bCow::Borrowed\('), 'cow_borrowed('),
    ('R3c', '.into_owned() dropped', re.compile(r'\.into_owned\(\)'), ''),
    # R4: operator sugar on bitmaps
    ('R4a', 'a -= b; -> a.sub_assign_(b);', re.compile(r'(?m)^([ \t]*)(\w+) -= (&?[A-Za-z_]\w*);'), r'\1\2.sub_assign_(\3);'),
    ('R4b', 'a |= &b; -> a.or_assign_(&b);  a |= b; -> a.or_assign_(&b); (the by-value operand is consumed: same resulting set)', re.compile(r'(?m)^([ \t]*)(\w+) \|= &?([A-Za-z_]\w*);'), r'\1\2.or_assign_(&\3);'),
    ('R4c', '&a | &b -> bitor_(&a, &b)', re.compile(r'&(\w+) \| &(\w+)'), r'bitor_(&\1, &\2)'),
    ('R4d', '&a & &b -> bitand_(&a, &b)', re.compile(r'&(\w+) & &(\w+)'), r'bitand_(&\1, &\2)'),
    ('R6i', '`return self.f(args);` -> `let ret__ = self.f(args); return ret__;` (definitional; gives the call a name)',
     re.compile(r'(?m)^([ \t]*)return (self\.\w+\([^;]*\));'), r'\1let ret__ = \2;\n\1return ret__;'),
    ('R5d', '(X.cancel)() -> X.cancel_poll_() (a direct poll of the cancellation callback: an arbitrary boolean)', re.compile(r'\((\w+)\.cancel\)\(\)'), r'\1.cancel_poll_()'),
    ('R7g', 'X.as_ref().map_or_else(Vec::new, |Y| Y.roots.iter().collect()) -> meta_roots_(&X) (the roots recorded in the metadata, or none)',
     re.compile(r'(\w+)\s*\.as_ref\(\)\s*\.map_or_else\(Vec::new, \|(\w+)\| \2\.roots\.iter\(\)\.collect\(\)\)'), r'meta_roots_(&\1)'),
    ('R7e', '(m as f64 * 2.0 / 3.0).floor() as usize -> two_thirds_(m) (floating point: an uninterpreted usize)',
     re.compile(r'\(\s*(\w+) as f64 \* 2\.0 / 3\.0\)\.floor\(\) as usize'), r'two_thirds_(\1)'),
    ('R12', 'ghost-state threading for the id generator: X.concurrent_node_ids.next() -> X.concurrent_node_ids.next_g_(tmp_nodes) (ids returned before are recorded in the TmpNodes in scope)',
     re.compile(r'(\.concurrent_node_ids)\s*\.next\(\)'), r'\1.next_g_(tmp_nodes)'),
    ('R12b', 'the same where no staging area is in scope: concurrent_node_ids.next() -> concurrent_node_ids.next_v_(wtxn) (the id is stated fresh for the CURRENT view of the transaction in scope)',
     re.compile(r'(?<![.\w])(concurrent_node_ids)\s*\.next\(\)'), r'\1.next_v_(wtxn)'),
    ('R14a', 'TmpNodes::new() -> TmpNodes::new_g_(wtxn): the staging area records (ghost) the view it was created under, so that ids it is handed later can be stated absent from it',
     re.compile(r'\bTmpNodes::new\(\)'), 'TmpNodes::new_g_(wtxn)'),
    ('R14b', 'TmpNodes::new_in(p) -> TmpNodes::new_in_g_(p, wtxn)',
     re.compile(r'\bTmpNodes::new_in\((\w+)\)'), r'TmpNodes::new_in_g_(\1, wtxn)'),
    # R10: one stand-in error type: conversions between error types are identities
    ('R10a', 'Err(e.into()) -> Err(e)', re.compile(r'\bErr\((\w+)\.into\(\)\)'), r'Err(\1)'),
    ('R10b', '.map_err(Into::into) / .map_err(Error::from) dropped', re.compile(r'\s*\.map_err\((?:Into::into|Error::from|heed::Error::from)\)'), ''),
    ('R10c', 'heed::Error::Mdb(x) -> Error::Heed(HeedError::Mdb(x))', re.compile(r'\bheed::Error::(Mdb|Encoding|Decoding)\(([^()]*)\)'), r'Error::Heed(HeedError::\1(\2))'),
    # R8: unsafe marker around cursor mutation (safety argument not verified)
    ('R8b', 'unsafe { e } -> { e }', re.compile(r'\bunsafe\s*\{'), '{'),
]


R9_DESC = ('R9', 'mutable cursors: the &mut RwTxn borrowed by `prefix_iter_mut(txn, ..)` is passed explicitly at every '
           'cursor call (cursor.next() -> cursor.next(txn), del_current, put_current*)')
R6A = ('R6a', 'X.next(..).transpose() -> transpose_(X.next(..))  (Option<Result> -> Result<Option>)',
       re.compile(r'(\b\w+)\.next\(([^()]*)\)\.transpose\(\)'), r'transpose_(\1.next(\2))')


def rule_r9(text):
    n = 0
    for m in list(re.finditer(r'let\s+mut\s+(\w+)\s*=\s*[^;]*?(?:prefix_iter_mut|rev_prefix_iter_mut|rev_range_mut|range_mut|iter_mut)\(\s*(\w+)\s*[,)]', text, re.S)):
        cur, txn = m.group(1), m.group(2)
        text, a = re.subn(r'\b%s\.next\(\)' % cur, '%s.next(%s)' % (cur, txn), text)
        text, b = re.subn(r'\b%s\.del_current\(\)' % cur, '%s.del_current(%s)' % (cur, txn), text)
        text, c = re.subn(r'\b%s\s*\.\s*(put_current\w*(?:::<[^()]*?>)?)\(\s*' % cur, r'%s.\1(%s, ' % (cur, txn), text)
        n += a + b + c
    return text, n


R6B_DESC = ('R6b', 'for PAT in EXPR { .. } over a non-range iterator -> let mut iter__N = EXPR; while let Some(PAT) = iter__N.next() { .. } '
            '(Rust\'s definition of `for`; integer ranges `a..b` are left to Verus); '
            '`for PAT in vec.iter()` for a Vec named by //@veciter -> index loop `let PAT = &vec[idx__N]` (R6h)')


def rule_r6b(text, veciter=(), iteridents=()):
    n = 0
    out = text
    while True:
        m2 = rustlex.mask(out)
        found = None
        for m in re.finditer(r'\bfor\b', m2):
            after = m2[m.end():m.end() + 2]
            if after.lstrip().startswith('<'):
                continue
            try:
                ob = rustlex.next_open_brace(m2, m.end())
            except ValueError:
                continue
            header = out[m.end():ob]
            mi = re.search(r'\sin\s', header)
            if not mi:
                continue
            pat, expr = header[:mi.start()].strip(), header[mi.end():].strip()
            if re.match(r'^[\w.()]*\s*\.\.', expr) or re.search(r'^\(?\s*\w+\s*\.\.', expr):
                continue  # integer range
            if expr.startswith('iter__') or re.match(r'^&(mut )?\w+$', expr):
                continue  # a borrowed plain collection: left to Verus
            mv = re.match(r'^(\w+)\.iter\(\)$', expr)
            if mv and mv.group(1) in veciter:
                # R6h: `for PAT in vec.iter()` -> index loop with `let PAT = &vec[idx];`
                ls = out.rfind('\n', 0, m.start()) + 1
                indent = re.match(r'[ \t]*', out[ls:]).group(0)
                v = mv.group(1)
                new = ('let mut idx__%d: usize = 0;\n%swhile idx__%d < %s.len() ' % (n, indent, n, v))
                body_ins = '\n%s    let %s = &%s[idx__%d];\n%s    idx__%d += 1;' % (indent, pat, v, n, indent, n)
                out = out[:m.start()] + new + '{' + body_ins + out[ob + 1:]
                n += 1
                found = 'restart'
                break
            if re.match(r'^\w+$', expr) and expr not in iteridents:
                # `for x in coll` (Vec<u32> by value or &RoaringBitmap: ascending ids) -> index loop over the prelude trait IdxIter
                ls = out.rfind('\n', 0, m.start()) + 1
                indent = re.match(r'[ \t]*', out[ls:]).group(0)
                new = ('let mut idx__%d: usize = 0;\n%swhile idx__%d < %s.count_() ' % (n, indent, n, expr))
                body_ins = '\n%s    let %s = %s.nth_(idx__%d);\n%s    idx__%d += 1;' % (indent, pat, expr, n, indent, n)
                out = out[:m.start()] + new + '{' + body_ins + out[ob + 1:]
                n += 1
                found = 'restart'
                break
            found = (m.start(), ob, pat, expr)
            break
        if not found:
            return out, n
        if found == 'restart':
            continue
        start, ob, pat, expr = found
        ls = out.rfind('\n', 0, start) + 1
        indent = re.match(r'[ \t]*', out[ls:]).group(0)
        new = 'let mut iter__%d = %s;\n%swhile let Some(%s) = iter__%d.next() ' % (n, expr, indent, pat, n)
        out = out[:start] + new + out[ob:]
        n += 1


R11_DESC = ('R11', 'rayon parallel map collected into a Result<Vec<_>>: `repeatn(S, N).zip(XS).map(|(a, b)| { BODY; Ok(E) }).collect()` -> the sequential loop over XS '
            'running the same closure body (`?` propagates the first error, `Ok(E)` pushes E). rayon\'s contract gives the same per-element results in index order; what the '
            'interleaving of the closures adds (the shared id generator) is kept as the explicit distinctness assumption of C13')


def rule_r11(text):
    n = 0
    while True:
        mk = rustlex.mask(text)
        m = re.search(r'\brepeatn\(', mk)
        if not m:
            return text, n
        op = m.end() - 1
        cp = rustlex.match_close(mk, op)
        args = text[op + 1:cp]
        seed = args[:args.rindex(',')].strip()
        mz = re.match(r'\s*\.zip\(', mk[cp + 1:])
        if not mz:
            raise ExtractError('R11: repeatn(..) without .zip(..)')
        zo = cp + 1 + mz.end() - 1
        zc = rustlex.match_close(mk, zo)
        xs = text[zo + 1:zc].strip()
        mm = re.match(r'\s*\.map\(\|\((\w+), (\w+)\)\| \{', mk[zc + 1:])
        if not mm:
            raise ExtractError('R11: unsupported closure shape after .zip(..)')
        bo = zc + 1 + mm.end() - 1
        bc = rustlex.match_close(mk, bo)
        body = text[bo + 1:bc]
        mc = re.match(r'\s*\)\s*\.collect\(\)', mk[bc + 1:])
        if not mc:
            raise ExtractError('R11: .map(..) not followed by .collect()')
        end = bc + 1 + mc.end()
        mb = re.search(r'\bOk\((.*)\)\s*$', body, re.S)
        mbk = rustlex.mask(body)
        # the closure's tail expression must be a top-level `Ok(..)`
        k = mbk.rstrip().rfind('Ok(')
        while k > 0 and mbk[:k].count('{') != mbk[:k].count('}'):
            k = mbk.rfind('Ok(', 0, k)
        if k < 0 or rustlex.match_close(mbk, k + 2) != len(mbk.rstrip()) - 1:
            raise ExtractError('R11: closure body does not end with Ok(..)')
        inner = body[k + 3:len(body.rstrip()) - 1]
        body2 = body[:k] + 'out__.push(' + inner + ');\n'
        a, b_ = mm.group(1), mm.group(2)
        ls = text.rfind('\n', 0, m.start()) + 1
        indent = re.match(r'[ \t]*', text[ls:]).group(0)
        mt = re.search(r'->\s*Result<Vec<(.+?)>>\s*\{', text[:m.start()], re.S)
        ety = (': Vec<%s>' % mt.group(1)) if mt else ''
        new = ('{\n%s    let seed__: u64 = %s;\n%s    let mut out__%s = Vec::new();\n%s    let mut par__: usize = 0;\n%s    while par__ < %s.len() {\n'
               '%s        let %s = seed__;\n%s        let %s = &%s[par__];\n%s        par__ += 1;%s%s    }\n%s    Ok(out__)\n%s}'
               % (indent, seed, indent, ety, indent, indent, xs, indent, a, indent, b_, xs, indent, body2, indent, indent, indent))
        text = text[:m.start()] + new + text[end:]
        n += 1


R6D_DESC = ('R6d', '`let [mut] X = loop { .. break E; .. };` -> `let X__brk; loop { .. { X__brk = E; break; } .. } let [mut] X = X__brk;` '
            '(Verus has no break-with-value; definitional)')


def rule_r6d(text):
    n = 0
    while True:
        m2 = rustlex.mask(text)
        m = re.search(r'let\s+(mut\s+)?(\w+)\s*=\s*loop\s*\{', m2)
        if not m:
            return text, n
        ob = m.end() - 1
        cb = rustlex.match_close(m2, ob)
        semi = m2.find(';', cb)
        name = m.group(2)
        body = text[ob + 1:cb]
        body2 = re.sub(r'\bbreak\s+([^;{}]+);', lambda b: '{ %s__brk = %s; break; }' % (name, b.group(1).strip()), body)
        ls = text.rfind('\n', 0, m.start()) + 1
        indent = re.match(r'[ \t]*', text[ls:]).group(0)
        new = 'let %s__brk;\n%sloop {%s}\n%slet %s%s = %s__brk;' % (name, indent, body2, indent, m.group(1) or '', name, name)
        text = text[:m.start()] + new + text[semi + 1:]
        n += 1


def apply_rules(text, skip=(), veciter=(), iteridents=()):
    fired = {}
    for rid, _desc, rx, rep in RULES:
        if rid in skip:
            continue
        text, n = rx.subn(rep, text)
        if n:
            fired[rid] = n
    if 'R11' not in skip:
        text, n = rule_r11(text)
        if n:
            fired['R11'] = n
    if 'R6d' not in skip:
        text, n = rule_r6d(text)
        if n:
            fired['R6d'] = n
    if 'R6b' not in skip:
        text, n = rule_r6b(text, veciter, iteridents)
        if n:
            fired['R6b'] = n
    if 'R9' not in skip:
        text, n = rule_r9(text)
        if n:
            fired['R9'] = n
    if 'R6a' not in skip:
        text, n = R6A[2].subn(R6A[3], text)
        if n:
            fired['R6a'] = n
    return text, fired


def rule_table():
    return [(r[0], r[1]) for r in RULES] + [R11_DESC, R6D_DESC, R6B_DESC, R9_DESC, (R6A[0], R6A[1])]


# ---------------------------------------------------------------------------------------------
class Block:
    def __init__(self, file, impl, fn):
        self.file, self.impl, self.fn = file, impl, fn
        self.rename = None
        self.attrs = []
        self.spec = []
        self.loops = {}
        self.loopstart = {}
        self.loopend = {}
        self.substs = []   # (old, new, count)
        self.hints = []    # (where, anchor, text)
        self.tmpctx = None      # expression naming the view a new TmpNodes is created under (rule R14; default `wtxn`)
        self.dropblocks = []    # attribute texts: the attribute and the `{ .. }` block it guards are removed (cfg that is false on this target)
        self.iteridents = []    # identifiers that already ARE iterators: `for p in NAME` uses NAME.next() (not the index loop of collections)
        self.veciter = []       # identifiers that are Vecs: `for P in NAME.iter()` becomes an index loop (R6h)
        self.ghostparams = []   # declarations appended to the parameter list (erased at run time)
        self.ghostargs = []     # (callee, expr) appended to every call of `callee` in the body
        self.noglobal = []
        self.optional = False
        self.stub = False
        self.item = False


def parse_template(path, units_dir):
    """Return list of parts: ('text', str) | ('block', Block)."""
    parts = []
    lines = open(path).read().split('\n')
    i = 0
    buf = []

    def flush():
        if buf:
            parts.append(('text', '\n'.join(buf) + '\n'))
            buf.clear()

    while i < len(lines):
        ln = lines[i]
        if ln.startswith('//@paste '):
            # the text of a shared contract file, pasted into hand-written stand-in text (same file as the //@specfile of the proving unit)
            buf.extend(open(os.path.join(units_dir, ln[len('//@paste '):].strip())).read().rstrip('\n').split('\n'))
            i += 1
        elif ln.startswith('//@include '):
            flush()
            inc = os.path.join(units_dir, ln[len('//@include '):].strip())
            parts.extend(parse_template(inc, units_dir))
            i += 1
        elif ln.startswith('//@extract-item '):
            flush()
            f, rx = [x.strip() for x in ln.split(' ', 1)[1].split('|', 1)]
            b = Block(f, None, rx)
            b.item = True
            i += 1
            while not lines[i].startswith('//@end'):
                if lines[i].startswith('//@subst'):
                    m = re.search(r'count=(\d+|any|opt)', lines[i])
                    cnt = (0 if m.group(1) == 'any' else -1 if m.group(1) == 'opt' else int(m.group(1))) if m else 1
                    i += 2
                    old, new, tgt = [], [], None
                    tgt = old
                    while lines[i].strip() != '>>>':
                        if lines[i].strip() == '===':
                            tgt = new
                        else:
                            tgt.append(lines[i])
                        i += 1
                    b.substs.append(('\n'.join(old), '\n'.join(new), cnt))
                i += 1
            i += 1
            parts.append(('block', b))
        elif ln.startswith('//@extract ') or ln.startswith('//@extract-optional '):
            flush()
            optional = ln.startswith('//@extract-optional ')
            f, impl, fn = [x.strip() for x in ln.split(' ', 1)[1].split('|')]
            b = Block(f, None if impl == '-' else impl, fn)
            b.optional = optional
            i += 1
            cur = None  # current collector
            while True:
                if i >= len(lines):
                    raise ExtractError('%s: unterminated //@extract %s' % (path, fn))
                ln = lines[i]
                if ln.startswith('//@end'):
                    i += 1
                    break
                if ln.startswith('//@rename '):
                    b.rename = ln.split(None, 1)[1].strip(); cur = None
                elif ln.startswith('//@attr '):
                    b.attrs.append(ln[len('//@attr '):]); cur = None
                elif ln.startswith('//@noglobal '):
                    b.noglobal += ln.split()[1:]; cur = None
                elif ln.startswith('//@stub'):
                    b.stub = True; cur = None
                elif ln.startswith('//@specfile '):
                    sf = os.path.join(units_dir, ln.split(None, 1)[1].strip())
                    b.spec.extend(open(sf).read().rstrip('\n').split('\n')); cur = None
                elif ln.startswith('//@spec'):
                    cur = b.spec
                elif ln.startswith('//@loopstart '):
                    n = int(ln.split()[1]); cur = b.loopstart.setdefault(n, [])
                elif ln.startswith('//@loopend '):
                    n = int(ln.split()[1]); cur = b.loopend.setdefault(n, [])
                elif ln.startswith('//@loop '):
                    n = int(ln.split()[1]); cur = b.loops.setdefault(n, [])
                elif ln.startswith('//@subst'):
                    m = re.search(r'count=(\d+|any|opt)', ln)
                    cnt = (0 if m.group(1) == 'any' else -1 if m.group(1) == 'opt' else int(m.group(1))) if m else 1
                    i += 1
                    if lines[i].strip() != '<<<':
                        raise ExtractError('%s: subst needs <<<' % path)
                    old, new, tgt = [], [], None
                    i += 1
                    tgt = old
                    while lines[i].strip() != '>>>':
                        if lines[i].strip() == '===':
                            tgt = new
                        else:
                            tgt.append(lines[i])
                        i += 1
                    b.substs.append(('\n'.join(old), '\n'.join(new), cnt)); cur = None
                elif ln.startswith('//@tmpctx '):
                    b.tmpctx = ln[len('//@tmpctx '):].strip(); cur = None
                elif ln.startswith('//@dropblock '):
                    b.dropblocks.append(ln[len('//@dropblock '):].strip()); cur = None
                elif ln.startswith('//@iterident '):
                    b.iteridents += ln.split()[1:]; cur = None
                elif ln.startswith('//@veciter '):
                    b.veciter += ln.split()[1:]; cur = None
                elif ln.startswith('//@ghostparam '):
                    b.ghostparams.append(ln[len('//@ghostparam '):].strip()); cur = None
                elif ln.startswith('//@ghostarg '):
                    m = re.match(r'//@ghostarg (\w+) <<<(.*)>>>\s*$', ln)
                    if not m:
                        raise ExtractError('%s: bad ghostarg line: %s' % (path, ln))
                    b.ghostargs.append((m.group(1), m.group(2))); cur = None
                elif ln.startswith('//@hint '):
                    m = re.match(r'//@hint (afterstmt|after|before|start)(?:#(\d+))? <<<(.*)>>>\s*$', ln)
                    if not m:
                        raise ExtractError('%s: bad hint line: %s' % (path, ln))
                    h = [m.group(1) + ('#' + m.group(2) if m.group(2) else ''), m.group(3), []]
                    b.hints.append(h); cur = h[2]
                elif ln.startswith('//@'):
                    raise ExtractError('%s: unknown directive %s' % (path, ln))
                else:
                    if cur is None:
                        if ln.strip():
                            raise ExtractError('%s: stray text in extract block: %s' % (path, ln))
                    else:
                        cur.append(ln)
                i += 1
            parts.append(('block', b))
        else:
            buf.append(ln)
            i += 1
    flush()
    return parts


def _sig_rewrite(text, masked, fn_kw, body_open, spec_lines, new_name, old_name):
    sig = text[fn_kw:body_open]
    msig = masked[fn_kw:body_open]
    # locate `->` at paren depth 0
    depth, arrow, seen_params = 0, -1, False
    for k, ch in enumerate(msig):
        if ch in '([':
            depth += 1
        elif ch in ')]':
            depth -= 1
            if depth == 0 and ch == ')':
                seen_params = True
        if msig.startswith('->', k) and depth == 0 and seen_params and arrow < 0:
            arrow = k
    if arrow >= 0:
        # return type ends at `where` (depth 0) or the end
        rest = sig[arrow + 2:]
        mw = re.search(r'\bwhere\b', msig[arrow + 2:])
        if mw:
            ret, tail = rest[:mw.start()], rest[mw.start():]
        else:
            ret, tail = rest, ''
        if not ret.strip().startswith('('+'r:'):
            sig = sig[:arrow] + '-> (r: ' + ret.strip() + ')\n' + tail
    if new_name:
        sig = re.sub(r'\bfn\s+%s\b' % re.escape(old_name), 'fn ' + new_name, sig, count=1)
    spec = '\n'.join(spec_lines)
    if spec.strip():
        sig = sig.rstrip() + '\n' + spec + '\n'
    return sig


def extract_item(b: Block, snapshot: str):
    path = os.path.join(snapshot, b.file)
    if not os.path.exists(path):
        raise ExtractError('lost anchor: file %s' % b.file)
    src = open(path).read()
    masked = rustlex.mask(src)
    m = re.search(b.fn, masked)
    if not m:
        raise ExtractError('lost anchor: item /%s/ in %s' % (b.fn, b.file))
    ls = src.rfind('\n', 0, m.start()) + 1
    # attribute lines directly above
    while True:
        pl = src.rfind('\n', 0, ls - 1) + 1
        if ls > 0 and src[pl:ls].strip().startswith('#['):
            ls = pl
        else:
            break
    ob = rustlex.next_open_brace(masked, m.start())
    cb = rustlex.match_close(masked, ob)
    raw = src[ls:cb + 1]
    text, fired = apply_rules(raw)
    for old, new, cnt in b.substs:
        c = text.count(old)
        if cnt and c != cnt:
            raise ExtractError('subst anchor in item %s occurs %d times (expected %d): %r' % (b.fn, c, cnt, old[:80]))
        text = text.replace(old, new)
    l0 = rustlex.line_of(src, ls)
    meta = {'fn': 'item:' + b.fn, 'src_fn': b.fn, 'file': b.file, 'impl': None, 'src_lines': [l0, rustlex.line_of(src, cb)],
            'lines_total': raw.count('\n') + 1, 'lines_verbatim': sum(1 for a in raw.split('\n') if a.strip() and a.strip() in [x.strip() for x in text.split('\n')]),
            'rules_fired': fired, 'sha256_src': hashlib.sha256(raw.encode()).hexdigest(), 'sha256_extracted': hashlib.sha256(text.encode()).hexdigest(),
            'line_map': {}, 'body_open_off': 0, 'stub': False, 'item': True}
    return text, meta


def strip_inner_items(text):
    """R13: item statements (enum / impl / struct declared inside a fn body) are removed from the body; the unit provides them at
    module level through //@extract-item (Verus has no internal item statements; items capture nothing)."""
    n = 0
    while True:
        m2 = rustlex.mask(text)
        mfn = re.search(r'\bfn\s+\w+', m2)
        body_open = rustlex.next_open_brace(m2, mfn.start())
        m = re.search(r'(?m)^[ \t]+((?:#\[[^\n]*\]\s*\n[ \t]*)*)(enum|impl|struct)\b[^;{]*\{', m2[body_open:])
        if not m:
            return text, n
        start = body_open + m.start()
        ob = body_open + m.end() - 1
        cb = rustlex.match_close(m2, ob)
        text = text[:start] + text[cb + 1:]
        n += 1


def extract_block(b: Block, snapshot: str, canary=False):
    if getattr(b, 'item', False):
        return extract_item(b, snapshot)
    path = os.path.join(snapshot, b.file)
    if not os.path.exists(path):
        raise ExtractError('lost anchor: file %s' % b.file)
    src = open(path).read()
    masked = rustlex.mask(src)
    try:
        if b.impl:
            lo, hi = rustlex.find_impl_block(src, masked, b.impl)
        else:
            lo, hi = 0, len(src)
        loc = rustlex.find_fn(src, masked, b.fn, lo, hi)
    except KeyError as e:
        raise ExtractError('lost anchor: %s in %s' % (e, b.file))
    raw = src[loc['start']:loc['body_close'] + 1]
    src_line0 = rustlex.line_of(src, loc['start'])
    src_line1 = rustlex.line_of(src, loc['body_close'])
    for attr in b.dropblocks:
        # code guarded by a cfg that is false on the target the crate is built for here: dropped, as the compiler does
        while attr in raw:
            k = raw.index(attr)
            mk = rustlex.mask(raw)
            ob = mk.index('{', k + len(attr))
            if raw[k + len(attr):ob].strip():
                raise ExtractError('dropblock: %s does not guard a block in %s::%s' % (attr, b.file, b.fn))
            cb = rustlex.match_close(mk, ob)
            ls = raw.rfind('\n', 0, k) + 1
            raw = raw[:ls] + raw[cb + 1:].lstrip('\n')
    if not any('exec_allows_no_decreases_clause' in a for a in b.attrs) and not b.stub:
        # partial correctness everywhere: termination is never claimed unless a decreases clause is listed in the evidence
        b.attrs = list(b.attrs) + ['#[verifier::exec_allows_no_decreases_clause]']
    text, fired = apply_rules(raw, skip=b.noglobal, veciter=b.veciter, iteridents=b.iteridents)
    if b.tmpctx:
        text = re.sub(r'(TmpNodes::new_g_\()wtxn\)', r'\g<1>%s)' % b.tmpctx, text)
        text = re.sub(r'(TmpNodes::new_in_g_\(\w+, )wtxn\)', r'\g<1>%s)' % b.tmpctx, text)
    if not b.stub:
        text, nin = strip_inner_items(text)
        if nin:
            fired['R13'] = nin
        # a helper function declared inside the body has no contract: its callers cannot be verified modularly (a failed proof there
        # would mean "needs a contract", not "violates the property") -> the enclosing function is reported UNDECIDED
        inner = re.findall(r'\bfn\s+(\w+)', rustlex.mask(text))[1:]
        if inner:
            raise ExtractError('nested fn without a contract in %s::%s: %s' % (b.file, b.fn, ', '.join(inner)))
    for old, new, cnt in b.substs:
        c = text.count(old)
        if cnt == 0:
            # count=any: a type-directed rewrite applied wherever the text occurs (possibly nowhere)
            text = text.replace(old, new)
            if c:
                fired['subst'] = fired.get('subst', 0) + c
            continue
        if cnt == -1:
            # count=opt: a site-specific rewrite (typing a closure, naming a stand-in) expected once. When the site is gone -- the code was
            # refactored -- the function is verified as it is; if its proof then fails the answer is UNDECIDED (part of the proof script
            # did not apply), never a violation (recorded as subst_skipped)
            if c == 1:
                text = text.replace(old, new); fired['subst'] = fired.get('subst', 0) + 1
            elif c == 0:
                fired['subst_skipped'] = fired.get('subst_skipped', 0) + 1
            else:
                raise ExtractError('subst anchor in %s::%s occurs %d times (expected at most 1): %r' % (b.file, b.fn, c, old[:80]))
            continue
        if c != cnt:
            if os.environ.get('VERIF_DEBUG'):
                print('---- text after global rules ----\n' + text)
            raise ExtractError('subst anchor in %s::%s occurs %d times (expected %d): %r' % (b.file, b.fn, c, cnt, old[:80]))
        text = text.replace(old, new)
        fired['subst'] = fired.get('subst', 0) + cnt
    # ghost arguments: `X.callee(args)` -> `X.callee(args, EXPR)` (the callee declares a matching //@ghostparam)
    for callee, expr in b.ghostargs:
        pos, cnt = 0, 0
        while True:
            mk = rustlex.mask(text)
            m = re.search(r'\.%s\s*\(' % re.escape(callee), mk[pos:])
            if not m:
                break
            op = pos + m.end() - 1
            cp = rustlex.match_close(mk, op)
            inner = mk[op + 1:cp].rstrip()
            ins = (' ' if inner.endswith(',') else ', ') + expr
            text = text[:cp] + ins + text[cp:]
            pos = cp + len(ins)
            cnt += 1
        if cnt == 0:
            raise ExtractError('ghostarg: no call of %s in %s::%s' % (callee, b.file, b.fn))
        fired['ghostarg'] = fired.get('ghostarg', 0) + cnt
    # hints
    for where, anchor, lines in b.hints:
        nth = None
        if '#' in where:
            where, nth = where.split('#')
            nth = int(nth)
        if where == 'start':
            # right after the opening brace of the function body (ghost snapshots of the entry state: no anchor to lose)
            mk = rustlex.mask(text)
            mf = re.search(r'\bfn\s+%s\b' % re.escape(b.fn), mk)
            ob = rustlex.next_open_brace(mk, mf.end())
            text = text[:ob + 1] + '\n' + '\n'.join(lines) + text[ob + 1:]
            continue
        c = text.count(anchor)
        if where == 'afterstmt' and c == 1:
            # after the end of the statement that contains the anchor (next `;` at bracket depth 0)
            p = text.find(anchor)
            mk = rustlex.mask(text)
            depth, e = 0, None
            for k in range(p, len(mk)):
                ch = mk[k]
                if ch in '([{':
                    depth += 1
                elif ch in ')]}':
                    depth -= 1
                elif ch == ';' and depth == 0:
                    e = k + 1
                    break
            if e is not None:
                nl = text.find('\n', e)
                nl = len(text) if nl < 0 else nl + 1
                text = text[:nl] + '\n'.join(lines) + '\n' + text[nl:]
                continue
        if nth is not None and c >= nth:
            p = -1
            for _ in range(nth):
                p = text.find(anchor, p + 1)
            ins = '\n'.join(lines) + '\n'
            if where == 'after':
                e = text.find('\n', p + len(anchor))
                e = len(text) if e < 0 else e + 1
                text = text[:e] + ins + text[e:]
            else:
                sl = text.rfind('\n', 0, p) + 1
                text = text[:sl] + ins + text[sl:]
            continue
        if c != 1:
            # proof hints are optional: without its anchor the hint is dropped; if the function then fails the
            # failure is reported as UNDECIDED (the proof script no longer applies), not as a violation
            fired['hint_skipped'] = fired.get('hint_skipped', 0) + 1
            continue
        p = text.find(anchor)
        ins = '\n'.join(lines) + '\n'
        if where == 'after':
            e = text.find('\n', p + len(anchor))
            e = len(text) if e < 0 else e + 1
            text = text[:e] + ins + text[e:]
        else:
            s = text.rfind('\n', 0, p) + 1
            text = text[:s] + ins + text[s:]
    # loops (ordinals on the rewritten text), inserted from the last to the first
    m2 = rustlex.mask(text)
    mfn = re.search(r'\bfn\s+%s\b' % re.escape(b.fn), m2)
    if not mfn:
        raise ExtractError('fn keyword lost in %s' % b.fn)
    body_open = rustlex.next_open_brace(m2, mfn.start())
    loops = rustlex.find_loops(m2, body_open)
    inserts = []   # (position, text)
    for n in set(b.loops) | set(b.loopstart) | set(b.loopend):
        if n >= len(loops):
            # the loop is gone: its invariant has nothing to attach to; the function's other obligations still decide
            fired['loop_invariant_skipped'] = fired.get('loop_invariant_skipped', 0) + 1
            continue
        _kw, _k, ob = loops[n]
        cb = rustlex.match_close(m2, ob)
        if n in b.loopend:
            ls = text.rfind('\n', 0, cb) + 1
            # deep canary: the end of a loop body that carries a proof script must be reachable with a consistent context
            deep = ['proof { assert(false); } // DEEP-CANARY loopend %d' % n] if canary else []
            inserts.append((ls if not text[ls:cb].strip() else cb, '\n'.join(deep + b.loopend[n]) + '\n'))
        if n in b.loopstart:
            inserts.append((ob + 1, '\n' + '\n'.join(b.loopstart[n]) + '\n'))
        if n in b.loops:
            inserts.append((ob, '\n' + '\n'.join(b.loops[n]) + '\n'))
    for pos, t in sorted(inserts, key=lambda x: -x[0]):
        text = text[:pos] + t + text[pos:]
    # signature + spec
    m2 = rustlex.mask(text)
    mfn = re.search(r'(?:pub(?:\([a-z]+\))?\s+)?(?:const\s+)?(?:unsafe\s+)?fn\s+%s\b' % re.escape(b.fn), m2)
    body_open = rustlex.next_open_brace(m2, mfn.start())
    sig = _sig_rewrite(text, m2, mfn.start(), body_open, b.spec, b.rename, b.fn)
    if b.ghostparams:
        ms = rustlex.mask(sig)
        mname = re.search(r'\bfn\s+\w+', ms)
        k = mname.end()
        if ms[k:].lstrip().startswith('<'):
            # skip generics
            k = k + ms[k:].index('<')
            depth = 0
            while True:
                if ms[k] == '<': depth += 1
                elif ms[k] == '>':
                    depth -= 1
                    if depth == 0: break
                k += 1
        op = ms.index('(', k)
        cp = rustlex.match_close(ms, op)
        inner = ms[op + 1:cp].rstrip()
        ins = ('' if inner.endswith(',') or not inner.strip() else ',') + ' ' + ', '.join(b.ghostparams)
        sig = sig[:cp] + ins + sig[cp:]
        fired['ghostparam'] = len(b.ghostparams)
    sig = re.sub(r'\bunsafe\s+fn\b', 'fn', sig)
    if b.stub:
        # contract-only stub of a function verified in another unit: the caller is checked against the contract, not the body
        text = text[:body_open] + '{ unimplemented!() }\n'
        b.attrs = ['#[verifier::external_body]'] + [a for a in b.attrs if 'external_body' not in a]
    out = text[:mfn.start()] + sig + text[body_open:]
    attrs_txt = ''.join(a + '\n' for a in b.attrs)
    body_open_off = len(attrs_txt) + mfn.start() + len(sig)
    out = attrs_txt + out
    assert out[body_open_off] == '{'
    # accounting
    src_lines = [l.strip() for l in raw.split('\n')]
    gen_lines = [l.strip() for l in out.split('\n')]
    sm = difflib.SequenceMatcher(a=src_lines, b=gen_lines, autojunk=False)
    line_map = {}
    verbatim = 0
    for tag, i1, i2, j1, j2 in sm.get_opcodes():
        if tag == 'equal':
            for k in range(i2 - i1):
                line_map[j1 + k] = src_line0 + i1 + k
                if src_lines[i1 + k]:
                    verbatim += 1
    nonblank_src = sum(1 for l in src_lines if l)
    meta = {
        'fn': b.rename or b.fn, 'src_fn': b.fn, 'file': b.file, 'impl': b.impl,
        'src_lines': [src_line0, src_line1],
        'lines_total': nonblank_src, 'lines_verbatim': verbatim,
        'rules_fired': fired,
        'sha256_src': hashlib.sha256(raw.encode()).hexdigest(),
        'sha256_extracted': hashlib.sha256(out.encode()).hexdigest(),
        'stub': b.stub,
        'line_map': line_map,
        'body_open_off': body_open_off,
    }
    return out, meta


class MetaList(list):
    def __init__(self, *a):
        super().__init__(*a)
        self.lemma_canaries = []


def _lemma_canaries(text, first_line, out):
    """Vacuity canary for lemmas: `assert(false);` at the top of every proof fn that has a `requires` clause and a body
    (admitted axioms are skipped). Records (name, first generated line, last generated line)."""
    mk = rustlex.mask(text)
    inserts = []
    for m in re.finditer(r'\bproof fn (\w+)', mk):
        head = mk[max(0, mk.rfind('\n\n', 0, m.start())):m.start()]
        if 'external_body' in text[max(0, m.start() - 200):m.start()].split('\n}')[-1]:
            continue
        # house style of the lemma libraries: the body opens with `{` alone at column 0 (specs may contain braces)
        mo = re.compile(r'\n\{[ \t]*\n').search(mk, m.end())
        nxt = re.compile(r'\bfn \w+').search(mk, m.end())
        if not mo or (nxt and nxt.start() < mo.start()):
            continue
        ob = mo.start() + 1
        sig = mk[m.end():ob]
        if not re.search(r'\brequires\b', sig):
            continue
        cb = rustlex.match_close(mk, ob)
        if 'admit()' in text[ob:cb]:
            continue
        inserts.append((ob + 1, m.group(1), text.count('\n', 0, m.start()), text.count('\n', 0, cb)))
    for pos, name, l0, l1 in sorted(inserts, reverse=True):
        text = text[:pos] + ' assert(false); ' + text[pos:]
        out.append((name, first_line + l0, first_line + l1))
    return text


def build_unit(template_path, units_dir, snapshot, canary=False, force_stub=None):
    """Assemble the generated Verus file. Returns (text, metas) where metas carry gen line ranges."""
    parts = parse_template(template_path, units_dir)
    out_lines = []
    metas = MetaList()
    cur_impl = None
    lemma_canaries = metas.lemma_canaries
    for kind, p in parts:
        if kind == 'text':
            if canary:
                p = _lemma_canaries(p, len(out_lines) + 1, lemma_canaries)
            tl = p.rstrip('\n').split('\n')
            out_lines.extend(tl)
            for ln in tl:
                m = re.match(r'^(?:pub\s+)?impl(?:<[^>]*>)?\s+(?:[\w:<>, ]+\s+for\s+)?([A-Za-z_]\w*)', ln)
                if m:
                    cur_impl = m.group(1)
                elif re.match(r'^\}', ln):
                    cur_impl = None
        else:
            try:
                qual_p = (cur_impl + '::' if cur_impl else '') + (p.rename or p.fn)
                if force_stub and qual_p in force_stub and not p.stub and not getattr(p, 'item', False):
                    raise ExtractError('subst anchor / verus: ' + force_stub[qual_p])
                text, meta = extract_block(p, snapshot, canary)
            except ExtractError as e:
                if p.optional and 'lost anchor' in str(e):
                    out_lines.append('// (optional extraction skipped: %s)' % e)
                    metas.append({'skipped': True, 'fn': p.rename or p.fn, 'file': p.file, 'gen_lines': [0, -1], 'line_map': {}})
                    continue
                msg = str(e)
                if getattr(p, 'item', False) or p.stub or not (msg.startswith('subst anchor') or msg.startswith('ghostarg') or msg.startswith('R11') or msg.startswith('nested fn')):
                    raise
                # function-local fallback: a site-specific rewrite of THIS function no longer applies to the current source. The function
                # is kept in the unit as its contract only (callers in the unit are still checked against it) and is reported UNDECIDED;
                # the other functions of the unit are verified as usual.
                import copy
                q = copy.copy(p)
                q.stub = True; q.substs = []; q.hints = []; q.ghostargs = []; q.loops = {}; q.loopstart = {}; q.loopend = {}
                q.attrs = [a for a in p.attrs]
                try:
                    text, meta = extract_block(q, snapshot, canary)
                except ExtractError:
                    raise e
                meta['fallback'] = msg
                out_lines.append('// (body not extracted: %s)' % msg.replace('\n', ' ')[:300])
            if canary and not meta.get('item') and not meta.get('fallback'):
                ob = meta['body_open_off']
                text = text[:ob + 1] + ' assert(false); ' + text[ob + 1:]
            g0 = len(out_lines) + 1
            tl = text.rstrip('\n').split('\n')
            out_lines.extend(tl)
            meta['gen_lines'] = [g0, g0 + len(tl) - 1]
            meta['impl_ctx'] = cur_impl
            meta['line_map'] = {g0 + k: v for k, v in meta['line_map'].items()}
            metas.append(meta)
    return '\n'.join(out_lines) + '\n', metas
