"""./check <property> [--tier quick|thorough]  — see DESIGN.md §2."""
import argparse
import concurrent.futures as cf
import hashlib
import json
import os
import re
import shutil
import subprocess
import sys
import tempfile
import time

from . import extract, kani, registry, rustlex, verus

HERE = os.path.dirname(os.path.dirname(os.path.abspath(__file__)))
REPO = os.environ.get('VERIF_REPO', '/repo')
EVID = os.path.join(HERE, 'evidence')
REPLAYS = os.path.join(HERE, 'replays')


def norm_fn_text(t):
    t = rustlex.mask(t) and re.sub(r'//[^\n]*', '', t)
    return re.sub(r'\s+', ' ', t).strip()


def assumed_hash(snapshot, file, impl, fn):
    path = os.path.join(snapshot, file)
    if not os.path.exists(path):
        return None
    src = open(path).read()
    masked = rustlex.mask(src)
    try:
        lo, hi = rustlex.find_impl_block(src, masked, impl) if impl else (0, len(src))
        loc = rustlex.find_fn(src, masked, fn, lo, hi)
    except KeyError:
        return None
    return hashlib.sha256(norm_fn_text(src[loc['fn_kw']:loc['body_close'] + 1]).encode()).hexdigest()


def load_json(path, default):
    try:
        return json.load(open(path))
    except Exception:
        return default


def main():
    ap = argparse.ArgumentParser()
    ap.add_argument('prop')
    ap.add_argument('--tier', default=os.environ.get('VERIF_TIER', 'quick'))
    ap.add_argument('--record-assumed', action='store_true')
    ap.add_argument('--keep', action='store_true')
    args = ap.parse_args()
    pid, tier = args.prop, args.tier
    if tier not in ('quick', 'thorough'):
        tier = 'quick'
    seed = int(os.environ.get('VERIF_SEED', '0') or 0)
    if pid not in registry.PROPS:
        print('unknown or not-applicable property %s' % pid)
        sys.exit(2)
    P = registry.PROPS[pid]
    t0 = time.time()
    os.makedirs(EVID, exist_ok=True)
    os.makedirs(REPLAYS, exist_ok=True)
    tmp = tempfile.mkdtemp(prefix='verif-arroy-')
    snapshot = os.path.join(tmp, 'snapshot')
    gen = os.path.join(tmp, 'gen')
    os.makedirs(gen)
    undecided, violations, known_lines, notes = [], [], [], []
    try:
        subprocess.run(['rsync', '-a', '--exclude', '/target', '--exclude', '.git', REPO.rstrip('/') + '/', snapshot + '/'], check=True)
        head = subprocess.run(['git', '-C', REPO, 'rev-parse', 'HEAD'], capture_output=True, text=True).stdout.strip()
        dirty = subprocess.run(['git', '-C', REPO, 'status', '--porcelain', '--', 'src'], capture_output=True, text=True).stdout.strip()

        # ---- drift guard for in-repo functions that are only *assumed* -------------------------------
        assumed_path = os.path.join(HERE, 'contracts', 'assumed_hashes.json')
        assumed = load_json(assumed_path, {})
        assumed_report = []
        for (f, impl, fn) in P.get('assumed_fns', []):
            key = '%s|%s|%s' % (f, impl or '-', fn)
            h = assumed_hash(snapshot, f, impl, fn)
            if args.record_assumed:
                assumed[key] = h
            elif h is None:
                undecided.append('lost anchor of assumed function %s' % key)
            elif assumed.get(key) != h:
                undecided.append('assumed-subject-changed %s (its contract in the prelude is assumed, not proved; the edit is neither accepted nor reported as a violation)' % key)
            assumed_report.append(key)
        if args.record_assumed:
            os.makedirs(os.path.dirname(assumed_path), exist_ok=True)
            json.dump(assumed, open(assumed_path, 'w'), indent=1, sort_keys=True)
            print('recorded %d assumed hashes' % len(assumed_report))
            return 0

        # ---- run the units --------------------------------------------------------------------------
        vunits = P.get('verus', {})
        kspec = P.get('kani', {})
        kh = list(kspec.get('quick', []))
        if tier == 'thorough':
            kh += kspec.get('thorough', [])
        if os.environ.get('VERIF_DEV_SKIP_KANI') == '1':
            # development experiments only (tools/run_harmless.py sets it for changes that touch no file a harness can reach: the
            # Kani input is then the unchanged code); never set by the registered commands
            kh = []
        futures = {}
        with cf.ThreadPoolExecutor(max_workers=12) as ex:
            for u in vunits:
                futures[('verus', u)] = ex.submit(_safe, verus.run, u, snapshot, gen)
                futures[('canary', u)] = ex.submit(_safe, verus.run, u, snapshot, gen, True)
                if tier == 'thorough':
                    # stability: the same obligations under two other SMT seeds (a disagreement is reported as unstable, never as a violation)
                    for sd in (7, 1234):
                        futures[('seed%d' % sd, u)] = ex.submit(_safe, verus.run, u, snapshot, gen, False, None, sd)
            if kh:
                stems = sorted({s for s, _ in kh})
                names = [h for _, hs in kh for h in hs]
                futures[('kani', '*')] = ex.submit(_safe, kani.run, snapshot, stems, names, 8, 3000 if tier == 'thorough' else 1500,
                                                   os.path.join(EVID, '%s.kani.log' % pid))
        results = {k: f.result() for k, f in futures.items()}

        obligations = discharged = 0
        lemma_canary_total = 0
        deep_canary_total = 0
        stability = []
        samples, fn_table, backends, smt_ms_total, kani_time = [], [], set(), 0, 0.0
        expected = load_json(os.path.join(HERE, 'contracts', 'expected_obligations.json'), {})
        ext_scan = 0

        # ---- Verus ------------------------------------------------------------------------------------
        for u, filt in vunits.items():
            r = results[('verus', u)]
            c = results[('canary', u)]
            backends.add('verus')
            if isinstance(r, Exception):
                undecided.append('unit %s: %s' % (u, r))
                continue
            if r.get('timeout'):
                undecided.append('unit %s: verus timed out' % u)
                continue
            if r['compile_error']:
                msgs = '; '.join(e['message'][:200] for e in r['other_errors'][:3]) or r.get('stderr_tail', '')[-400:]
                undecided.append('unit %s: verus rejected the generated file (unsupported construct / type error, not a proof failure): %s' % (u, msgs))
                continue
            smt_ms_total += r.get('smt_ms') or 0
            gen_text = open(r['gen_path']).read()
            ext_scan += len(re.findall(r'external_body|assume_specification|\badmit\(|\bassume\(', gen_text))
            metas = r['metas']
            in_filter = [m for m in metas if filt is None or m['qual'] in filt]
            if filt is not None:
                missing = set(filt) - {m['qual'] for m in metas}
                # lemma / spec-library proof functions may be named in the filter too
                missing = {x for x in missing if x not in r['functions'] and x.split('::')[-1] not in getattr(verus.generate, 'skipped', [])}
                if missing:
                    undecided.append('unit %s: functions named in the registry are not in the unit: %s' % (u, sorted(missing)))
            for m in in_filter:
                if m.get('fallback'):
                    undecided.append('unit %s: %s could not be extracted for verification (%s): in this run its contract is only assumed; the other functions of the unit were checked' % (u, m['qual'], m['fallback'][:200]))
            for m in metas:
                if m.get('fallback') and m not in in_filter:
                    notes.append('unit %s: %s (outside this property) could not be extracted: %s' % (u, m['qual'], m['fallback'][:120]))
            lemma_fns = [n for n, f in r['functions'].items() if f.get('mode') == 'proof' and not n.split('::')[-1].startswith('axiom_')]
            wanted = [m['qual'] for m in in_filter] + (lemma_fns if (filt is None or P.get('count_lemmas', True)) else [])
            exp_unit = set(expected.get(u, []))
            for q in wanted:
                obligations += 1
                f = r['functions'].get(q)
                errs = [e for e in r['errors'] if e['fn'] == q or (e['fn'] is None and q in lemma_fns and q.split('::')[-1] in e.get('rendered', ''))]
                if f is None and not errs:
                    # functions with no SMT query (trivial) do not appear in the breakdown: count as discharged only if it is
                    # an extracted function of this unit and verus verified the whole file
                    if q not in {m['qual'] for m in metas}:
                        undecided.append('unit %s: %s is named in the registry but is neither an extracted function nor a verified function of the unit' % (u, q))
                    elif r['n_errors'] == 0:
                        discharged += 1
                    continue
                if f is not None and f.get('success') and not errs:
                    discharged += 1
            # failures
            for e in r['errors']:
                q = e['fn']
                relevant = (q is None) or filt is None or q in filt
                name = verus.obligation_name(u, e)
                if e['kind'] == 'rlimit':
                    if relevant:
                        undecided.append('unit %s: resource limit in %s (%s)' % (u, q, e['label'][:80]))
                    continue
                if not relevant:
                    notes.append('unit %s: obligation outside this property failed: %s' % (u, name))
                    continue
                fm = next((m for m in metas if m['qual'] == q), None)
                if fm and fm['rules_fired'].get('subst_skipped'):
                    undecided.append('unit %s: %s fails but a site-specific rewrite of the proof script did not apply to the current source (the code was restructured): %s' % (u, q, e['label'][:100]))
                    continue
                if fm and fm['rules_fired'].get('hint_skipped'):
                    undecided.append('unit %s: %s fails but a proof hint lost its anchor in the current source (the proof script no longer applies): %s' % (u, q, e['label'][:100]))
                    continue
                violations.append({'engine': 'verus', 'unit': u, 'obligation': name, 'fn': q, 'file': e['file'], 'src_line': e['src_line'],
                                   'exit': e['exit_text'], 'diagnostic': e['rendered'],
                                   'was_expected_to_pass': (q in exp_unit) if exp_unit else None,
                                   'function_meta': {k: v for k, v in next((m for m in metas if m['qual'] == q), {}).items() if k != 'line_map'},
                                   'extracted_text': _fn_text(gen_text, next((m for m in metas if m['qual'] == q), None))})
            if tier == 'thorough':
                for sd in (7, 1234):
                    rs = results.get(('seed%d' % sd, u))
                    if isinstance(rs, Exception) or rs is None or rs.get('timeout') or rs.get('compile_error'):
                        undecided.append('unit %s: stability run with SMT seed %d did not complete' % (u, sd)); continue
                    bad = sorted({e['fn'] or '<lemma>' for e in rs['errors']})
                    main_bad = sorted({e['fn'] or '<lemma>' for e in r['errors']})
                    stability.append({'unit': u, 'seed': sd, 'errors': len(rs['errors']), 'smt_ms': rs.get('smt_ms')})
                    if bad != main_bad:
                        undecided.append('unit %s: UNSTABLE under SMT seed %d: functions with open obligations %s vs %s in the main run' % (u, sd, bad, main_bad))
            # canary
            if isinstance(c, Exception) or c.get('timeout') or c.get('compile_error'):
                undecided.append('unit %s: canary run failed (%s)' % (u, c if isinstance(c, Exception) else 'rejected/timeout'))
            else:
                hit = {e['fn'] for e in c['errors'] if e['message'].startswith('assertion failed')}
                for m in in_filter:
                    if m['qual'] not in hit and not m.get('fallback'):
                        undecided.append('unit %s: VACUITY canary: assert(false) at the top of %s was NOT refuted (contradictory precondition or inconsistent assumed contracts)' % (u, m['qual']))
                # deep canaries: the end of every loop body that carries a proof script (//@loopend) must be reachable too
                c_lines = open(c['gen_path']).read().split('\n') if c.get('gen_path') and os.path.exists(c['gen_path']) else []
                all_hit = {e['gen_line'] for e in c['errors'] if e['message'].startswith('assertion failed') and e.get('gen_line')}
                for ln_no, ln in enumerate(c_lines, 1):
                    if 'DEEP-CANARY' in ln:
                        deep_canary_total += 1
                        m_in = verus._fn_of_line(c['metas'], ln_no)
                        if m_in is not None and m_in in [mm for mm in c['metas']] and (filt is None or m_in.get('qual') in filt):
                            if ln_no not in all_hit:
                                undecided.append('unit %s: VACUITY deep canary: assert(false) at the end of a loop body of %s was NOT refuted (%s)' % (u, m_in.get('qual'), ln.strip()[-30:]))
                # lemmas with a `requires` clause: the same canary (a contradictory lemma precondition would make every use of it vacuous)
                hit_lines = [e['gen_line'] for e in c['errors'] if e['message'].startswith('assertion failed') and e.get('gen_line')]
                for name, l0, l1 in c.get('lemma_canaries', []):
                    lemma_canary_total += 1
                    if not any(l0 <= g <= l1 for g in hit_lines):
                        undecided.append('unit %s: VACUITY canary: assert(false) at the top of lemma %s was NOT refuted (contradictory requires)' % (u, name))
            for m in in_filter:
                f = r['functions'].get(m['qual'], {})
                fn_table.append({'unit': u, 'function': m['qual'], 'source': '%s:%d-%d' % (m['file'], m['src_lines'][0], m['src_lines'][1]),
                                 'lines_total': m['lines_total'], 'lines_verbatim': m['lines_verbatim'], 'rules_fired': m['rules_fired'],
                                 'sha256_extracted': m['sha256_extracted'][:16], 'smt_ms': f.get('time_ms'), 'verified': bool(f.get('success')) if f else (r['n_errors'] == 0)})
            for m in in_filter[:3]:
                samples.append({'obligation': 'verus: all ensures / callee-precondition / no-panic / overflow / loop-invariant conditions of %s' % m['qual'],
                                'unit': u, 'source': '%s:%d-%d' % (m['file'], m['src_lines'][0], m['src_lines'][1]),
                                'contract': _spec_of(gen_text, m)[:600]})

        # ---- Kani -------------------------------------------------------------------------------------
        bounded_list = []
        if kh:
            backends.add('kani/cbmc')
            kr = results[('kani', '*')]
            if isinstance(kr, Exception):
                undecided.append('kani: %s' % kr)
            else:
                kres, kmeta = kr
                if kmeta['compile_error'] or kmeta['rc'] == -9:
                    undecided.append('kani: build failed or timed out: %s' % kmeta['tail'][-600:])
                bounded = set(P.get('bounded_harnesses', []))
                for stem, hs in kh:
                    for h in hs:
                        r = kres.get(h)
                        if not r or 'status' not in r:
                            if not (kmeta['compile_error'] or kmeta['rc'] == -9):
                                undecided.append('kani: harness %s did not run' % h)
                            continue
                        kani_time += r.get('time_s') or 0
                        is_b = h in bounded
                        if is_b:
                            bounded_list.append({'harness': h, 'checks': r.get('checks'), 'status': r['status'], 'bound': registry.BOUNDS.get(h, 'see harness')})
                        if r['status'] == 'SUCCESSFUL':
                            if r.get('covers') and r.get('cover_sat') != r.get('covers'):
                                undecided.append('kani: VACUITY harness %s: cover!(true) not satisfied' % h)
                                continue
                            if not is_b:
                                obligations += r.get('checks', 0)
                                discharged += r.get('checks', 0)
                            if len(samples) < 8:
                                samples.append({'obligation': 'kani harness %s: %d CBMC properties (assertions of the harness + no-panic / overflow / bounds checks of the real code it reaches)' % (h, r.get('checks', 0)),
                                                'file': 'kani/%s.rs' % stem, 'time_s': r.get('time_s')})
                        elif r['status'] == 'FAILED':
                            if r.get('unwinding') and not [fc for fc in r['failed_checks'] if 'unwinding' not in fc[0]]:
                                undecided.append('kani: harness %s: unwinding bound too small for the current code' % h)
                                continue
                            if r.get('unsupported'):
                                undecided.append('kani: harness %s reaches an unsupported construct' % h)
                                continue
                            if not is_b:
                                obligations += r.get('checks', 0)
                                discharged += r.get('checks', 0) - r.get('failed', 0)
                            rp = r.get('replay')
                            if rp and rp.get('ran') and not rp.get('confirmed'):
                                undecided.append('kani: harness %s refuted by CBMC but the counterexample does not fail natively (%s)' % (h, rp.get('verdict')))
                                continue
                            violations.append({'engine': 'kani', 'harness': h, 'file': 'kani/%s.rs' % stem,
                                               'obligation': 'kani::%s::%s' % (h, '; '.join(fc[0] for fc in r['failed_checks'])[:300]),
                                               'failed_checks': r['failed_checks'], 'counterexample': (r.get('playback') or [{}])[0],
                                               'replay': rp, 'bounded': is_b})
                        else:
                            undecided.append('kani: harness %s status %s' % (h, r['status']))

        # ---- static guards -------------------------------------------------------------------------------
        for st in P.get('static', []):
            if st == 'no_override_side_pq':
                for root, _d, fs in os.walk(os.path.join(snapshot, 'src', 'distance')):
                    for f in fs:
                        if f != 'mod.rs' and f.endswith('.rs'):
                            t = open(os.path.join(root, f)).read()
                            if re.search(r'\bfn\s+(side|pq_distance)\b', t):
                                undecided.append('static: %s overrides Distance::side / pq_distance; the Kani proof covers the default methods only' % f)

        # ---- known findings -----------------------------------------------------------------------------
        kf = load_json(os.path.join(HERE, 'known_findings.json'), {'known': [], 'fixed': []})
        real_violations = []
        for k in kf.get('known', []):
            if k.get('property') == pid and k.get('static'):
                known_lines.append('KNOWN-FINDING: property=%s %s' % (pid, k.get('what', '')))
        for v in violations:
            match = None
            for k in kf.get('known', []):
                if k.get('property') == pid and k.get('obligation') and k['obligation'] in v['obligation'] and (not k.get('site') or k['site'] in json.dumps(v)):
                    match = k
            if match:
                known_lines.append('KNOWN-FINDING: property=%s %s' % (pid, match.get('what', match['obligation'])))
            else:
                real_violations.append(v)

        # ---- verdict ----------------------------------------------------------------------------------
        wall = round(time.time() - t0, 1)
        status = 0
        replay_paths = []
        if real_violations:
            status = 1
            # one replay file per failing function / harness
            groups = {}
            for v in real_violations:
                groups.setdefault(v.get('fn') or v.get('harness') or v['obligation'], []).append(v)
            for gname, vs in groups.items():
                safe = re.sub(r'[^A-Za-z0-9_]+', '_', gname)[:60]
                path = os.path.join(REPLAYS, '%s-%s-%d.json' % (pid, safe, int(time.time())))
                has_cex = any(v.get('replay') and v['replay'].get('confirmed') for v in vs)
                json.dump({'property': pid, 'repo_head': head, 'repo_dirty_src': dirty, 'tier': tier,
                           'kind': 'counterexample replayed on the real crate' if has_cex else 'no-failing-input-found: named obligation(s) discharged on the unchanged tree now fail; verifier output attached',
                           'failed_obligations': vs}, open(path, 'w'), indent=1, default=str)
                replay_paths.append((path, has_cex))
        elif undecided:
            status = 2
        for ln in known_lines:
            print(ln)
        for n in notes:
            print('NOTE: ' + n)
        for u in undecided:
            print('UNDECIDED: ' + u)
        for path, has_cex in replay_paths:
            print('VIOLATION property=%s replay=%s%s' % (pid, path, '' if has_cex else ' no-failing-input-found'))
        for v in real_violations:
            print('  failed obligation: %s' % v['obligation'][:300])

        trusted = registry.TRUSTED_COMMON + P.get('trusted', [])
        trusted += ['assumed in-repo function (contract in prelude, drift-guarded by hash): %s' % a for a in assumed_report]
        ev = {
            'property_id': pid, 'tier': tier, 'seed': seed, 'level': 'proof',
            'coverage': {
                'obligations': obligations, 'discharged': discharged,
                'checker_cmd': 'verus <generated unit>.rs --output-json --time --multiple-errors 50 --error-format=json ; '
                               'cargo kani -Z function-contracts -Z stubbing -Z concrete-playback --concrete-playback=print --harness <h> (on a scratch copy of /repo with /verif/kani/*.rs appended)',
                'trusted_base': trusted,
                'samples': samples or [{'note': 'no unit ran'}],
                'obligation_unit': 'Verus: one obligation = the complete verification condition of one function under contract (all of its ensures clauses, callee preconditions, no-panic, overflow and loop-invariant conditions) or of one lemma; Kani: one obligation = one CBMC property of a non-bounded harness',
                'functions_under_contract': fn_table,
                'back_ends': sorted(backends),
                'solver_time_s': {'verus_smt': round(smt_ms_total / 1000.0, 2), 'cbmc': round(kani_time, 2)},
                'bounded_not_counted': bounded_list,
                'not_decided_clauses': P.get('not_decided', []),
                'assumption_markers_in_generated_files': ext_scan,
                'rewrite_rules': [list(x) for x in extract.rule_table()],
                'stability_runs': stability,
                'canary': 'assert(false) injected at the top of every function under contract and of every lemma that has a requires clause must be refuted (run on every check; %d lemma canaries, %d deep canaries at the ends of loop bodies with proof scripts this run)' % (lemma_canary_total, deep_canary_total),
                'repo_head': head, 'repo_dirty_src': bool(dirty),
                'undecided': undecided, 'known_findings_reported': known_lines,
            },
            'assumptions': trusted + P.get('not_decided', []),
            'wall_s': wall,
            'violations': len(real_violations),
        }
        json.dump(ev, open(os.path.join(EVID, '%s.json' % pid), 'w'), indent=1, default=str)
        print('%s tier=%s obligations=%d discharged=%d violations=%d undecided=%d wall=%.1fs -> exit %d' % (
            pid, tier, obligations, discharged, len(real_violations), len(undecided), wall, status))
        return status
    finally:
        if args.keep:
            print('kept ' + tmp)
        else:
            shutil.rmtree(tmp, ignore_errors=True)


def _safe(fn, *a):
    try:
        return fn(*a)
    except (extract.ExtractError, kani.KaniError) as e:
        return e
    except Exception as e:  # noqa
        import traceback
        return RuntimeError('internal error: %s\n%s' % (e, traceback.format_exc()[-1500:]))


def _fn_text(gen_text, m):
    if not m:
        return None
    lines = gen_text.split('\n')
    return '\n'.join(lines[m['gen_lines'][0] - 1:m['gen_lines'][1]])[:12000]


def _spec_of(gen_text, m):
    t = _fn_text(gen_text, m) or ''
    i = t.find('requires')
    j = t.find('ensures')
    k = min([x for x in (i, j) if x >= 0], default=0)
    e = t.find('\n{', k)
    return re.sub(r'\s+', ' ', t[k:e if e > 0 else k + 600])


if __name__ == '__main__':
    sys.exit(main())
