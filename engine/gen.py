"""Developer helper: python3 -m engine.gen <unit> [snapshot] -> writes /tmp/verif_gen/<unit>.rs and runs verus."""
import os, subprocess, sys, json
from . import extract
def main():
    unit = sys.argv[1]
    snap = sys.argv[2] if len(sys.argv) > 2 else '/repo'
    here = os.path.dirname(os.path.dirname(os.path.abspath(__file__)))
    text, metas = extract.build_unit(os.path.join(here, 'units', unit + '.rs'), os.path.join(here, 'units'), snap)
    os.makedirs('/tmp/verif_gen', exist_ok=True)
    out = '/tmp/verif_gen/%s.rs' % unit
    open(out, 'w').write(text)
    for m in metas:
        print('%-28s %s:%d-%d  verbatim %d/%d  rules %s' % (m['fn'], m['file'], m['src_lines'][0], m['src_lines'][1], m['lines_verbatim'], m['lines_total'], m['rules_fired']))
    r = subprocess.run(['verus', out, '--multiple-errors', '20', '--triggers-mode', 'silent'] + sys.argv[3:], capture_output=True, text=True)
    print(r.stdout[-6000:]); print(r.stderr[-12000:])
main()
