#!/bin/sh
# Offline setup: warm the Kani dependency cache and the Verus vstd import (nothing is fetched).
cd "$(dirname "$0")" || exit 1
export CARGO_NET_OFFLINE=true
mkdir -p .cache evidence replays
python3 -m engine.warm || true
exit 0
