// Unit `inv_lib`: the item operations preserve index_inv (history induction for C01 / C18) (no extracted code)
#![allow(non_snake_case, unused, deprecated)]
use vstd::prelude::*;
verus! {
//@include lib/prelude.rs
//@include lib/specs_store.rs
//@include lib/forest.rs
//@include lib/forest_delete.rs
//@include lib/frozen.rs
//@include lib/forest_insert.rs
//@include lib/forest_make.rs
//@include lib/forest_drivers.rs
//@include lib/writeback.rs
//@include lib/forest_iict.rs
//@include lib/forest_incr.rs
//@include lib/inv_specs.rs
//@include lib/build_specs.rs
//@include lib/search_specs.rs
//@include lib/inv_store.rs
//@include lib/inv_search.rs
} // verus!
fn main() {}
