// Unit `writer_scans`: the prefix-scoped scans and deletes of the writer's build path, the single-bucket
// shortcut and the metric change (C07 frames, C06 mark consumption, C05 item ids, C15 single bucket, C18)
#![allow(non_snake_case, unused, deprecated)]
use vstd::prelude::*;
verus! {
//@include lib/prelude.rs
//@include lib/keys.rs
//@include lib/specs_store.rs

impl NodeId {
//@extract src/node_id.rs | impl NodeId | unwrap_item
//@subst
<<<
assert_eq!(self.mode, NodeMode::Item);
===
assert(self.mode == NodeMode::Item);
>>>
//@spec
    requires self.mode == NodeMode::Item
    ensures r == self.item
//@end
//@extract src/node_id.rs | impl NodeId | unwrap_tree
//@subst
<<<
assert_eq!(self.mode, NodeMode::Tree);
===
assert(self.mode == NodeMode::Tree);
>>>
//@spec
    requires self.mode == NodeMode::Tree
    ensures r == self.item
//@end
}

/// rule R7 targets: the crate version baked in at compile time
#[verifier::external_body] pub fn pkg_version_major_() -> (r: u32) ensures r == pkg_version().0 { unimplemented!() }
#[verifier::external_body] pub fn pkg_version_minor_() -> (r: u32) ensures r == pkg_version().1 { unimplemented!() }
#[verifier::external_body] pub fn pkg_version_patch_() -> (r: u32) ensures r == pkg_version().2 { unimplemented!() }
pub uninterp spec fn pkg_version() -> (u32, u32, u32);

pub open spec fn ids_before(keys: Seq<AKey>, pos: int) -> Set<u32> { keys.take(pos).map_values(|k: AKey| k.id).to_set() }

/// the second metric of prepare_changing_distance (uninterpreted, like Dist)
pub struct NDist { }
impl NDist {
    pub uninterp spec fn enc(v: Seq<f32>) -> VecV;
    pub uninterp spec fn new_header_spec(v: VecV) -> HeaderV;
    #[verifier::external_body]
    pub fn new_header(vector: &UVec) -> (r: Header) ensures r.hv() == NDist::new_header_spec(vector.vv()) { unimplemented!() }
}
impl UnalignedVector {
    /// `UnalignedVector::from_vec` at the new metric's codec (chosen by type inference in the real code)
    #[verifier::external_body]
    pub fn from_vec_nd_(vec: Vec<f32>) -> (r: UVec) ensures r.vv() == NDist::enc(vec@) { unimplemented!() }
    #[verifier::external_body]
    pub fn from_slice_nd_(slice: &[f32]) -> (r: UVec) ensures r.vv() == NDist::enc(slice@) { unimplemented!() }
}
// ---- std::any::TypeId over the two uninterpreted metrics and their vector codecs ----------------------------------------------------
/// each type that the code compares by TypeId carries an uninterpreted identity
pub trait TyMark { spec fn tid() -> int; }
pub uninterp spec fn tid_dist() -> int;
pub uninterp spec fn tid_ndist() -> int;
pub uninterp spec fn tid_dist_codec() -> int;
pub uninterp spec fn tid_ndist_codec() -> int;
pub struct DistCodec { }
pub struct NDistCodec { }
impl TyMark for Dist { open spec fn tid() -> int { tid_dist() } }
impl TyMark for NDist { open spec fn tid() -> int { tid_ndist() } }
impl TyMark for DistCodec { open spec fn tid() -> int { tid_dist_codec() } }
impl TyMark for NDistCodec { open spec fn tid() -> int { tid_ndist_codec() } }
/// `D::VectorCodec` (rule R1l writes it `<D as DistanceT>::VectorCodec`)
pub trait DistanceT { type VectorCodec: TyMark; }
impl DistanceT for Dist { type VectorCodec = DistCodec; }
impl DistanceT for NDist { type VectorCodec = NDistCodec; }
/// the type parameters of prepare_changing_distance
pub type D = Dist;
pub type ND = NDist;
pub struct TypeId { pub k: Ghost<int> }
impl TypeId {
    #[verifier::external_body]
    pub fn of<T: TyMark>() -> (r: TypeId) ensures r.k@ == T::tid() { unimplemented!() }
}
impl PartialEq for TypeId {
    #[verifier::external_body]
    fn eq(&self, other: &TypeId) -> (r: bool) ensures r == (self.k@ == other.k@) { unimplemented!() }
}
impl vstd::std_specs::cmp::PartialEqSpecImpl for TypeId {
    open spec fn obeys_eq_spec() -> bool { true }
    open spec fn eq_spec(&self, other: &TypeId) -> bool { self.k@ == other.k@ }
}
/// the same metric has one identity (and then one codec)
pub open spec fn same_metric() -> bool { tid_dist() == tid_ndist() }

pub open spec fn reencoded(old_leaf: AVal, dims: int) -> AVal {
    match old_leaf {
        AVal::Leaf(l) => AVal::Leaf(LeafV { header: NDist::new_header_spec(NDist::enc(trunc(Dist::dec(l.vector), dims))),
                                           vector: NDist::enc(trunc(Dist::dec(l.vector), dims)) }),
        other => other,
    }
}

pub proof fn lemma_tree_range(i: u16, k: AKey)
    ensures Sel::Rng(Bound::Incl(tkey(i, 0)), Bound::Incl(tkey(i, u32::MAX))).has(k) <==> (k.index == i && k.kind == NodeMode::Tree)
{
}

impl Writer {
// (callee available to edits of the scans below; its contract is proved in unit `store`)
//@extract src/writer.rs | impl<D: Distance> Writer<D> | contains_item
//@stub
//@specfile lib/contracts/contains_item.spec
//@end
//@extract src/writer.rs | impl<D: Distance> Writer<D> | item_indices
//@attr #[verifier::exec_allows_no_decreases_clause]
//@specfile lib/contracts/item_indices.spec
//@loop 0
        invariant
            wtxn.view() == old(wtxn).view(),
            iter__0.wf(old(wtxn).view(), Prefix { index: self.index, mode: Some(NodeMode::Item) }),
            forall|id: u32| indices@.contains(id) <==> (exists|j: int| 0 <= j < iter__0.pos@ && #[trigger] iter__0.keys@[j] == ikey(self.index, id)),
        ensures
            iter__0.pos@ == iter__0.keys@.len(),
//@loopstart 0
            let ghost pos0 = iter__0.pos@ - 1;
            let ghost before = indices@;
//@loopend 0
            proof {
                let kx = iter__0.keys@[pos0];
                assert(kx.index == self.index && kx.kind == NodeMode::Item);
                assert forall|y: u32| before.contains(y) implies y < kx.id by {
                    let j = choose|j: int| 0 <= j < pos0 && iter__0.keys@[j] == ikey(self.index, y);
                    assert(akey_lt(iter__0.keys@[j], iter__0.keys@[pos0]));
                }
                assert(kx == ikey(self.index, kx.id));
            }
//@end

//@extract src/writer.rs | impl<D: Distance> Writer<D> | reset_and_retrieve_updated_items
//@attr #[verifier::exec_allows_no_decreases_clause]
//@specfile lib/contracts/reset_and_retrieve_updated_items.spec
//@loop 0
        invariant
            wtxn.view() == updated_iter.cur@,
            is_listing(old(wtxn).view(), Prefix { index: self.index, mode: Some(NodeMode::Updated) }, updated_iter.keys@),
            0 <= updated_iter.pos@ <= updated_iter.keys@.len(),
            !updated_iter.live@,
            same_except(old(wtxn).view(), wtxn.view(), self.index, false, false, true, false),
            only_removed(old(wtxn).view(), wtxn.view()),
            forall|j: int| 0 <= j < updated_iter.pos@ ==> !wtxn.view().contains_key(#[trigger] updated_iter.keys@[j]),
            forall|j: int| updated_iter.pos@ <= j < updated_iter.keys@.len() ==> wtxn.view().contains_key(#[trigger] updated_iter.keys@[j]),
            forall|id: u32| updated_items@.contains(id) <==> (exists|j: int| 0 <= j < updated_iter.pos@ && #[trigger] updated_iter.keys@[j] == ukey(self.index, id)),
        ensures
            updated_iter.pos@ == updated_iter.keys@.len(),
//@loopstart 0
            let ghost pos0 = updated_iter.pos@ - 1;
            let ghost before = updated_items@;
//@loopend 0
            proof {
                let kx = updated_iter.keys@[pos0];
                assert(kx.index == self.index && kx.kind == NodeMode::Updated);
                assert forall|y: u32| before.contains(y) implies y < kx.id by {
                    let j = choose|j: int| 0 <= j < pos0 && updated_iter.keys@[j] == ukey(self.index, y);
                    assert(akey_lt(updated_iter.keys@[j], updated_iter.keys@[pos0]));
                }
                assert(kx == ukey(self.index, kx.id));
                assert forall|j: int| updated_iter.pos@ <= j < updated_iter.keys@.len() implies wtxn.view().contains_key(#[trigger] updated_iter.keys@[j]) by {
                    assert(akey_lt(updated_iter.keys@[pos0], updated_iter.keys@[j]));
                }
            }
//@end

//@extract src/writer.rs | impl<D: Distance> Writer<D> | clear_db_and_create_a_single_leaf
//@hint before <<<let mut roots = Vec::new();>>>
        proof {
            let v0 = old(wtxn).view(); let v1 = wtxn.view();
            assert forall|k: AKey| !(k.index == self.index && (k.kind == NodeMode::Tree || k.kind == NodeMode::Metadata))
                implies (#[trigger] v0.contains_key(k) == v1.contains_key(k) && (v0.contains_key(k) ==> v0[k] == v1[k])) by {
                lemma_tree_range(self.index, k);
                assert(v1.contains_key(k) == v1.contains_key(k));
            }
            assert forall|k: AKey| k.index == self.index && k.kind == NodeMode::Tree implies !v1.contains_key(k) by { lemma_tree_range(self.index, k); }
            assert(same_except(v0, v1, self.index, true, false, false, true));
        }
//@hint before <<<let version = Version {>>>
        assert(same_except(old(wtxn).view(), wtxn.view(), self.index, true, false, false, true));
//@subst
<<<
env!("CARGO_PKG_VERSION_MAJOR").parse().unwrap()
===
pkg_version_major_()
>>>
//@subst
<<<
env!("CARGO_PKG_VERSION_MINOR").parse().unwrap()
===
pkg_version_minor_()
>>>
//@subst
<<<
env!("CARGO_PKG_VERSION_PATCH").parse().unwrap()
===
pkg_version_patch_()
>>>
//@specfile lib/contracts/clear_db_and_create_a_single_leaf.spec
//@end

//@extract src/writer.rs | impl<D: Distance> Writer<D> | prepare_changing_distance
//@attr #[verifier::exec_allows_no_decreases_clause]
//@subst count=any
<<<
UnalignedVector::from_vec(
===
UnalignedVector::from_vec_nd_(
>>>
//@subst count=any
<<<
UnalignedVector::from_slice(
===
UnalignedVector::from_slice_nd_(
>>>
//@subst
<<<
Node::Descendants(_) | Node::SplitPlaneNormal(_) => panic!(),
===
Node::Descendants(_) | Node::SplitPlaneNormal(_) => { assert(false); loop {} },
>>>
//@spec
    requires items_are_leaves(old(wtxn).view(), self.index),
    ensures
        // C18: asking for the same metric changes nothing
        same_metric() ==> final(wtxn).view() == old(wtxn).view(),
        // C07: other indexes, marks and the version record are untouched
        other_indexes_unchanged(old(wtxn).view(), final(wtxn).view(), self.index),
        forall|k: AKey| k.index == self.index && k.kind == NodeMode::Updated ==> (#[trigger] old(wtxn).view().contains_key(k) == final(wtxn).view().contains_key(k)),
        r matches Err(e) ==> e is Heed,
        // C18: the item key set is kept
        forall|k: AKey| k.index == self.index && k.kind == NodeMode::Item ==> (#[trigger] old(wtxn).view().contains_key(k) == final(wtxn).view().contains_key(k)),
        r matches Ok(w) ==> w.index == self.index && w.dimensions == self.dimensions && (!same_metric() ==> ({
            let v = final(wtxn).view();
            // the forest and the metadata are gone: the index demands a build (C06) ...
            &&& !v.contains_key(mkey(self.index))
            &&& (forall|k: AKey| k.index == self.index && k.kind == NodeMode::Tree ==> !v.contains_key(k))
            // ... and every leaf is re-encoded for the new metric at the declared dimension
            &&& (forall|k: AKey| k.index == self.index && k.kind == NodeMode::Item && #[trigger] v.contains_key(k) ==>
                    v[k] == reencoded(old(wtxn).view()[k], self.dimensions as int))
        })),
//@loop 0
        invariant
            wtxn.view() == cursor.cur@,
            0 <= cursor.pos@ <= cursor.keys@.len(),
            !same_metric(),
            items_are_leaves(old(wtxn).view(), self.index),
            is_listing(wtxn.view(), Prefix { index: self.index, mode: Some(NodeMode::Item) }, cursor.keys@),
            forall|j: int| 0 <= j < cursor.keys@.len() ==> old(wtxn).view().contains_key(#[trigger] cursor.keys@[j]) && cursor.keys@[j].index == self.index && cursor.keys@[j].kind == NodeMode::Item,
            forall|k: AKey| k.index == self.index && k.kind == NodeMode::Item ==> (#[trigger] old(wtxn).view().contains_key(k) == wtxn.view().contains_key(k)),
            other_indexes_unchanged(old(wtxn).view(), wtxn.view(), self.index),
            forall|k: AKey| k.index == self.index && k.kind == NodeMode::Updated ==> (#[trigger] old(wtxn).view().contains_key(k) == wtxn.view().contains_key(k)),
            !wtxn.view().contains_key(mkey(self.index)),
            forall|k: AKey| k.index == self.index && k.kind == NodeMode::Tree ==> !wtxn.view().contains_key(k),
            forall|j: int| 0 <= j < cursor.pos@ ==> wtxn.view()[#[trigger] cursor.keys@[j]] == reencoded(old(wtxn).view()[cursor.keys@[j]], self.dimensions as int),
            forall|j: int| cursor.pos@ <= j < cursor.keys@.len() ==> wtxn.view()[#[trigger] cursor.keys@[j]] == old(wtxn).view()[cursor.keys@[j]],
        ensures
            cursor.pos@ == cursor.keys@.len(),
//@loopend 0
            proof {
                assert forall|j: int| cursor.pos@ <= j < cursor.keys@.len() implies wtxn.view()[#[trigger] cursor.keys@[j]] == old(wtxn).view()[cursor.keys@[j]] by {
                    assert(akey_lt(cursor.keys@[cursor.pos@ - 1], cursor.keys@[j]));
                }
            }
//@end
}

//@extract src/writer.rs | - | clear_tree_nodes
//@attr #[verifier::exec_allows_no_decreases_clause]
//@spec
    ensures
        // C07: only the metadata record and the tree keys of this index are touched, and only removed
        same_except(old(wtxn).view(), final(wtxn).view(), index, true, false, false, true),
        only_removed(old(wtxn).view(), final(wtxn).view()),
        old(wtxn).view().contains_key(vkey(index)) ==> final(wtxn).view().contains_key(vkey(index)),
        r matches Err(e) ==> e is Heed,
        // C06 / C18: on success the metadata and every tree node are gone
        r is Ok ==> !final(wtxn).view().contains_key(mkey(index))
            && (forall|k: AKey| k.index == index && k.kind == NodeMode::Tree ==> !final(wtxn).view().contains_key(k)),
//@loop 0
        invariant
            wtxn.view() == cursor.cur@,
            is_listing(cursor.init@, Prefix { index: index, mode: Some(NodeMode::Tree) }, cursor.keys@),
            cursor.init@ == old(wtxn).view().remove(mkey(index)),
            only_removed(cursor.init@, wtxn.view()),
            0 <= cursor.pos@ <= cursor.keys@.len(),
            !cursor.live@,
            !wtxn.view().contains_key(mkey(index)),
            same_except(old(wtxn).view(), wtxn.view(), index, true, false, false, true),
            only_removed(old(wtxn).view(), wtxn.view()),
            old(wtxn).view().contains_key(vkey(index)) ==> wtxn.view().contains_key(vkey(index)),
            forall|j: int| 0 <= j < cursor.pos@ ==> !wtxn.view().contains_key(#[trigger] cursor.keys@[j]),
        ensures
            cursor.pos@ == cursor.keys@.len(),
//@end

} // verus!
fn main() {}
