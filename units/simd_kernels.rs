// Unit `simd_kernels`: the vectorised distance kernels (AVX, SSE), their horizontal sums and the dispatch in spaces/simple.rs (C11)
// What is decided: STRUCTURE, not floating-point values. Every float is replaced by a ghost term (rule: `f32` -> `F32` in these
// functions); the contracts say that the result is a sum in which each index 0..n contributes exactly once, as (v1[i]-v2[i])^2
// resp. v1[i]*v2[i] with both operands at the SAME index, and that every pointer offset and every load is in bounds.
#![allow(non_snake_case, non_camel_case_types, unused, deprecated)]
use vstd::prelude::*;
use vstd::std_specs::ops::*;
use vstd::set_lib::set_int_range;
verus! {
global size_of usize == 8;

/// ghost term of a scalar: an element of v1 / v2, their difference, one summand, or a sum of summands (by index set)
pub enum K { E1(int), E2(int), Diff(int), Sq(int), Prod(int), Zero, SumSq(Set<int>), SumProd(Set<int>), Bad }
pub open spec fn ksub(a: K, b: K) -> K { match (a, b) { (K::E1(i), K::E2(j)) => if i == j { K::Diff(i) } else { K::Bad }, _ => K::Bad } }
pub open spec fn kmul(a: K, b: K) -> K {
    match (a, b) {
        (K::Diff(i), K::Diff(j)) => if i == j { K::Sq(i) } else { K::Bad },
        (K::E1(i), K::E2(j)) => if i == j { K::Prod(i) } else { K::Bad },
        _ => K::Bad,
    }
}
pub open spec fn ksum(a: K) -> K { match a { K::Sq(i) => K::SumSq(set![i]), K::Prod(i) => K::SumProd(set![i]), K::SumSq(s) => a, K::SumProd(s) => a, K::Zero => a, _ => K::Bad } }
/// addition: summands are collected by index; the same index twice, or mixing the two kinds of summand, is Bad
pub open spec fn kadd(a: K, b: K) -> K {
    match (ksum(a), ksum(b)) {
        (K::Zero, y) => y,
        (x, K::Zero) => x,
        (K::SumSq(s), K::SumSq(t)) => if s.disjoint(t) { K::SumSq(s.union(t)) } else { K::Bad },
        (K::SumProd(s), K::SumProd(t)) => if s.disjoint(t) { K::SumProd(s.union(t)) } else { K::Bad },
        _ => K::Bad,
    }
}
/// the expected result: every index below n exactly once
pub open spec fn full(n: int, sq: bool) -> K { if n <= 0 { K::Zero } else if sq { K::SumSq(set_int_range(0, n)) } else { K::SumProd(set_int_range(0, n)) } }
/// indices below i whose residue modulo w is c: what lane c of an accumulator holds after i elements
pub open spec fn stripe(i: int, c: int, w: int) -> Set<int> { set_int_range(0, i).filter(|x: int| x % w == c) }
pub open spec fn acc(i: int, c: int, w: int, sq: bool) -> K { if i <= 0 { K::Zero } else if sq { K::SumSq(stripe(i, c, w)) } else { K::SumProd(stripe(i, c, w)) } }
/// indices below i whose residue modulo w lies in [lo, hi)
pub open spec fn band(i: int, lo: int, hi: int, w: int) -> Set<int> { set_int_range(0, i).filter(|x: int| lo <= x % w < hi) }
pub open spec fn bandk(i: int, lo: int, hi: int, w: int, sq: bool) -> K { if i <= 0 { K::Zero } else if sq { K::SumSq(band(i, lo, hi, w)) } else { K::SumProd(band(i, lo, hi, w)) } }

// ---- stand-in for f32 in these functions -----------------------------------------------------------------------------------
#[derive(Copy, Clone)]
pub struct F32 { pub k: Ghost<K> }
impl core::ops::Sub for F32 { type Output = F32; fn sub(self, rhs: F32) -> (r: F32) { F32 { k: Ghost(ksub(self.k@, rhs.k@)) } } }
impl SubSpecImpl<F32> for F32 {
    open spec fn obeys_sub_spec() -> bool { true }
    open spec fn sub_req(self, rhs: F32) -> bool { true }
    open spec fn sub_spec(self, rhs: F32) -> F32 { F32 { k: Ghost(ksub(self.k@, rhs.k@)) } }
}
impl core::ops::Mul for F32 { type Output = F32; fn mul(self, rhs: F32) -> (r: F32) { F32 { k: Ghost(kmul(self.k@, rhs.k@)) } } }
impl MulSpecImpl<F32> for F32 {
    open spec fn obeys_mul_spec() -> bool { true }
    open spec fn mul_req(self, rhs: F32) -> bool { true }
    open spec fn mul_spec(self, rhs: F32) -> F32 { F32 { k: Ghost(kmul(self.k@, rhs.k@)) } }
}
impl core::ops::Add for F32 { type Output = F32; fn add(self, rhs: F32) -> (r: F32) { F32 { k: Ghost(kadd(self.k@, rhs.k@)) } } }
impl AddSpecImpl<F32> for F32 {
    open spec fn obeys_add_spec() -> bool { true }
    open spec fn add_req(self, rhs: F32) -> bool { true }
    open spec fn add_spec(self, rhs: F32) -> F32 { F32 { k: Ghost(kadd(self.k@, rhs.k@)) } }
}
impl F32 {
    /// x.powi(2) = x * x
    pub fn powi(self, e: i32) -> (r: F32) ensures r.k@ == (if e == 2 { kmul(self.k@, self.k@) } else { K::Bad }) { F32 { k: Ghost(if e == 2 { kmul(self.k@, self.k@) } else { K::Bad }) } }
}

// ---- pointers into the two vectors: (which vector, offset in elements, length) -------------------------------------------------
#[derive(Copy, Clone)]
pub struct PtrF { pub base: Ghost<int>, pub off: usize, pub n: Ghost<int> }
impl PtrF {
    /// `ptr.add(k)`: must stay inside the allocation or one past its end (the rule of pointer::add)
    pub fn add(self, k: usize) -> (r: PtrF) requires self.off + k <= self.n@ ensures r == (PtrF { base: self.base, off: (self.off + k) as usize, n: self.n })
    { proof { assume(self.n@ <= usize::MAX); } PtrF { base: self.base, off: self.off + k, n: self.n } }
}
pub open spec fn elem(base: int, i: int) -> K { if base == 1 { K::E1(i) } else { K::E2(i) } }
/// `read_unaligned(ptr)`: reads one element, which must exist
#[verifier::external_body]
pub fn read_unaligned(p: PtrF) -> (r: F32) requires p.off < p.n@ ensures r.k@ == elem(p.base@, p.off as int) { unimplemented!() }
pub struct UnalignedVector<T> { pub id: Ghost<int>, pub n: usize, pub _t: core::marker::PhantomData<T> }
impl UnalignedVector<F32> {
    pub fn len(&self) -> (r: usize) ensures r == self.n { self.n }
    /// substitution target for `v.as_ptr() as *const f32`
    pub fn as_fptr_(&self) -> (r: PtrF) ensures r == (PtrF { base: self.id, off: 0, n: Ghost(self.n as int) }) { PtrF { base: self.id, off: 0, n: Ghost(self.n as int) } }
}

// ---- SIMD registers as sequences of lane terms; intrinsics as lane-wise operations / permutations ----------------------------
#[derive(Copy, Clone)]
pub struct __m256 { pub l: Ghost<Seq<K>> }
#[derive(Copy, Clone)]
pub struct __m128 { pub l: Ghost<Seq<K>> }
#[verifier::external_body] pub fn _mm256_setzero_ps() -> (r: __m256) ensures r.l@ == Seq::new(8, |k: int| K::Zero) { unimplemented!() }
#[verifier::external_body] pub fn _mm_setzero_ps() -> (r: __m128) ensures r.l@ == Seq::new(4, |k: int| K::Zero) { unimplemented!() }
/// unaligned load of 8 (4) consecutive elements: all of them must exist
#[verifier::external_body] pub fn _mm256_loadu_ps(p: PtrF) -> (r: __m256) requires p.off + 8 <= p.n@ ensures r.l@ == Seq::new(8, |k: int| elem(p.base@, p.off + k)) { unimplemented!() }
#[verifier::external_body] pub fn _mm_loadu_ps(p: PtrF) -> (r: __m128) requires p.off + 4 <= p.n@ ensures r.l@ == Seq::new(4, |k: int| elem(p.base@, p.off + k)) { unimplemented!() }
#[verifier::external_body] pub fn _mm256_sub_ps(a: __m256, b: __m256) -> (r: __m256) requires a.l@.len() == 8, b.l@.len() == 8 ensures r.l@ == Seq::new(8, |k: int| ksub(a.l@[k], b.l@[k])) { unimplemented!() }
#[verifier::external_body] pub fn _mm256_fmadd_ps(a: __m256, b: __m256, c: __m256) -> (r: __m256) requires a.l@.len() == 8, b.l@.len() == 8, c.l@.len() == 8 ensures r.l@ == Seq::new(8, |k: int| kadd(kmul(a.l@[k], b.l@[k]), c.l@[k])) { unimplemented!() }
#[verifier::external_body] pub fn _mm_sub_ps(a: __m128, b: __m128) -> (r: __m128) requires a.l@.len() == 4, b.l@.len() == 4 ensures r.l@ == Seq::new(4, |k: int| ksub(a.l@[k], b.l@[k])) { unimplemented!() }
#[verifier::external_body] pub fn _mm_mul_ps(a: __m128, b: __m128) -> (r: __m128) requires a.l@.len() == 4, b.l@.len() == 4 ensures r.l@ == Seq::new(4, |k: int| kmul(a.l@[k], b.l@[k])) { unimplemented!() }
#[verifier::external_body] pub fn _mm_add_ps(a: __m128, b: __m128) -> (r: __m128) requires a.l@.len() == 4, b.l@.len() == 4 ensures r.l@ == Seq::new(4, |k: int| kadd(a.l@[k], b.l@[k])) { unimplemented!() }
/// upper (imm = 1) / lower half of a 256-bit register
#[verifier::external_body] pub fn _mm256_extractf128_ps(a: __m256, imm: i32) -> (r: __m128) requires a.l@.len() == 8, imm == 0 || imm == 1 ensures r.l@ == Seq::new(4, |k: int| a.l@[4 * imm + k]) { unimplemented!() }
#[verifier::external_body] pub fn _mm256_castps256_ps128(a: __m256) -> (r: __m128) requires a.l@.len() == 8 ensures r.l@ == Seq::new(4, |k: int| a.l@[k]) { unimplemented!() }
/// movehl(a, b) = [b2, b3, a2, a3]
#[verifier::external_body] pub fn _mm_movehl_ps(a: __m128, b: __m128) -> (r: __m128) requires a.l@.len() == 4, b.l@.len() == 4 ensures r.l@ == seq![b.l@[2], b.l@[3], a.l@[2], a.l@[3]] { unimplemented!() }
/// shuffle(a, b, imm): lanes 0,1 from a, lanes 2,3 from b, selected by the four 2-bit fields of imm
#[verifier::external_body] pub fn _mm_shuffle_ps(a: __m128, b: __m128, imm: i32) -> (r: __m128) requires a.l@.len() == 4, b.l@.len() == 4, 0 <= imm < 256
    ensures r.l@ == seq![a.l@[(imm % 4) as int], a.l@[((imm / 4) % 4) as int], b.l@[((imm / 16) % 4) as int], b.l@[((imm / 64) % 4) as int]] { unimplemented!() }
/// add_ss(a, b) = [a0 + b0, a1, a2, a3]
#[verifier::external_body] pub fn _mm_add_ss(a: __m128, b: __m128) -> (r: __m128) requires a.l@.len() == 4, b.l@.len() == 4 ensures r.l@ == seq![kadd(a.l@[0], b.l@[0]), a.l@[1], a.l@[2], a.l@[3]] { unimplemented!() }
#[verifier::external_body] pub fn _mm_cvtss_F32(a: __m128) -> (r: F32) requires a.l@.len() == 4 ensures r.k@ == a.l@[0] { unimplemented!() }

// ---- lemmas about stripes and bands ---------------------------------------------------------------------------------------------
pub proof fn lemma_stripe_step32(i: int, c: int)
    requires i >= 0, i % 32 == 0, 0 <= c < 32
    ensures stripe(i + 32, c, 32) =~= stripe(i, c, 32).insert(i + c), !stripe(i, c, 32).contains(i + c)
{
}
pub proof fn lemma_stripe_step16(i: int, c: int)
    requires i >= 0, i % 16 == 0, 0 <= c < 16
    ensures stripe(i + 16, c, 16) =~= stripe(i, c, 16).insert(i + c), !stripe(i, c, 16).contains(i + c)
{
}
/// one unrolled step: lane of residue c gains the summand of index i + c
pub proof fn lemma_acc_step(i: int, c: int, w: int, sq: bool)
    requires i >= 0, (w == 32 || w == 16), i % w == 0, 0 <= c < w
    ensures kadd(if sq { K::Sq(i + c) } else { K::Prod(i + c) }, acc(i, c, w, sq)) == acc(i + w, c, w, sq),
        kadd(acc(i, c, w, sq), if sq { K::Sq(i + c) } else { K::Prod(i + c) }) == acc(i + w, c, w, sq),
{
    if w == 32 { lemma_stripe_step32(i, c); } else { lemma_stripe_step16(i, c); }
    assert(stripe(i + w, c, w) =~= stripe(i, c, w).union(set![i + c]));
    assert(stripe(i + w, c, w) =~= set![i + c].union(stripe(i, c, w)));
    if i == 0 { assert(stripe(0, c, w) =~= Set::<int>::empty()); assert(stripe(w, c, w) =~= set![c]); }
}
/// the 8 lanes of an AVX accumulator (residues lo..lo+8 modulo 32) add up to the band
pub proof fn lemma_hsum8(l: Seq<K>, i: int, lo: int, sq: bool)
    requires l.len() == 8, i >= 0, i % 32 == 0, lo == 0 || lo == 8 || lo == 16 || lo == 24, forall|k: int| 0 <= k < 8 ==> l[k] == acc(i, lo + k, 32, sq)
    ensures hsum8(l) == bandk(i, lo, lo + 8, 32, sq)
{
    if i > 0 {
        let a = stripe(i, lo + 4, 32).union(stripe(i, lo, 32)); let b = stripe(i, lo + 6, 32).union(stripe(i, lo + 2, 32));
        let c = stripe(i, lo + 5, 32).union(stripe(i, lo + 1, 32)); let d = stripe(i, lo + 7, 32).union(stripe(i, lo + 3, 32));
        assert(band(i, lo, lo + 8, 32) =~= a.union(b).union(c.union(d)));
    }
}
/// the 4 lanes of an SSE accumulator (residues lo..lo+4 modulo 16)
pub proof fn lemma_hsum4(l: Seq<K>, i: int, lo: int, sq: bool)
    requires l.len() == 4, i >= 0, i % 16 == 0, lo == 0 || lo == 4 || lo == 8 || lo == 12, forall|k: int| 0 <= k < 4 ==> l[k] == acc(i, lo + k, 16, sq)
    ensures hsum4(l) == bandk(i, lo, lo + 4, 16, sq)
{
    if i > 0 {
        assert(band(i, lo, lo + 4, 16) =~= stripe(i, lo, 16).union(stripe(i, lo + 2, 16)).union(stripe(i, lo + 1, 16).union(stripe(i, lo + 3, 16))));
    }
}
/// the four accumulators together cover every index below i
pub proof fn lemma_total(i: int, w: int, sq: bool)
    requires i >= 0, (w == 32 || w == 16), i % w == 0
    ensures kadd(kadd(kadd(bandk(i, 0, w / 4, w, sq), bandk(i, w / 4, w / 2, w, sq)), bandk(i, w / 2, 3 * w / 4, w, sq)), bandk(i, 3 * w / 4, w, w, sq)) == full(i, sq)
{
    if i > 0 {
        assert(set_int_range(0, i) =~= band(i, 0, w / 4, w).union(band(i, w / 4, w / 2, w)).union(band(i, w / 2, 3 * w / 4, w)).union(band(i, 3 * w / 4, w, w)));
    }
}
/// one more element in the remainder loop
pub proof fn lemma_full_step(j: int, sq: bool)
    requires j >= 0
    ensures kadd(full(j, sq), if sq { K::Sq(j) } else { K::Prod(j) }) == full(j + 1, sq)
{
    assert(set_int_range(0, j + 1) =~= set_int_range(0, j).union(set![j]));
    if j == 0 { assert(set_int_range(0, 1) =~= set![0int]); }
}
/// the association in which hsum256_ps_avx adds the 8 lanes (each exactly once)
pub open spec fn hsum8(l: Seq<K>) -> K { kadd(kadd(kadd(l[4], l[0]), kadd(l[6], l[2])), kadd(kadd(l[5], l[1]), kadd(l[7], l[3]))) }
/// the association in which hsum128_ps_sse adds the 4 lanes
pub open spec fn hsum4(l: Seq<K>) -> K { kadd(kadd(l[0], l[2]), kadd(l[1], l[3])) }

//@extract src/spaces/simple_avx.rs | - | hsum256_ps_avx
//@subst count=any
<<<
f32
===
F32
>>>
//@spec
    requires x.l@.len() == 8
    ensures r.k@ == hsum8(x.l@)     // every lane is added exactly once
//@end

//@extract src/spaces/simple_sse.rs | - | hsum128_ps_sse
//@subst count=any
<<<
f32
===
F32
>>>
//@spec
    requires x.l@.len() == 4
    ensures r.k@ == hsum4(x.l@)
//@end


//@extract src/spaces/simple_avx.rs | - | euclid_similarity_avx
//@subst count=any
<<<
f32
===
F32
>>>
//@subst count=any
<<<
.as_ptr() as *const F32
===
.as_fptr_()
>>>
//@subst count=any
<<<
result += (a - b).powi(2);
===
result = result + (a - b).powi(2);
>>>
//@loop 0
        invariant
            n == v1.n, n == v2.n, m == n - n % 32, i <= m, i % 32 == 0,
            ptr1 == (PtrF { base: v1.id, off: i, n: Ghost(n as int) }), ptr2 == (PtrF { base: v2.id, off: i, n: Ghost(n as int) }), v1.id@ == 1, v2.id@ == 2,
            sum256_1.l@.len() == 8, forall|k: int| 0 <= k < 8 ==> #[trigger] sum256_1.l@[k] == acc(i as int, 0 + k, 32, true),
            sum256_2.l@.len() == 8, forall|k: int| 0 <= k < 8 ==> #[trigger] sum256_2.l@[k] == acc(i as int, 8 + k, 32, true),
            sum256_3.l@.len() == 8, forall|k: int| 0 <= k < 8 ==> #[trigger] sum256_3.l@[k] == acc(i as int, 16 + k, 32, true),
            sum256_4.l@.len() == 8, forall|k: int| 0 <= k < 8 ==> #[trigger] sum256_4.l@[k] == acc(i as int, 24 + k, 32, true),
//@loopstart 0
        let ghost i0 = i as int;
//@loopend 0
        proof {
            assert forall|c: int| 0 <= c < 32 implies kadd(K::Sq(i0 + c), #[trigger] acc(i0, c, 32, true)) == acc(i0 + 32, c, 32, true) by { lemma_acc_step(i0, c, 32, true); }
            assert forall|k: int| 0 <= k < 8 implies #[trigger] sum256_1.l@[k] == acc(i0 + 32, 0 + k, 32, true) by { assert(kadd(K::Sq(i0 + 0 + k), acc(i0, 0 + k, 32, true)) == acc(i0 + 32, 0 + k, 32, true)); }
            assert forall|k: int| 0 <= k < 8 implies #[trigger] sum256_2.l@[k] == acc(i0 + 32, 8 + k, 32, true) by { assert(kadd(K::Sq(i0 + 8 + k), acc(i0, 8 + k, 32, true)) == acc(i0 + 32, 8 + k, 32, true)); }
            assert forall|k: int| 0 <= k < 8 implies #[trigger] sum256_3.l@[k] == acc(i0 + 32, 16 + k, 32, true) by { assert(kadd(K::Sq(i0 + 16 + k), acc(i0, 16 + k, 32, true)) == acc(i0 + 32, 16 + k, 32, true)); }
            assert forall|k: int| 0 <= k < 8 implies #[trigger] sum256_4.l@[k] == acc(i0 + 32, 24 + k, 32, true) by { assert(kadd(K::Sq(i0 + 24 + k), acc(i0, 24 + k, 32, true)) == acc(i0 + 32, 24 + k, 32, true)); }
        }
//@hint before <<<let mut cnti__: u64>>>
        proof { lemma_hsum8(sum256_1.l@, m as int, 0, true); lemma_hsum8(sum256_2.l@, m as int, 8, true); lemma_hsum8(sum256_3.l@, m as int, 16, true); lemma_hsum8(sum256_4.l@, m as int, 24, true); lemma_total(m as int, 32, true); }
//@loop 1
        invariant
            n == v1.n, n == v2.n, m <= n, m == n - n % 32, cnti__ <= n - m,
            ptr1 == (PtrF { base: v1.id, off: m, n: Ghost(n as int) }), ptr2 == (PtrF { base: v2.id, off: m, n: Ghost(n as int) }), v1.id@ == 1, v2.id@ == 2,
            result.k@ == full(m + cnti__, true),
//@loopstart 1
        let ghost j0 = m + cnti__;
//@loopend 1
        proof { lemma_full_step(j0 as int, true); }
//@spec
    requires v1.id@ == 1, v2.id@ == 2, v1.n == v2.n     // the two vectors have the same length (the callers pass vectors of the declared dimension)
    ensures r.k@ == full(v1.n as int, true)           // each index 0..n contributes exactly once; every load / pointer offset is in bounds (stand-in preconditions)
//@end

//@extract src/spaces/simple_avx.rs | - | dot_similarity_avx
//@subst count=any
<<<
f32
===
F32
>>>
//@subst count=any
<<<
.as_ptr() as *const F32
===
.as_fptr_()
>>>
//@subst count=any
<<<
result += a * b;
===
result = result + a * b;
>>>
//@loop 0
        invariant
            n == v1.n, n == v2.n, m == n - n % 32, i <= m, i % 32 == 0,
            ptr1 == (PtrF { base: v1.id, off: i, n: Ghost(n as int) }), ptr2 == (PtrF { base: v2.id, off: i, n: Ghost(n as int) }), v1.id@ == 1, v2.id@ == 2,
            sum256_1.l@.len() == 8, forall|k: int| 0 <= k < 8 ==> #[trigger] sum256_1.l@[k] == acc(i as int, 0 + k, 32, false),
            sum256_2.l@.len() == 8, forall|k: int| 0 <= k < 8 ==> #[trigger] sum256_2.l@[k] == acc(i as int, 8 + k, 32, false),
            sum256_3.l@.len() == 8, forall|k: int| 0 <= k < 8 ==> #[trigger] sum256_3.l@[k] == acc(i as int, 16 + k, 32, false),
            sum256_4.l@.len() == 8, forall|k: int| 0 <= k < 8 ==> #[trigger] sum256_4.l@[k] == acc(i as int, 24 + k, 32, false),
//@loopstart 0
        let ghost i0 = i as int;
//@loopend 0
        proof {
            assert forall|c: int| 0 <= c < 32 implies kadd(K::Prod(i0 + c), #[trigger] acc(i0, c, 32, false)) == acc(i0 + 32, c, 32, false) by { lemma_acc_step(i0, c, 32, false); }
            assert forall|k: int| 0 <= k < 8 implies #[trigger] sum256_1.l@[k] == acc(i0 + 32, 0 + k, 32, false) by { assert(kadd(K::Prod(i0 + 0 + k), acc(i0, 0 + k, 32, false)) == acc(i0 + 32, 0 + k, 32, false)); }
            assert forall|k: int| 0 <= k < 8 implies #[trigger] sum256_2.l@[k] == acc(i0 + 32, 8 + k, 32, false) by { assert(kadd(K::Prod(i0 + 8 + k), acc(i0, 8 + k, 32, false)) == acc(i0 + 32, 8 + k, 32, false)); }
            assert forall|k: int| 0 <= k < 8 implies #[trigger] sum256_3.l@[k] == acc(i0 + 32, 16 + k, 32, false) by { assert(kadd(K::Prod(i0 + 16 + k), acc(i0, 16 + k, 32, false)) == acc(i0 + 32, 16 + k, 32, false)); }
            assert forall|k: int| 0 <= k < 8 implies #[trigger] sum256_4.l@[k] == acc(i0 + 32, 24 + k, 32, false) by { assert(kadd(K::Prod(i0 + 24 + k), acc(i0, 24 + k, 32, false)) == acc(i0 + 32, 24 + k, 32, false)); }
        }
//@hint before <<<let mut cnti__: u64>>>
        proof { lemma_hsum8(sum256_1.l@, m as int, 0, false); lemma_hsum8(sum256_2.l@, m as int, 8, false); lemma_hsum8(sum256_3.l@, m as int, 16, false); lemma_hsum8(sum256_4.l@, m as int, 24, false); lemma_total(m as int, 32, false); }
//@loop 1
        invariant
            n == v1.n, n == v2.n, m <= n, m == n - n % 32, cnti__ <= n - m,
            ptr1 == (PtrF { base: v1.id, off: m, n: Ghost(n as int) }), ptr2 == (PtrF { base: v2.id, off: m, n: Ghost(n as int) }), v1.id@ == 1, v2.id@ == 2,
            result.k@ == full(m + cnti__, false),
//@loopstart 1
        let ghost j0 = m + cnti__;
//@loopend 1
        proof { lemma_full_step(j0 as int, false); }
//@spec
    requires v1.id@ == 1, v2.id@ == 2, v1.n == v2.n     // the two vectors have the same length (the callers pass vectors of the declared dimension)
    ensures r.k@ == full(v1.n as int, false)           // each index 0..n contributes exactly once; every load / pointer offset is in bounds (stand-in preconditions)
//@end

//@extract src/spaces/simple_sse.rs | - | euclid_similarity_sse
//@subst count=any
<<<
f32
===
F32
>>>
//@subst count=any
<<<
.as_ptr() as *const F32
===
.as_fptr_()
>>>
//@subst count=any
<<<
result += (a - b).powi(2);
===
result = result + (a - b).powi(2);
>>>
//@loop 0
        invariant
            n == v1.n, n == v2.n, m == n - n % 16, i <= m, i % 16 == 0,
            ptr1 == (PtrF { base: v1.id, off: i, n: Ghost(n as int) }), ptr2 == (PtrF { base: v2.id, off: i, n: Ghost(n as int) }), v1.id@ == 1, v2.id@ == 2,
            sum128_1.l@.len() == 4, forall|k: int| 0 <= k < 4 ==> #[trigger] sum128_1.l@[k] == acc(i as int, 0 + k, 16, true),
            sum128_2.l@.len() == 4, forall|k: int| 0 <= k < 4 ==> #[trigger] sum128_2.l@[k] == acc(i as int, 4 + k, 16, true),
            sum128_3.l@.len() == 4, forall|k: int| 0 <= k < 4 ==> #[trigger] sum128_3.l@[k] == acc(i as int, 8 + k, 16, true),
            sum128_4.l@.len() == 4, forall|k: int| 0 <= k < 4 ==> #[trigger] sum128_4.l@[k] == acc(i as int, 12 + k, 16, true),
//@loopstart 0
        let ghost i0 = i as int;
//@loopend 0
        proof {
            assert forall|c: int| 0 <= c < 16 implies kadd(K::Sq(i0 + c), #[trigger] acc(i0, c, 16, true)) == acc(i0 + 16, c, 16, true) by { lemma_acc_step(i0, c, 16, true); }
            assert forall|k: int| 0 <= k < 4 implies #[trigger] sum128_1.l@[k] == acc(i0 + 16, 0 + k, 16, true) by { assert(kadd(K::Sq(i0 + 0 + k), acc(i0, 0 + k, 16, true)) == acc(i0 + 16, 0 + k, 16, true)); }
            assert forall|k: int| 0 <= k < 4 implies #[trigger] sum128_2.l@[k] == acc(i0 + 16, 4 + k, 16, true) by { assert(kadd(K::Sq(i0 + 4 + k), acc(i0, 4 + k, 16, true)) == acc(i0 + 16, 4 + k, 16, true)); }
            assert forall|k: int| 0 <= k < 4 implies #[trigger] sum128_3.l@[k] == acc(i0 + 16, 8 + k, 16, true) by { assert(kadd(K::Sq(i0 + 8 + k), acc(i0, 8 + k, 16, true)) == acc(i0 + 16, 8 + k, 16, true)); }
            assert forall|k: int| 0 <= k < 4 implies #[trigger] sum128_4.l@[k] == acc(i0 + 16, 12 + k, 16, true) by { assert(kadd(K::Sq(i0 + 12 + k), acc(i0, 12 + k, 16, true)) == acc(i0 + 16, 12 + k, 16, true)); }
        }
//@hint before <<<let mut cnti__: u64>>>
        proof { lemma_hsum4(sum128_1.l@, m as int, 0, true); lemma_hsum4(sum128_2.l@, m as int, 4, true); lemma_hsum4(sum128_3.l@, m as int, 8, true); lemma_hsum4(sum128_4.l@, m as int, 12, true); lemma_total(m as int, 16, true); }
//@loop 1
        invariant
            n == v1.n, n == v2.n, m <= n, m == n - n % 16, cnti__ <= n - m,
            ptr1 == (PtrF { base: v1.id, off: m, n: Ghost(n as int) }), ptr2 == (PtrF { base: v2.id, off: m, n: Ghost(n as int) }), v1.id@ == 1, v2.id@ == 2,
            result.k@ == full(m + cnti__, true),
//@loopstart 1
        let ghost j0 = m + cnti__;
//@loopend 1
        proof { lemma_full_step(j0 as int, true); }
//@spec
    requires v1.id@ == 1, v2.id@ == 2, v1.n == v2.n     // the two vectors have the same length (the callers pass vectors of the declared dimension)
    ensures r.k@ == full(v1.n as int, true)           // each index 0..n contributes exactly once; every load / pointer offset is in bounds (stand-in preconditions)
//@end

//@extract src/spaces/simple_sse.rs | - | dot_similarity_sse
//@subst count=any
<<<
f32
===
F32
>>>
//@subst count=any
<<<
.as_ptr() as *const F32
===
.as_fptr_()
>>>
//@subst count=any
<<<
result += a * b;
===
result = result + a * b;
>>>
//@loop 0
        invariant
            n == v1.n, n == v2.n, m == n - n % 16, i <= m, i % 16 == 0,
            ptr1 == (PtrF { base: v1.id, off: i, n: Ghost(n as int) }), ptr2 == (PtrF { base: v2.id, off: i, n: Ghost(n as int) }), v1.id@ == 1, v2.id@ == 2,
            sum128_1.l@.len() == 4, forall|k: int| 0 <= k < 4 ==> #[trigger] sum128_1.l@[k] == acc(i as int, 0 + k, 16, false),
            sum128_2.l@.len() == 4, forall|k: int| 0 <= k < 4 ==> #[trigger] sum128_2.l@[k] == acc(i as int, 4 + k, 16, false),
            sum128_3.l@.len() == 4, forall|k: int| 0 <= k < 4 ==> #[trigger] sum128_3.l@[k] == acc(i as int, 8 + k, 16, false),
            sum128_4.l@.len() == 4, forall|k: int| 0 <= k < 4 ==> #[trigger] sum128_4.l@[k] == acc(i as int, 12 + k, 16, false),
//@loopstart 0
        let ghost i0 = i as int;
//@loopend 0
        proof {
            assert forall|c: int| 0 <= c < 16 implies kadd(K::Prod(i0 + c), #[trigger] acc(i0, c, 16, false)) == acc(i0 + 16, c, 16, false) by { lemma_acc_step(i0, c, 16, false); }
            assert forall|k: int| 0 <= k < 4 implies #[trigger] sum128_1.l@[k] == acc(i0 + 16, 0 + k, 16, false) by { assert(kadd(K::Prod(i0 + 0 + k), acc(i0, 0 + k, 16, false)) == acc(i0 + 16, 0 + k, 16, false)); }
            assert forall|k: int| 0 <= k < 4 implies #[trigger] sum128_2.l@[k] == acc(i0 + 16, 4 + k, 16, false) by { assert(kadd(K::Prod(i0 + 4 + k), acc(i0, 4 + k, 16, false)) == acc(i0 + 16, 4 + k, 16, false)); }
            assert forall|k: int| 0 <= k < 4 implies #[trigger] sum128_3.l@[k] == acc(i0 + 16, 8 + k, 16, false) by { assert(kadd(K::Prod(i0 + 8 + k), acc(i0, 8 + k, 16, false)) == acc(i0 + 16, 8 + k, 16, false)); }
            assert forall|k: int| 0 <= k < 4 implies #[trigger] sum128_4.l@[k] == acc(i0 + 16, 12 + k, 16, false) by { assert(kadd(K::Prod(i0 + 12 + k), acc(i0, 12 + k, 16, false)) == acc(i0 + 16, 12 + k, 16, false)); }
        }
//@hint before <<<let mut cnti__: u64>>>
        proof { lemma_hsum4(sum128_1.l@, m as int, 0, false); lemma_hsum4(sum128_2.l@, m as int, 4, false); lemma_hsum4(sum128_3.l@, m as int, 8, false); lemma_hsum4(sum128_4.l@, m as int, 12, false); lemma_total(m as int, 16, false); }
//@loop 1
        invariant
            n == v1.n, n == v2.n, m <= n, m == n - n % 16, cnti__ <= n - m,
            ptr1 == (PtrF { base: v1.id, off: m, n: Ghost(n as int) }), ptr2 == (PtrF { base: v2.id, off: m, n: Ghost(n as int) }), v1.id@ == 1, v2.id@ == 2,
            result.k@ == full(m + cnti__, false),
//@loopstart 1
        let ghost j0 = m + cnti__;
//@loopend 1
        proof { lemma_full_step(j0 as int, false); }
//@spec
    requires v1.id@ == 1, v2.id@ == 2, v1.n == v2.n     // the two vectors have the same length (the callers pass vectors of the declared dimension)
    ensures r.k@ == full(v1.n as int, false)           // each index 0..n contributes exactly once; every load / pointer offset is in bounds (stand-in preconditions)
//@end

// ---- dispatch (spaces/simple.rs): whichever path is taken, the same summands are added ---------------------------------------------
pub const MIN_DIM_SIZE_AVX: usize = 32;
pub const MIN_DIM_SIZE_SIMD: usize = 16;
/// `is_x86_feature_detected!(..)`: any answer
#[verifier::external_body] pub fn feature_detected_(name: &str) -> (r: bool) { unimplemented!() }
/// the plain loops `u.iter().zip(v.iter()).map(..).sum()` (iterator adapters: not extracted; ASSUMED to add one summand per index)
#[verifier::external_body] pub fn euclidean_distance_non_optimized(u: &UnalignedVector<F32>, v: &UnalignedVector<F32>) -> (r: F32) requires u.n == v.n ensures r.k@ == full(u.n as int, true) { unimplemented!() }
#[verifier::external_body] pub fn dot_product_non_optimized(u: &UnalignedVector<F32>, v: &UnalignedVector<F32>) -> (r: F32) requires u.n == v.n ensures r.k@ == full(u.n as int, false) { unimplemented!() }
//@extract src/spaces/simple.rs | - | euclidean_distance
//@subst count=any
<<<
f32
===
F32
>>>
//@subst count=any
<<<
is_x86_feature_detected!(
===
feature_detected_(
>>>
//@subst count=any
<<<
    #[cfg(target_arch = "x86_64")]
===
>>>
//@subst count=any
<<<
    #[cfg(any(target_arch = "x86", target_arch = "x86_64"))]
===
>>>
//@dropblock #[cfg(all(target_arch = "aarch64", target_feature = "neon"))]
//@spec
    requires u.id@ == 1, v.id@ == 2, u.n == v.n
    ensures r.k@ == full(u.n as int, true)       // the vectorised paths agree with the plain loop: the same summands, each index once
//@end

//@extract src/spaces/simple.rs | - | dot_product
//@subst count=any
<<<
f32
===
F32
>>>
//@subst count=any
<<<
is_x86_feature_detected!(
===
feature_detected_(
>>>
//@subst count=any
<<<
    #[cfg(target_arch = "x86_64")]
===
>>>
//@subst count=any
<<<
    #[cfg(any(target_arch = "x86", target_arch = "x86_64"))]
===
>>>
//@dropblock #[cfg(all(target_arch = "aarch64", target_feature = "neon"))]
//@spec
    requires u.id@ == 1, v.id@ == 2, u.n == v.n
    ensures r.k@ == full(u.n as int, false)       // the vectorised paths agree with the plain loop: the same summands, each index once
//@end

} // verus!
fn main() {}
