// Unit `reader_open`: Reader::open and the reader's item-store queries (C06, C05, C19 by_vector / by_item entry checks)
#![allow(non_snake_case, unused, deprecated)]
use vstd::prelude::*;
verus! {
//@include lib/prelude.rs
//@include lib/keys.rs
//@include lib/specs_store.rs

pub struct NonZeroUsize { pub v: usize }
pub struct QueryBuilder<'a> { pub reader: &'a Reader, pub count: usize, pub search_k: Option<NonZeroUsize>, pub oversampling: Option<NonZeroUsize>, pub candidates: Option<&'a RoaringBitmap> }

pub uninterp spec fn nns_rel(reader: Reader, v: DbView, q: LeafV, opt: QueryBuilder, r: Result<Vec<(ItemId, f32)>>) -> bool;
impl Reader {
    /// stand-in for the search itself: its contract is proved in unit `reader_search`; here it is the abstract relation `nns_rel`
    /// ("r is an answer of nns_by_leaf for this reader, snapshot, query leaf and these options"), so that by_vector / by_item are
    /// proved to return exactly such an answer for the options they were given
    #[verifier::external_body]
    fn nns_by_leaf(&self, rtxn: &RoTxn, query_leaf: &Leaf, opt: &QueryBuilder) -> (r: Result<Vec<(ItemId, f32)>>)
        ensures nns_rel(*self, rtxn.view(), LeafV { header: query_leaf.header.hv(), vector: query_leaf.vector.vv() }, *opt, r)
    { unimplemented!() }

//@extract src/reader.rs | impl<'t, D: Distance> Reader<'t, D> | open
//@spec
    ensures
        match r {
            // C06: the reader opens only on a built, non-stale index of the same metric, and copies the metadata
            Ok(reader) => rtxn.view().contains_key(mkey(index)) && !stale(rtxn.view(), index)
                && (rtxn.view()[mkey(index)] matches AVal::Meta(m) && m.distance == Dist::name_spec()
                    && reader.index == index && reader.roots@ == m.roots && reader.items@ == m.items
                    && reader.dimensions == m.dimensions as usize),
            // three distinct errors
            Err(Error::MissingMetadata(i)) => i == index && !rtxn.view().contains_key(mkey(index)),
            Err(Error::UnmatchingDistance { expected, received }) => rtxn.view().contains_key(mkey(index))
                && (rtxn.view()[mkey(index)] matches AVal::Meta(m) && m.distance != Dist::name_spec() && expected == m.distance && received == Dist::name_spec()),
            Err(Error::NeedBuild(i)) => i == index && rtxn.view().contains_key(mkey(index))
                && (rtxn.view()[mkey(index)] matches AVal::Meta(m) && m.distance == Dist::name_spec())
                && (has_mark(rtxn.view(), index) || rtxn.read_faulty()),
            Err(e) => e is Heed,
        }
//@end

//@extract src/reader.rs | impl<'t, D: Distance> Reader<'t, D> | dimensions
//@spec
    ensures r == self.dimensions
//@end
//@extract src/reader.rs | impl<'t, D: Distance> Reader<'t, D> | n_trees
//@spec
    ensures r == self.roots@.len()
//@end
//@extract src/reader.rs | impl<'t, D: Distance> Reader<'t, D> | n_items
//@spec
    ensures r == self.items@.len()
//@end
//@extract src/reader.rs | impl<'t, D: Distance> Reader<'t, D> | item_ids
//@spec
    ensures r@ == self.items@
//@end
//@extract src/reader.rs | impl<'t, D: Distance> Reader<'t, D> | index
//@spec
    ensures r == self.index
//@end
//@extract src/reader.rs | impl<'t, D: Distance> Reader<'t, D> | contains_item
//@subst count=opt
<<<
.map(|opt| opt.is_some())
===
.map(|opt: Option<()>| -> (b: bool) ensures b == (opt is Some) { opt.is_some() })
>>>
//@spec
    ensures r matches Ok(b) ==> b == rtxn.view().contains_key(ikey(self.index, item))
//@end
//@extract src/reader.rs | impl<'t, D: Distance> Reader<'t, D> | item_vector
//@subst count=opt
<<<
.map(|leaf| {
===
.map(|leaf: Leaf| -> (vec: Vec<f32>) ensures vec@ =~= trunc(Dist::dec(leaf.vector.vv()), self.dimensions as int) {
>>>
//@spec
    ensures
        // C05: present iff the item key exists; the vector is what the codec decodes, cut to the declared dimension
        r matches Ok(o) ==> match o {
            Some(v) => rtxn.view().contains_key(ikey(self.index, item)) && (rtxn.view()[ikey(self.index, item)] matches AVal::Leaf(l)
                && v@ == trunc(Dist::dec(l.vector), self.dimensions as int)),
            None => !(rtxn.view().contains_key(ikey(self.index, item)) && rtxn.view()[ikey(self.index, item)] is Leaf),
        }
//@end
//@extract src/reader.rs | impl<'t, D: Distance> Reader<'t, D> | iter
//@spec
    ensures
        r matches Ok(it) ==> it.inner.wf(rtxn.view(), Prefix { index: self.index, mode: Some(NodeMode::Item) }) && it.inner.pos@ == 0
            && it.dimensions == self.dimensions && it.inner.faulty@ == rtxn.read_faulty(),
        r matches Err(e) ==> e is Heed,
//@end
//@extract src/reader.rs | impl<'t, D: Distance> Reader<'t, D> | is_empty
//@subst count=opt
<<<
.map(|mut iter| iter.next().is_none())
===
.map(|mut iter: ItemIter| -> (b: bool)
            requires iter.inner.wf(rtxn.view(), Prefix { index: self.index, mode: Some(NodeMode::Item) }) && iter.inner.pos@ == 0 && iter.inner.faulty@ == rtxn.read_faulty()
            ensures items_are_leaves(rtxn.view(), self.index) ==> (b == !has_item(rtxn.view(), self.index) || (!b && rtxn.read_faulty()))
            { iter.next().is_none() })
>>>
//@spec
    ensures
        r matches Ok(b) ==> (items_are_leaves(rtxn.view(), self.index) ==> (b == !has_item(rtxn.view(), self.index) || (!b && rtxn.read_faulty()))),
//@end
}


impl<'a> QueryBuilder<'a> {
//@extract src/reader.rs | impl<'a, D: Distance> QueryBuilder<'a, D> | by_vector
//@spec
    ensures
        // C19: a query vector of the wrong length is rejected with both lengths
        vector@.len() != self.reader.dimensions ==>
            r == Err::<Vec<(ItemId, f32)>, Error>(Error::InvalidVecDimension { expected: self.reader.dimensions, received: vector@.len() as usize }),
        // C03: otherwise the answer is the one of the search for the leaf made of this vector, under exactly the options given
        vector@.len() == self.reader.dimensions ==>
            nns_rel(*self.reader, rtxn.view(), LeafV { header: Dist::new_header_spec(Dist::enc(vector@)), vector: Dist::enc(vector@) }, *self, r),
//@end
//@extract src/reader.rs | impl<'a, D: Distance> QueryBuilder<'a, D> | by_item
//@spec
    ensures
        // C03: an unknown id yields no result rather than an error
        !rtxn.view().contains_key(ikey(self.reader.index, item)) ==> (r matches Ok(None) || r matches Err(Error::Heed(_))),
        r matches Ok(None) ==> !(rtxn.view().contains_key(ikey(self.reader.index, item)) && rtxn.view()[ikey(self.reader.index, item)] is Leaf),
        // C03: a stored id is answered by the search for its stored leaf, under exactly the options given
        r matches Ok(Some(out)) ==> rtxn.view().contains_key(ikey(self.reader.index, item)) && (rtxn.view()[ikey(self.reader.index, item)] matches AVal::Leaf(l)
            && nns_rel(*self.reader, rtxn.view(), l, *self, Ok::<Vec<(ItemId, f32)>, Error>(out))),
//@end
}

//@include lib/item_read.rs
} // verus!
fn main() {}
