// Unit `tree_drivers`: delete_tree, delete_extra_trees, delete_items_from_trees (C01, C15 tree count, C10)
#![allow(non_snake_case, unused, deprecated)]
use vstd::prelude::*;
verus! {
//@include lib/prelude.rs
//@include lib/keys.rs
//@include lib/specs_store.rs
//@include lib/forest.rs
//@include lib/forest_delete.rs
//@include lib/frozen.rs
//@include lib/forest_drivers.rs
//@include lib/writeback.rs

pub open spec fn cap_of(opt: &BuildOption, dimensions: usize) -> u64 {
    (match opt.split_after { Some(s) => s, None => dimensions }) as u64
}
/// rule R7 target for `roots.sort_unstable()` on a slice: a sort is a permutation
#[verifier::external_body]
pub fn sort_unstable_slice_(v: &mut [u32])
    ensures final(v)@.len() == old(v)@.len(),
        exists|p: Seq<int>| #![trigger is_perm(p, old(v)@.len() as int)] is_perm(p, old(v)@.len() as int) && forall|k: int| 0 <= k < final(v)@.len() ==> #[trigger] final(v)@[k] == old(v)@[p[k]],
        forall|a: int, b: int| 0 <= a < b < final(v)@.len() ==> final(v)@[a] <= final(v)@[b],
{ unimplemented!() }

impl Writer {
//@extract src/writer.rs | impl<D: Distance> Writer<D> | delete_items_in_file
//@stub
//@specfile lib/contracts/delete_items_in_file.spec
//@end

//@extract src/writer.rs | impl<D: Distance> Writer<D> | delete_items_from_trees
//@attr #[verifier::exec_allows_no_decreases_clause]
//@subst
<<<
        let mut iter__0 = roots.iter_mut();
        while let Some(root) = iter__0.next() {
===
        let mut ri__: usize = 0;
        while ri__ < roots.len() {
>>>
//@subst
<<<
*root, &mut tmp_nodes
===
roots[ri__], &mut tmp_nodes
>>>
//@subst
<<<
*root = new_root;
===
roots[ri__] = new_root; ri__ += 1;
>>>
//@subst
<<<
roots.sort_unstable();
===
sort_unstable_slice_(roots);
>>>
//@hint afterstmt <<<let mut tmp_nodes: TmpNodes = match self.tmpdir.as_ref() {>>>
        let ghost v0 = wtxn.view(); let ghost m0 = tmap(v0, self.index); let ghost r0 = roots@;
        let ghost d = to_delete@; let ghost cap = cap_of(options, self.dimensions);
//@loop 0
        invariant
            wtxn.view() == v0, v0 == old(wtxn).view(), r0 == old(roots)@, d == to_delete@, cap == cap_of(options, self.dimensions), cap >= 1,
            m0 == tmap(v0, self.index), tree_keys_ok(v0, self.index),
            0 <= ri__ <= roots@.len(),
            dift_inv(m0, r0, roots@, ri__ as int, tmp_nodes.tv(), d, cap),
            tmp_nodes.rm() == Map::<u32, u32>::empty(),
//@loopstart 0
            let ghost ra = roots@; let ghost ta = tmp_nodes.tv(); let ghost k0 = ri__ as int;
            proof { lemma_dift_untouched(m0, r0, ra, k0, ta, d, cap); }
//@loopend 0
            proof { lemma_dift_step(m0, r0, ra, roots@, k0, ta, tmp_nodes.tv(), d, cap, new_root, titems(m0, tn(r0[k0])).difference(d)); }
//@hint before <<<sort_unstable_slice_(roots);>>>
        let ghost rk = roots@;
//@hint afterstmt <<<let tmp_nodes = tmp_nodes.into_bytes_reader()?;>>>
        let ghost t = tmp_nodes.tv();
        let ghost r1 = roots@;
        let ghost p = choose|p: Seq<int>| #![trigger is_perm(p, rk.len() as int)] is_perm(p, rk.len() as int) && forall|k: int| 0 <= k < r1.len() ==> #[trigger] r1[k] == rk[p[k]];
        proof { lemma_overlay_is_apply(m0, t); axiom_bm_seq(t.deleted); }
//@loop 1
        invariant
            0 <= iter__1.pos@ <= iter__1.seq@.len(), iter__1.seq@ == bm_seq(t.deleted),
            wb_deleted(v0, wtxn.view(), self.index, t.deleted, iter__1.seq@, iter__1.pos@), v0 == old(wtxn).view(),
            roots@ == r1, tmp_nodes.tv() == t, tmp_nodes.rm() == Map::<u32, u32>::empty(),
        ensures
            iter__1.pos@ == iter__1.seq@.len(),
//@loopstart 1
            let ghost va = wtxn.view(); let ghost q0 = iter__1.pos@ - 1;
//@loopend 1
            proof {
                let vb = wtxn.view(); let sq = iter__1.seq@; let i = self.index;
                assert(vb == va.remove(tkey(i, item_id)));
                assert forall|id: u32| #![trigger vb.contains_key(tkey(i, id))] vb.contains_key(tkey(i, id)) <==> (v0.contains_key(tkey(i, id)) && !(exists|j: int| 0 <= j < q0 + 1 && sq[j] == id)) by {
                    assert(va.contains_key(tkey(i, id)) <==> (v0.contains_key(tkey(i, id)) && !(exists|j: int| 0 <= j < q0 && sq[j] == id)));
                    if id == item_id { assert(sq[q0] == id); } else {
                        assert(tkey(i, id) != tkey(i, item_id));
                        if exists|j: int| 0 <= j < q0 + 1 && sq[j] == id { let j = choose|j: int| 0 <= j < q0 + 1 && sq[j] == id; assert(j < q0); }
                    }
                }
                assert forall|k: AKey| !(k.index == i && k.kind == NodeMode::Tree) implies (#[trigger] v0.contains_key(k) == vb.contains_key(k) && (v0.contains_key(k) ==> v0[k] == vb[k])) by { assert(k != tkey(i, item_id)); assert(v0.contains_key(k) == va.contains_key(k)); }
                assert forall|id: u32| #![trigger vb.contains_key(tkey(i, id))] vb.contains_key(tkey(i, id)) implies vb[tkey(i, id)] == v0[tkey(i, id)] by { if id != item_id { assert(tkey(i, id) != tkey(i, item_id)); assert(va.contains_key(tkey(i, id))); } }
            }
//@hint before <<<let mut iter__2 = tmp_nodes.to_insert();>>>
        let ghost v1 = wtxn.view();
        proof { lemma_wb_deleted_done(v0, v1, self.index, t.deleted); }
//@loop 2
        invariant
            0 <= iter__2.pos@ <= iter__2.seq@.len(),
            wb_put(v1, wtxn.view(), self.index, iter__2.seq@, iter__2.pos@), v0 == old(wtxn).view(),
            same_except(v0, v1, self.index, true, false, false, false), same_except(v0, wtxn.view(), self.index, true, false, false, false),
            roots@ == r1, tmp_nodes.tv() == t, tmp_nodes.rm() == Map::<u32, u32>::empty(),
            remap_ok(t, Map::<u32, u32>::empty()) ==> (forall|m: TM| #![trigger fold_puts(m, iter__2.seq@)] fold_puts(m, iter__2.seq@) == overlay(m, t, Map::<u32, u32>::empty())),
        ensures
            iter__2.pos@ == iter__2.seq@.len(),
//@loopstart 2
            let ghost vc = wtxn.view(); let ghost q2 = iter__2.pos@ - 1;
//@loopend 2
            proof {
                lemma_wb_put_step(v1, vc, wtxn.view(), self.index, iter__2.seq@, q2, item_id, item_bytes.aval());
                let vd = wtxn.view(); let i = self.index;
                assert(same_except(v0, vd, i, true, false, false, false)) by {
                    assert forall|k: AKey| !(k.index == i && k.kind == NodeMode::Tree) implies (#[trigger] v0.contains_key(k) == vd.contains_key(k) && (v0.contains_key(k) ==> v0[k] == vd[k])) by { assert(v0.contains_key(k) == v1.contains_key(k)); }
                }
            }
//@hint before#2 <<<Ok(())>>>
        proof {
            let v2 = wtxn.view(); let i = self.index;
            assert(iter__2.seq@.take(iter__2.seq@.len() as int) =~= iter__2.seq@);
            assert(fold_puts(tmap(v1, i), iter__2.seq@) == overlay(tmap(v1, i), t, Map::<u32, u32>::empty()));
            assert(tmap(v2, i) == apply(m0, t));
            assert(same_except(v0, v2, i, true, false, false, false)) by {
                assert forall|k: AKey| !(k.index == i && k.kind == NodeMode::Tree) implies (#[trigger] v0.contains_key(k) == v2.contains_key(k) && (v0.contains_key(k) ==> v0[k] == v2[k])) by { assert(v0.contains_key(k) == v1.contains_key(k)); }
            }
            lemma_dift_finish(v0, v2, i, r0, rk, r1, p, t, d, cap);
        }
//@specfile lib/contracts/delete_items_from_trees.spec
//@end

//@extract src/writer.rs | impl<D: Distance> Writer<D> | delete_tree
//@attr #[verifier::exec_allows_no_decreases_clause]
//@subst count=any
<<<
.map(|_| ())
===
.map(|_b: bool| -> (u: ()) { () })
>>>
//@hint start <<<>>>
        let ghost v0 = wtxn.view();
        let ghost m0 = tmap(v0, self.index);
        proof {
            if node.mode == NodeMode::Item { lemma_item(m0, node.item); assert(node == itn(node.item)); lemma_removed_none(v0, self.index); }
            else { assert(node == tn(node.item)); lemma_unfold(m0, node.item); lemma_nodes_exist(m0, node); }
        }
//@hint afterstmt <<<self.delete_tree(wtxn, left)?;>>>
                let ghost v1 = wtxn.view();
                proof {
                    lemma_item(m0, left.item); lemma_item(m0, right.item);
                    lemma_tree_survives(v0, v1, self.index, tnodes(m0, left), right);
                }
//@hint afterstmt <<<self.delete_tree(wtxn, right)?;>>>
                let ghost v2 = wtxn.view();
                proof {
                    lemma_removed_trans(v0, v1, v2, self.index, tnodes(m0, left), tnodes(m0, right));
                    lemma_removed_one(v2, self.index, node.item);
                    lemma_removed_trans(v0, v2, v2.remove(tkey(self.index, node.item)), self.index, tnodes(m0, left).union(tnodes(m0, right)), set![node.item]);
                    assert(tnodes(m0, left).union(tnodes(m0, right)).union(set![node.item]) =~= tnodes(m0, node));
                }
//@hint after <<<Node::Descendants(_) => {>>>
                proof { lemma_removed_one(v0, self.index, node.item); }
//@spec
    requires
        tree(tmap(old(wtxn).view(), self.index), node),
        tree_keys_ok(old(wtxn).view(), self.index),
    ensures
        // C01 / C15: exactly the tree nodes of the subtree are removed; items (shared between trees) and everything else stay
        r is Ok ==> trees_removed(old(wtxn).view(), final(wtxn).view(), self.index, tnodes(tmap(old(wtxn).view(), self.index), node)),
        // C10: dropping a tree never reports MissingKey on a well-formed tree, even when its leaf items were already deleted
        r matches Err(e) ==> e is Heed,
        // whatever happens, only tree nodes of this index are touched, and only removed
        same_except(old(wtxn).view(), final(wtxn).view(), self.index, true, false, false, false),
        only_removed(old(wtxn).view(), final(wtxn).view()),
        tree_keys_ok(final(wtxn).view(), self.index),
//@end

//@extract src/writer.rs | impl<D: Distance> Writer<D> | delete_extra_trees
//@attr #[verifier::exec_allows_no_decreases_clause]
//@hint start <<<>>>
        let ghost v0 = wtxn.view(); let ghost r0 = roots@;
        proof { lemma_extra_init(v0, self.index, r0); }
//@loop 0
        invariant
            inv_extra(v0, wtxn.view(), self.index, r0, roots@),
            roots@.len() == r0.len() - cnt__, cnt__ <= extraneous_tree,
            extraneous_tree == (if r0.len() > target_n_trees as usize { r0.len() - target_n_trees as usize } else { 0 }),
            v0 == old(wtxn).view(), r0 == old(roots)@,
        ensures
            roots@.len() == r0.len() - extraneous_tree,
//@loopstart 0
            let ghost va = wtxn.view(); let ghost ra = roots@;
//@loopend 0
            proof { lemma_extra_step(v0, va, wtxn.view(), self.index, r0, ra, roots@); }
//@specfile lib/contracts/delete_extra_trees.spec
//@end
}

} // verus!
fn main() {}
