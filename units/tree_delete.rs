// Unit `tree_delete`: Writer::delete_items_in_file, delete_tree (C01, C15 shrink, C10 no-panic / error classes)
#![allow(non_snake_case, unused, deprecated)]
use vstd::prelude::*;
verus! {
//@include lib/prelude.rs
//@include lib/keys.rs
//@include lib/specs_store.rs
//@include lib/forest.rs
//@include lib/forest_delete.rs

pub open spec fn cap_of(opt: &BuildOption, dimensions: usize) -> u64 {
    (match opt.split_after { Some(s) => s, None => dimensions }) as u64
}
impl Writer {
//@extract src/writer.rs | impl<D: Distance> Writer<D> | fit_in_descendant
//@spec
    ensures r == (n <= cap_of(opt, self.dimensions))
//@end

//@extract src/writer.rs | impl<D: Distance> Writer<D> | delete_items_in_file
//@attr #[verifier::exec_allows_no_decreases_clause]
//@hint start <<<>>>
        let ghost m = tmap(rtxn.view(), self.index);
        let ghost s = tnodes(m, tn(current_node));
        let ghost t0 = tmp_nodes.tv();
        let ghost cap = cap_of(options, self.dimensions);
        proof { lemma_unfold(m, current_node); lemma_nodes_exist(m, tn(current_node)); }
//@hint before <<<Ok((current_node, new_descendants))>>>
                proof {
                    let m1 = apply(m, tmp_nodes.tv());
                    assert(m[current_node] == TNode::Desc(descendants@));
                    assert(s.contains(current_node));
                    assert(!t0.puts.contains_key(current_node) && !t0.deleted.contains(current_node));
                    if len == new_descendants@.len() {
                        vstd::set_lib::lemma_subset_equality(new_descendants@, descendants@);
                    }
                    assert(m1.contains_key(current_node) && m1[current_node] == TNode::Desc(new_descendants@));
                    lemma_fold_desc(m1, current_node);
                    vstd::set_lib::lemma_len_subset(new_descendants@, descendants@);
                    assert(del_post(m, current_node, t0, tmp_nodes.tv(), to_delete@, cap, current_node, new_descendants@));
                }
//@hint before <<<let (new_left, left_items) = match left.mode {>>>
                proof {
                    assert(m[current_node] == TNode::Split(left, right, normal.vv()));
                    assert(s == tnodes(m, left).union(tnodes(m, right)).insert(current_node));
                    if left.mode == NodeMode::Tree {
                        assert(left == tn(left.item));
                        assert forall|x: u32| #![trigger tnodes(m, left).contains(x)] tnodes(m, left).contains(x) implies !t0.puts.contains_key(x) && !t0.deleted.contains(x) by { assert(s.contains(x)); }
                    }
                }
//@hint before <<<let (new_right, right_items) = match right.mode {>>>
                let ghost tl = tmp_nodes.tv();
                let ghost sl = tnodes(m, left);
                let ghost sr = tnodes(m, right);
                proof {
                    lemma_item(m, left.item); lemma_item(m, right.item); lemma_item(apply(m, tl), left.item);
                    assert(set![left.item].difference(to_delete@) =~= (if to_delete@.contains(left.item) { Set::<u32>::empty() } else { set![left.item] }));
                    assert(child_post(m, left, new_left, t0, tl, to_delete@, cap, left_items@));
                    if right.mode == NodeMode::Tree {
                        assert(right == tn(right.item));
                        assert forall|x: u32| #![trigger tnodes(m, right).contains(x)] tnodes(m, right).contains(x) implies !tl.puts.contains_key(x) && !tl.deleted.contains(x) by {
                            assert(s.contains(x));
                            assert(!tnodes(m, left).contains(x));
                            assert(!t0.puts.contains_key(x) && !t0.deleted.contains(x));
                        }
                    }
                }
//@hint before <<<let total_items = bitor_(&left_items, &right_items);>>>
                let ghost tr = tmp_nodes.tv();
                proof {
                    lemma_item(apply(m, tr), right.item);
                    assert(set![right.item].difference(to_delete@) =~= (if to_delete@.contains(right.item) { Set::<u32>::empty() } else { set![right.item] }));
                    assert(child_post(m, right, new_right, tl, tr, to_delete@, cap, right_items@));
                    assert(del_ctx(m, current_node, left, right, normal.vv(), t0, tl, tr, to_delete@, cap, new_left, new_right, left_items@, right_items@));
                }
//@hint before <<<// we should merge both branch and update ourselves to be a single descendant node>>>
                    proof { lemma_del_fit(m, current_node, left, right, normal.vv(), t0, tl, tr, tmp_nodes.tv(), to_delete@, cap, new_left, new_right, left_items@, right_items@); }
//@hint after#1 <<<tmp_nodes.remove(current_node);>>>
                    proof { lemma_del_one_side_empty(m, current_node, left, right, normal.vv(), t0, tl, tr, tmp_nodes.tv(), to_delete@, cap, new_left, new_right, left_items@, right_items@, true); }
//@hint after#2 <<<tmp_nodes.remove(current_node);>>>
                    proof { lemma_del_one_side_empty(m, current_node, left, right, normal.vv(), t0, tl, tr, tmp_nodes.tv(), to_delete@, cap, new_left, new_right, left_items@, right_items@, false); }
//@hint before#2 <<<Ok((current_node, total_items))>>>
                    proof { lemma_del_keep(m, current_node, left, right, normal.vv(), t0, tl, tr, tmp_nodes.tv(), to_delete@, cap, new_left, new_right, left_items@, right_items@); }
//@specfile lib/contracts/delete_items_in_file.spec
//@end
}

} // verus!
fn main() {}
