// Unit `trees_new`: ImmutableTrees::new / sub_tree_from_id / empty — the frozen tree views of a pass (C01, C07)
#![allow(non_snake_case, unused, deprecated)]
use vstd::prelude::*;
verus! {
//@include lib/prelude.rs
//@include lib/keys.rs
//@include lib/specs_store.rs
//@include lib/forest.rs
//@include lib/forest_delete.rs
//@include lib/forest_drivers.rs

// ---- stand-ins: the (len, ptr) pairs kept by the real structure are abstracted as the mapped bytes themselves; the unsafe
// ---- reconstruction of the slice in ImmutableTrees::get is NOT verified (the frozen view is read-only while it lives)
pub struct BuildNoHashHasher { }
impl BuildNoHashHasher { pub fn default() -> BuildNoHashHasher { BuildNoHashHasher { } } }
#[verifier::external_body]
pub struct IntMap { x: u8 }
impl IntMap {
    /// ghost: id -> abstract value of the bytes mapped for it
    pub uninterp spec fn m(&self) -> IMap<u32, AVal>;
    #[verifier::external_body]
    pub fn with_capacity_and_hasher(n: usize, h: BuildNoHashHasher) -> (r: IntMap) ensures r.m() == IMap::<u32, AVal>::empty() { unimplemented!() }
    #[verifier::external_body]
    pub fn default() -> (r: IntMap) ensures r.m() == IMap::<u32, AVal>::empty() { unimplemented!() }
    /// substitution target for `trees.insert(id, (bytes.len(), bytes.as_ptr()))`
    #[verifier::external_body]
    pub fn insert_bytes_(&mut self, k: u32, bytes: &NodeBytes) ensures final(self).m() == old(self).m().insert(k, bytes.aval()) { unimplemented!() }
}
impl NodeCodec {
    /// decoding what the database holds under a tree or item key succeeds and yields that node (codec round trip: C16)
    #[verifier::external_body]
    pub fn bytes_decode(bytes: &NodeBytes) -> (r: core::result::Result<Node, HeedError>)
        ensures (bytes.aval() is Tree || bytes.aval() is Leaf) ==> r is Ok, r matches Ok(n) ==> n.aval() == bytes.aval()
    { unimplemented!() }
}
#[verifier::external]
impl core::fmt::Debug for HeedError { fn fmt(&self, f: &mut core::fmt::Formatter<'_>) -> core::fmt::Result { Ok(()) } }
pub struct ImmutableTrees { pub trees: IntMap, pub _marker: core::marker::PhantomData<Dist> }
impl ImmutableTrees {
    /// the tree nodes frozen in this view (what ImmutableTrees::get decodes)
    pub open spec fn snap(&self) -> TM {
        IMap::new(|id: u32| self.trees.m().contains_key(id) && self.trees.m()[id] is Tree, |id: u32| self.trees.m()[id]->Tree_0)
    }
}
impl NodeId {
//@extract src/node_id.rs | impl NodeId | unwrap_tree
//@subst
<<<
assert_eq!(self.mode, NodeMode::Tree);
===
assert(self.mode == NodeMode::Tree);
>>>
//@spec
    requires self.mode == NodeMode::Tree
    ensures r == self.item
//@end
}
/// the unvisited part of the subtree is below a node still on the stack
pub open spec fn pending(m: TM, explore: Seq<u32>, x: u32) -> bool { exists|j: int| 0 <= j < explore.len() && tnodes(m, tn(#[trigger] explore[j])).contains(x) }

impl ImmutableTrees {
//@extract src/parallel.rs | impl<'t, D: Distance> ImmutableTrees<'t, D> | new
//@iterident iter
//@subst count=any
<<<
trees.insert(tree_id, (bytes.len(), bytes.as_ptr()));
===
trees.insert_bytes_(tree_id, &bytes);
>>>
//@subst count=any
<<<
marker::PhantomData
===
core::marker::PhantomData
>>>
//@hint start <<<>>>
        let ghost v = rtxn.view();
//@loop 0
        invariant
            v == rtxn.view(), iter__0.wf(v, Prefix { index: index, mode: Some(NodeMode::Tree) }),
            forall|id: u32| #![trigger trees.m().contains_key(id)] trees.m().contains_key(id) <==> (exists|j: int| 0 <= j < iter__0.pos@ && #[trigger] iter__0.keys@[j] == tkey(index, id)),
            forall|id: u32| #![trigger trees.m().contains_key(id)] trees.m().contains_key(id) ==> v.contains_key(tkey(index, id)) && trees.m()[id] == v[tkey(index, id)],
        ensures
            iter__0.pos@ == iter__0.keys@.len(),
//@loopstart 0
            let ghost pos0 = iter__0.pos@ - 1; let ghost before = trees.m();
//@loopend 0
            proof {
                let kx = iter__0.keys@[pos0];
                assert(kx.index == index && kx.kind == NodeMode::Tree);
                assert(kx == tkey(index, kx.id));
                assert forall|id: u32| #![trigger trees.m().contains_key(id)] trees.m().contains_key(id) <==> (exists|j: int| 0 <= j < pos0 + 1 && #[trigger] iter__0.keys@[j] == tkey(index, id)) by {
                    if id == tree_id { assert(iter__0.keys@[pos0] == tkey(index, id)); }
                    else {
                        assert(before.contains_key(id) == trees.m().contains_key(id));
                        if exists|j: int| 0 <= j < pos0 + 1 && #[trigger] iter__0.keys@[j] == tkey(index, id) { let j = choose|j: int| 0 <= j < pos0 + 1 && #[trigger] iter__0.keys@[j] == tkey(index, id); assert(j != pos0); }
                    }
                }
            }
//@specfile lib/contracts/immutable_trees_new.spec
//@end

//@extract src/parallel.rs | impl<'t, D: Distance> ImmutableTrees<'t, D> | sub_tree_from_id
//@subst count=any
<<<
(bytes.len(), bytes.as_ptr())
===
&bytes
>>>
//@subst count=any
<<<
trees.insert(current, &bytes);
===
trees.insert_bytes_(current, &bytes);
>>>
//@subst count=any
<<<
NodeCodec::bytes_decode(bytes)
===
NodeCodec::bytes_decode(&bytes)
>>>
//@subst count=any
<<<
marker::PhantomData
===
core::marker::PhantomData
>>>
//@hint start <<<>>>
        let ghost m = tmap(rtxn.view(), index); let ghost all = tnodes(m, tn(start));
//@loop 0
        invariant
            m == tmap(rtxn.view(), index), all == tnodes(m, tn(start)), tree_keys_ok(rtxn.view(), index),
            forall|j: int| 0 <= j < explore@.len() ==> tree(m, tn(#[trigger] explore@[j])) && tnodes(m, tn(explore@[j])).subset_of(all),
            forall|id: u32| #![trigger trees.m().contains_key(id)] trees.m().contains_key(id) ==> all.contains(id) && trees.m()[id] == AVal::Tree(m[id]),
            forall|x: u32| #![trigger all.contains(x)] all.contains(x) ==> trees.m().contains_key(x) || pending(m, explore@, x),
        ensures
            explore@.len() == 0,
//@loopstart 0
            let ghost tr0 = trees.m();
            // the stack as it was at the loop head (before the pop of the loop condition): recovered from the invariant, since no statement can name it
            let ghost ex0 = choose|h: Seq<u32>| h.len() > 0 && #[trigger] h.subrange(0, h.len() - 1) == explore@ && h[h.len() - 1] == current
                && (forall|j: int| 0 <= j < h.len() ==> tree(m, tn(#[trigger] h[j])) && tnodes(m, tn(h[j])).subset_of(all))
                && (forall|x: u32| #![trigger all.contains(x)] all.contains(x) ==> tr0.contains_key(x) || pending(m, h, x));
            proof {
                assert(ex0[ex0.len() - 1] == current);
                assert(tree(m, tn(ex0[ex0.len() - 1])));
                lemma_unfold(m, current); lemma_nodes_exist(m, tn(current));
                assert(tnodes(m, tn(current)).contains(current));
                assert(rtxn.view().contains_key(tkey(index, current)) && rtxn.view()[tkey(index, current)] == AVal::Tree(m[current]));
            }
//@loopend 0
            proof {
                let ex1 = explore@;
                assert forall|x: u32| #![trigger all.contains(x)] all.contains(x) implies trees.m().contains_key(x) || pending(m, ex1, x) by {
                    if !tr0.contains_key(x) && x != current {
                        assert(pending(m, ex0, x));
                        let j = choose|j: int| 0 <= j < ex0.len() && tnodes(m, tn(#[trigger] ex0[j])).contains(x);
                        if j < ex0.len() - 1 { assert(ex0.drop_last()[j] == ex0[j]); assert(ex1[j] == ex0[j]); assert(tnodes(m, tn(ex1[j])).contains(x)); }
                        else {
                            // x is below the node just popped: below one of its Tree children, which were pushed
                            match m[current] {
                                TNode::Desc(_) => {}
                                TNode::Split(l, r, _) => {
                                    lemma_item(m, l.item); lemma_item(m, r.item);
                                    if tnodes(m, l).contains(x) { assert(l.mode == NodeMode::Tree); assert(l == tn(l.item)); let jl = ex0.len() - 1; assert(ex1[jl] == l.item); assert(tnodes(m, tn(ex1[jl])).contains(x)); }
                                    else { assert(tnodes(m, r).contains(x)); assert(r.mode == NodeMode::Tree); assert(r == tn(r.item)); let jr = ex1.len() - 1; assert(ex1[jr] == r.item); assert(tnodes(m, tn(ex1[jr])).contains(x)); }
                                }
                            }
                        }
                    }
                }
            }
//@specfile lib/contracts/immutable_trees_sub_tree.spec
//@end

//@extract src/parallel.rs | impl<'t, D: Distance> ImmutableTrees<'t, D> | empty
//@subst count=any
<<<
marker::PhantomData
===
core::marker::PhantomData
>>>
//@specfile lib/contracts/immutable_trees_empty.spec
//@end
}
} // verus!
fn main() {}
