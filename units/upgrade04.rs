// Unit `upgrade04`: upgrade::cosine_from_0_4_to_0_5 (C17, first sentence)
#![allow(non_snake_case, unused, deprecated)]
use vstd::prelude::*;
verus! {
//@include lib/prelude.rs
//@include lib/keys.rs
//@include lib/specs_store.rs

// ---- stand-ins: heed LazyDecode and the bitmap codec -----------------------------------------------------------------
pub struct LazyDecode<C> { pub _c: core::marker::PhantomData<C> }
#[verifier::external_body]
#[verifier::reject_recursive_types(C)]
pub struct Lazy<C> { x: u8, _c: core::marker::PhantomData<C> }
impl<C: DataCodec> Lazy<C> {
    pub uninterp spec fn aval(&self) -> AVal;
    #[verifier::external_body]
    pub fn remap<C2: DataCodec>(&self) -> (r: Lazy<C2>) ensures r.aval() == self.aval() { unimplemented!() }
    /// A3: the old database is well formed: every value decodes under the codec its kind prescribes
    #[verifier::external_body]
    pub fn decode(&self) -> (r: core::result::Result<C::DItem, ()>) ensures r matches Ok(d) && C::dec_ok(&d, self.aval()) { unimplemented!() }
    #[verifier::external_body]
    pub fn decode_or_default_(&self) -> (r: C::DItem) ensures C::dec_ok(&r, self.aval()) { unimplemented!() }
}
impl<C: DataCodec> DataCodec for LazyDecode<C> { type EItem = C::EItem; type DItem = Lazy<C>;
    open spec fn enc_val(e: &C::EItem) -> AVal { C::enc_val(e) } open spec fn dec_ok(d: &Lazy<C>, a: AVal) -> bool { d.aval() == a } }
pub struct RoaringBitmapCodec {}
impl DataCodec for RoaringBitmapCodec { type EItem = RoaringBitmap; type DItem = RoaringBitmap;
    open spec fn enc_val(e: &RoaringBitmap) -> AVal { AVal::Ids(e@) } open spec fn dec_ok(d: &RoaringBitmap, a: AVal) -> bool { a == AVal::Ids(d@) } }

// ---- reference re-tagging, written from the property statement ---------------------------------------------------------------
// v0.4 kind bytes: 0 item, 1 tree, 2 metadata (id 0: metadata record, id 1: pending-updates bitmap).
// Read through the CURRENT key codec these bytes decode as Metadata, Updated, Tree; byte 3 (decoded Item) does not exist in v0.4.
pub open spec fn new_kind(decoded: NodeMode) -> Option<NodeMode> {
    match decoded { NodeMode::Metadata => Some(NodeMode::Item), NodeMode::Updated => Some(NodeMode::Tree), NodeMode::Tree => Some(NodeMode::Metadata), NodeMode::Item => None }
}
pub open spec fn retag_id(n: NodeId) -> NodeId { NodeId { mode: new_kind(n.mode)->0, item: n.item } }
pub open spec fn retag_tree(t: TNode) -> TNode { match t { TNode::Desc(s) => TNode::Desc(s), TNode::Split(l, r, n) => TNode::Split(retag_id(l), retag_id(r), n) } }
pub open spec fn marks(w: DbView, i: u16, sq: Seq<u32>, n: int) -> DbView
    decreases n
{
    if n <= 0 { w } else { marks(w, i, sq, n - 1).insert(ukey(i, sq[n - 1]), AVal::Unit) }
}
/// the entries the current layout prescribes for one v0.4 entry
pub open spec fn step(w: DbView, k: AKey, v: AVal) -> DbView {
    match k.kind {
        NodeMode::Metadata => w.insert(ikey(k.index, k.id), v),                                                   // item: copied byte for byte
        NodeMode::Updated => w.insert(tkey(k.index, k.id), match v { AVal::Tree(t) => AVal::Tree(retag_tree(t)), o => o }),   // tree node: children re-tagged
        NodeMode::Tree => if k.id == 0 {
                w.insert(mkey(k.index), match v { AVal::Meta(m) => AVal::Meta(MetaV { dimensions: m.dimensions, items: m.items, roots: m.roots, distance: Dist::name_spec() }), o => o })
            } else {
                match v { AVal::Ids(s) => marks(w, k.index, bm_seq(s), bm_seq(s).len() as int), _ => w }         // one updated mark per pending id
            },
        NodeMode::Item => w,
    }
}
pub open spec fn upgraded(r: DbView, keys: Seq<AKey>, n: int) -> DbView
    decreases n
{
    if n <= 0 { Map::<AKey, AVal>::empty() } else { step(upgraded(r, keys, n - 1), keys[n - 1], r[keys[n - 1]]) }
}
/// shape of a v0.4 database as seen through the current key codec
pub open spec fn wf04(r: DbView) -> bool {
    forall|k: AKey| #![trigger r.contains_key(k)] r.contains_key(k) ==> match k.kind {
        NodeMode::Metadata => true,
        NodeMode::Updated => r[k] is Tree,
        NodeMode::Tree => (k.id == 0 && r[k] is Meta) || (k.id == 1 && r[k] is Ids),
        NodeMode::Item => true,
    }
}

//@extract-item src/upgrade.rs | enum OldNodeMode \{
//@subst
<<<
#[derive(Debug, Copy, Clone, PartialEq, Eq, PartialOrd, Ord, Hash)]
===
#[derive(Copy, Clone, PartialEq, Eq)]
>>>
//@end

impl OldNodeMode {
//@extract src/upgrade.rs | impl TryFrom<u8> for OldNodeMode | try_from
//@subst
<<<
std::result::Result<Self, Self::Error>
===
core::result::Result<Self, ()>
>>>
//@subst
<<<
Err(format!("Could not convert {v} as a `NodeMode`."))
===
Err(())
>>>
//@spec
    ensures match r { Ok(m) => (v == 0 && m == OldNodeMode::Item) || (v == 1 && m == OldNodeMode::Tree) || (v == 2 && m == OldNodeMode::Metadata), Err(_) => v > 2 }
//@end
}

//@extract src/upgrade.rs | - | cosine_from_0_4_to_0_5
//@attr #[verifier::exec_allows_no_decreases_clause]
//@subst count=any
<<<
Database<Cosine>
===
Database
>>>
//@subst count=any
<<<
NodeCodec<Cosine>
===
NodeCodec
>>>
//@subst count=any
<<<
Cosine::name()
===
Dist::name()
>>>
//@subst count=any
<<<
.map_err(|_| Error::CannotDecodeKeyMode
===
.map_err(|_e: ()| -> (o: Error) ensures o is CannotDecodeKeyMode { Error::CannotDecodeKeyMode
>>>
//@subst
<<<
{ mode: key.node.mode })?;
===
{ mode: key.node.mode } })?;
>>>
//@subst
<<<
{ mode: split.left.mode })?;
===
{ mode: split.left.mode } })?;
>>>
//@subst
<<<
{ mode: split.right.mode })?;
===
{ mode: split.right.mode } })?;
>>>
//@subst
<<<
value.remap::<Bytes>().decode().unwrap(),
===
&value.remap::<Bytes>().decode().unwrap(),
>>>
//@subst
<<<
.decode().unwrap_or_default();
===
.decode_or_default_();
>>>
//@subst
<<<
panic!("Unexpected {other} with value: {bytes:?}");
===
assert(false);
>>>
//@loop 0
        invariant
            wf04(rtxn.view()),
            iter__0.wf_sel(rtxn.view(), Sel::Rng(Bound::Unbounded, Bound::Unbounded), false),
            wtxn.view() == upgraded(rtxn.view(), iter__0.keys@, iter__0.pos@),
        ensures
            iter__0.pos@ == iter__0.keys@.len(),
//@loopstart 0
        let ghost k0 = iter__0.pos@ - 1; let ghost w0 = wtxn.view(); let ghost rv = rtxn.view(); let ghost keys = iter__0.keys@;
//@loopend 0
        proof {
            assert(upgraded(rv, keys, k0 + 1) == step(upgraded(rv, keys, k0), keys[k0], rv[keys[k0]]));
            assert(wtxn.view() == step(w0, keys[k0], rv[keys[k0]]));
        }
//@loop 1
        invariant
            0 <= idx__1 <= updated.seq_().len(),
            key.index == keys[k0].index, key.node.mode == NodeMode::Updated, key._padding == 0,
            wtxn.view() == marks(w0, key.index, updated.seq_(), idx__1 as int),
//@loopend 1
                            proof { assert(marks(w0, key.index, updated.seq_(), idx__1 as int) == marks(w0, key.index, updated.seq_(), idx__1 as int - 1).insert(ukey(key.index, updated.seq_()[idx__1 as int - 1]), AVal::Unit)); }
//@spec
    requires wf04(rtxn.view()),
    ensures
        // C17: the write database is exactly what the current layout prescribes for the old content, entry by entry
        r is Ok ==> exists|keys: Seq<AKey>| #![trigger upgraded(rtxn.view(), keys, keys.len() as int)]
            is_listing_dir(rtxn.view(), Sel::Rng(Bound::Unbounded, Bound::Unbounded), keys, false) && final(wtxn).view() == upgraded(rtxn.view(), keys, keys.len() as int),
        r matches Err(e) ==> e is Heed || e is CannotDecodeKeyMode,
//@end

} // verus!
fn main() {}
