// Unit `reader_search`: Reader::nns and Reader::nns_by_leaf (C03 well-formedness / budget, C02 scoring, C04 push order, C12 normalisation)
#![allow(non_snake_case, unused, deprecated)]
use vstd::prelude::*;
use vstd::multiset::Multiset;
verus! {
//@include lib/prelude.rs
//@include lib/keys.rs
//@include lib/specs_store.rs
//@include lib/forest.rs
//@include lib/reader_types.rs

impl NodeId {
//@extract src/node_id.rs | impl NodeId | unwrap_item
//@subst
<<<
assert_eq!(self.mode, NodeMode::Item);
===
assert(self.mode == NodeMode::Item);
>>>
//@spec
    requires self.mode == NodeMode::Item
    ensures r == self.item
//@end
}

/// local well-formedness of the nodes of an index (part of the forest invariant of C01):
/// Item keys hold leaves, Tree keys hold tree nodes whose children are Tree or Item references
pub open spec fn nodes_ok(v: DbView, i: u16) -> bool {
    forall|k: AKey| #[trigger] v.contains_key(k) && k.index == i ==> match k.kind {
        NodeMode::Item => v[k] is Leaf,
        NodeMode::Tree => (v[k] matches AVal::Tree(t) && (t matches TNode::Split(l, r, _) ==>
            (l.mode == NodeMode::Tree || l.mode == NodeMode::Item) && (r.mode == NodeMode::Tree || r.mode == NodeMode::Item))),
        _ => true,
    }
}

// ---- C04 (reader side): what a queued entry is ---------------------------------------------------------------------------
/// entry `e` is the left (right) child of split `pid`, queued with the priority computed from the parent's bound `d`
/// and the margin of the QUERY against that split's plane, for the Left (Right) side
pub open spec fn child_entry(m: TM, qv: VecV, w: (u32, OrderedFloat), e: (OrderedFloat, NodeId)) -> bool {
    let pid = w.0; let d = w.1.0;
    m.contains_key(pid) && (m[pid] matches TNode::Split(l, r, nrm) &&
        ((e.1 == l && e.0.0 == Dist::pq_spec(d, Dist::margin_spec(nrm, qv), true)) || (e.1 == r && e.0.0 == Dist::pq_spec(d, Dist::margin_spec(nrm, qv), false))))
}
pub open spec fn qentry_ok(m: TM, roots: Seq<u32>, qv: VecV, e: (OrderedFloat, NodeId)) -> bool {
    (e.1.mode == NodeMode::Tree && roots.contains(e.1.item)) || (exists|w: (u32, OrderedFloat)| #[trigger] child_entry(m, qv, w, e))
}
// ---- C02: exact search ------------------------------------------------------------------------------------------------------
//@include lib/search_specs.rs
//@include lib/search_trace.rs
pub open spec fn covered(m: TM, nns: Seq<u32>, q: Multiset<(OrderedFloat, NodeId)>, x: u32) -> bool {
    nns.contains(x) || (exists|e: (OrderedFloat, NodeId)| #![trigger q.count(e)] q.count(e) > 0 && titems(m, e.1).contains(x))
}
pub open spec fn unlimited(opt: &QueryBuilder, n_roots: usize) -> bool {
    sat_mul(match opt.search_k { Some(k) => k.v, None => sat_mul(opt.count, n_roots) }, match opt.oversampling { Some(o) => o.v, None => Dist::default_oversampling() }) == usize::MAX
}

impl Reader {
//@extract src/reader.rs | impl<'t, D: Distance> Reader<'t, D> | nns
//@spec
    ensures
        // C03: a fresh query builder has no budget, no oversampling and no filter set
        r.count == count, r.search_k is None, r.oversampling is None, r.candidates is None, *r.reader == *self,
//@end

//@extract src/reader.rs | impl<'t, D: Distance> Reader<'t, D> | nns_by_leaf
//@attr #[verifier::exec_allows_no_decreases_clause]
//@subst count=opt
<<<
opt.search_k.map_or(opt.count.saturating_mul(self.roots.len()), NonZeroUsize::get)
===
match opt.search_k { None => opt.count.saturating_mul(self.roots.len()), Some(k__) => k__.get() }
>>>
//@subst count=opt
<<<
|oversampling| {
===
|oversampling: NonZeroUsize| -> (k__: usize) ensures k__ == sat_mul(search_k, oversampling.v) {
>>>
//@subst
<<<
queue.extend(repeat(OrderedFloat(f32::INFINITY)).zip(self.roots.iter().map(NodeId::tree)));
===
queue.extend_roots_(OrderedFloat(f32_infinity_()), &self.roots);
>>>
//@subst count=opt
<<<
opt.candidates.map_or(true, |c| c.contains(item.item))
===
(match opt.candidates { None => true, Some(c) => c.contains(item.item) })
>>>
//@subst
<<<
nns.extend((descendants & candidates).iter());
===
extend_from_bitmap_(&mut nns, &bitand_(&descendants, candidates));
>>>
//@subst
<<<
nns.extend(descendants.iter());
===
extend_from_bitmap_(&mut nns, &descendants);
>>>
//@subst
<<<
let mut nns_distances = Vec::with_capacity(
===
let mut nns_distances: Vec<Reverse<(OrderedFloat, ItemId)>> = Vec::with_capacity(
>>>
//@subst
<<<
let mut output = Vec::with_capacity(
===
let mut output: Vec<(ItemId, f32)> = Vec::with_capacity(
>>>
//@subst
<<<
nns.sort_unstable();
===
sort_unstable_(&mut nns);
>>>
//@subst
<<<
nns.dedup();
===
dedup_(&mut nns);
>>>
//@spec
    requires
        nodes_ok(rtxn.view(), self.index),
        opt.reader.index == self.index,
    ensures
        r matches Ok(out) ==> ({
            let v = rtxn.view();
            // C03: at most count results
            &&& out@.len() <= opt.count
            // all distinct
            &&& (forall|i: int, j: int| 0 <= i < j < out@.len() ==> out@[i].0 != out@[j].0)
            // all currently stored and inside the filter
            &&& (forall|i: int| 0 <= i < out@.len() ==> v.contains_key(ikey(self.index, #[trigger] out@[i].0)) && in_filter(opt.candidates, out@[i].0))
            // each carries the distance of its CURRENT leaf to the query, normalised with the declared dimension (C02 / C12)
            &&& (forall|i: int| 0 <= i < out@.len() ==> (#[trigger] out@[i]).1 ==
                    Dist::normalized_spec(Dist::built_spec(query_leaf.lv(), leafv(v, self.index, out@[i].0)), self.dimensions))
            // nearest first (ties by id), in OrderedFloat's total order
            &&& (forall|i: int, j: int| 0 <= i < j < out@.len() ==> pair_le(
                    (Dist::built_spec(query_leaf.lv(), leafv(v, self.index, out@[i].0)), out@[i].0),
                    (Dist::built_spec(query_leaf.lv(), leafv(v, self.index, out@[j].0)), out@[j].0)))
        }),
        // C02: with an unlimited budget on a forest that satisfies C01 the result is exact:
        r matches Ok(out) ==> (search_forest_ok(rtxn.view(), self.index, self.roots@, self.items@) && unlimited(opt, self.roots@.len() as usize) ==>
            // every stored item inside the filter is either returned, or the result is full and the item is not nearer than any returned one
            forall|id: u32| #![trigger self.items@.contains(id)] self.items@.contains(id) && in_filter(opt.candidates, id) ==>
                exact_at_exit(rtxn.view(), self.index, query_leaf.lv(), opt.count, out@, id)),
        // C03: on a C01 forest every returned id is one of reader.item_ids()
        r matches Ok(out) ==> (search_forest_ok(rtxn.view(), self.index, self.roots@, self.items@) ==> forall|k: int| 0 <= k < out@.len() ==> self.items@.contains((#[trigger] out@[k]).0)),
        // C03 (budget monotonicity, with lemma_budget_monotone of unit search_lib): the candidates are those of the budget-independent
        // traversal stopped where the budget says, and the result is the selection of the `count` nearest among them
        r matches Ok(out) ==> (self.items@.len() == 0 ==> out@.len() == 0),
        r matches Ok(out) ==> (self.items@.len() != 0 ==> exists|j: nat| #![trigger t_iter(rtxn.view(), self.index, opt.candidates, query_leaf.vector.vv(), t_init(self.roots@), j)]
            t_stops(rtxn.view(), self.index, opt.candidates, query_leaf.vector.vv(), t_init(self.roots@), budget(opt, self.roots@.len() as usize), j)
            && top_of(rtxn.view(), self.index, query_leaf.lv(), opt.count, t_iter(rtxn.view(), self.index, opt.candidates, query_leaf.vector.vv(), t_init(self.roots@), j).nns, out@)),
        // on a C01 forest the search never fails for a missing key
        search_forest_ok(rtxn.view(), self.index, self.roots@, self.items@) ==> !(r matches Err(Error::MissingKey { .. })),
        r matches Err(e) ==> e is Heed || e is MissingKey,
//@hint before <<<sort_unstable_(&mut nns);>>>
        let ghost nns_a = nns@; let ghost jfin = jj;
//@hint after <<<sort_unstable_(&mut nns);>>>
        let ghost nns_b = nns@;
//@hint after <<<dedup_(&mut nns);>>>
        proof {
            assert forall|i: int| 0 <= i < nns@.len() implies in_filter(opt.candidates, #[trigger] nns@[i]) && (sf ==> items.contains(nns@[i])) by {
                let x = nns@[i];
                assert(nns@.contains(x));
                assert(nns_b.contains(x));
                assert(nns_a.contains(x));
                let j = choose|j: int| 0 <= j < nns_a.len() && nns_a[j] == x;
                assert(in_filter(opt.candidates, nns_a[j]));
            }
            // C03 (necessary for budget monotonicity): no candidate collected by the traversal is dropped before scoring
            assert forall|x: u32| nns_a.contains(x) implies nns@.contains(x) by { assert(nns_b.contains(x)); }
            if sf { assert forall|x: u32| nns_a.contains(x) implies items.contains(x) by { let j = choose|j: int| 0 <= j < nns_a.len() && nns_a[j] == x; assert(items.contains(nns_a[j])); } }
            assert forall|i: int| 0 <= i < nns@.len() implies nns_a.contains(#[trigger] nns@[i]) by { assert(nns@.contains(nns@[i])); assert(nns_b.contains(nns@[i])); }
            // C02: with the queue drained, every stored item inside the filter is among the candidates
            if sf && unl {
                assert forall|x: u32| #![trigger items.contains(x)] items.contains(x) && in_filter(opt.candidates, x) implies nns@.contains(x) by {
                    assert(covered(m, nns_a, queue.view(), x));
                    assert(nns_a.contains(x));
                    assert(nns_b.contains(x));
                }
            }
        }
//@hint before <<<let mut sorted_nns = BinaryHeap::from(nns_distances);>>>
        let ghost nd = nns_distances@;
        proof {
            assert forall|i: int, j: int| 0 <= i < j < nd.len() implies nd[i] != nd[j] by {
                assert((nd[i].0).1 == nns@[i] && (nd[j].0).1 == nns@[j]);
            }
        }
//@hint after <<<let mut sorted_nns = BinaryHeap::from(nns_distances);>>>
        let ghost total = sorted_nns.view().len();
        proof {
            // C03: every candidate collected by the traversal is scored and offered to the final selection
            assert forall|x: u32| nns_a.contains(x) implies in_heap(sorted_nns.view(), x) by {
                assert(nns@.contains(x));
                let j = choose|j: int| 0 <= j < nns@.len() && nns@[j] == x;
                assert((nd[j].0).1 == x);
                assert(sorted_nns.view().count(nd[j]) > 0);
            }
            if sf && unl {
                assert forall|x: u32| #![trigger items.contains(x)] items.contains(x) && in_filter(opt.candidates, x) implies in_heap(sorted_nns.view(), x) by {
                    let j = choose|j: int| 0 <= j < nns@.len() && nns@[j] == x;
                    assert((nd[j].0).1 == x);
                    assert(sorted_nns.view().count(nd[j]) > 0);
                }
            }
            assert forall|e: Reverse<(OrderedFloat, ItemId)>| #![trigger sorted_nns.view().count(e)] sorted_nns.view().count(e) > 0 implies heap_elem_ok(rtxn.view(), self.index, opt.candidates, query_leaf.lv(), e) && nns_a.contains((e.0).1) by {
                assert(nd.contains(e));
                let i = choose|i: int| 0 <= i < nd.len() && nd[i] == e;
                assert(heap_elem_ok(rtxn.view(), self.index, opt.candidates, query_leaf.lv(), nd[i]));
                assert((nd[i].0).1 == nns@[i]);
                assert(nns_a.contains(nns@[i]));
            }
        }
//@hint before <<<let mut nns = Vec::new();>>>
        // C03: the budget is search_k (or count x number-of-trees, saturating) x oversampling (or the metric's default), saturating
        assert(search_k == sat_mul(match opt.search_k { Some(k) => k.v, None => sat_mul(opt.count, self.roots@.len() as usize) },
                                   match opt.oversampling { Some(o) => o.v, None => Dist::default_oversampling() }));
//@hint before <<<let mut nns = Vec::new();>>>
        let ghost m = tmap(rtxn.view(), self.index);
        let ghost sf = search_forest_ok(rtxn.view(), self.index, self.roots@, self.items@);
        let ghost qv = query_leaf.vector.vv();
        let ghost items = self.items@;
        let ghost unl = unlimited(opt, self.roots@.len() as usize);
        let ghost vw = rtxn.view(); let ghost s0 = t_init(self.roots@); let ghost jj: nat = 0;
        proof { assert(queue.hist() =~= s0.hist); }
        proof {
            if sf {
                assert forall|x: u32| items.contains(x) && in_filter(opt.candidates, x) implies covered(m, Seq::<u32>::empty(), queue.view(), x) by {
                    assert(items.len() > 0) by { if items.len() == 0 { assert(items =~= Set::<u32>::empty()); } }
                    let e = (OrderedFloat(f32_inf_spec()), tn(self.roots@[0]));
                    assert(queue.view().count(e) > 0);
                    assert(titems(m, e.1).contains(x));
                }
            }
        }
//@hint before <<<let key = Key::new(self.index, item);>>>
            proof {
                lemma_item(m, item.item);
                if item.mode == NodeMode::Tree { assert(item == tn(item.item)); } else { assert(item == itn(item.item)); }
                if sf {
                    assert(q0.count((OrderedFloat(dist), item)) > 0);
                    assert(tree(m, item) && titems(m, item).subset_of(items));
                    if item.mode == NodeMode::Tree { lemma_unfold(m, item.item); assert(rtxn.view().contains_key(tkey(self.index, item.item))); }
                    else { assert(titems(m, item).contains(item.item)); assert(items.contains(item.item)); assert(rtxn.view().contains_key(ikey(self.index, item.item))); }
                }
            }
//@loop 0
        invariant
            nodes_ok(rtxn.view(), self.index),
            m == tmap(rtxn.view(), self.index), sf == search_forest_ok(rtxn.view(), self.index, self.roots@, self.items@), qv == query_leaf.vector.vv(),
            items == self.items@, unl == unlimited(opt, self.roots@.len() as usize), unl ==> search_k == usize::MAX,
            nns@.len() < usize::MAX,
            // C04: every queued entry is a root or the Left/Right child of a split, with the priority of that side
            forall|e: (OrderedFloat, NodeId)| #![trigger queue.view().count(e)] queue.view().count(e) > 0 ==> qentry_ok(m, self.roots@, qv, e),
            // C02: nothing is lost: every stored item inside the filter was collected or lies below a queued node
            sf ==> (forall|e: (OrderedFloat, NodeId)| #![trigger queue.view().count(e)] queue.view().count(e) > 0 ==> tree(m, e.1) && titems(m, e.1).subset_of(items)),
            sf ==> (forall|j: int| 0 <= j < nns@.len() ==> items.contains(#[trigger] nns@[j])),
            sf ==> (forall|x: u32| #![trigger items.contains(x)] items.contains(x) && in_filter(opt.candidates, x) ==> covered(m, nns@, queue.view(), x)),
            forall|x: (OrderedFloat, NodeId)| queue.view().count(x) > 0 ==> (x.1.mode == NodeMode::Tree || x.1.mode == NodeMode::Item),
            forall|i: int| 0 <= i < nns@.len() ==> in_filter(opt.candidates, #[trigger] nns@[i]),
            // C03: the state is the one the budget-independent traversal reaches after jj passes, all of them allowed by the budget
            vw == rtxn.view(), s0 == t_init(self.roots@), search_k == budget(opt, self.roots@.len() as usize),
            t_iter(vw, self.index, opt.candidates, qv, s0, jj) == (TSt { hist: queue.hist(), nns: nns@ }),
            forall|a: nat| a < jj ==> t_running(#[trigger] t_iter(vw, self.index, opt.candidates, qv, s0, a), search_k),
        ensures
            unl ==> queue.view().len() == 0,
            t_stops(vw, self.index, opt.candidates, qv, s0, search_k, jj),
//@loopstart 0
            let ghost q0 = queue.view(); let ghost n0 = nns@; let ghost h0 = queue.hist(); let ghost st0 = TSt { hist: h0, nns: n0 };
            proof { assert(t_running(st0, search_k) || pop_of(h0) is None); }
//@loopend 0
            proof {
                // C03: this pass is one step of the budget-independent traversal
                let kk = akey(self.index, item.mode, item.item);
                assert(pop_of(h0) == Some((OrderedFloat(dist), item)));
                assert(vw.contains_key(kk));
                let st1 = TSt { hist: queue.hist(), nns: nns@ };
                match vw[kk] {
                    AVal::Leaf(_) => { assert(st1.hist == h0.push(HOp::Pop)); assert(st1.nns == (if in_filter(opt.candidates, item.item) { n0.push(item.item) } else { n0 })); }
                    AVal::Tree(TNode::Desc(b)) => { assert(st1.hist == h0.push(HOp::Pop)); assert(st1.nns == n0 + bm_seq(filt(opt.candidates, b))); }
                    AVal::Tree(TNode::Split(l, r, nrm)) => {
                        assert(st1.nns == n0);
                        assert(st1.hist == h0.push(HOp::Pop).push(HOp::Push((OrderedFloat(Dist::pq_spec(dist, Dist::margin_spec(nrm, qv), true)), l)))
                            .push(HOp::Push((OrderedFloat(Dist::pq_spec(dist, Dist::margin_spec(nrm, qv), false)), r))));
                    }
                    _ => { assert(false); }
                }
                assert(st1 == t_step(vw, self.index, opt.candidates, qv, st0));
                assert(t_running(st0, search_k));
                jj = jj + 1;
                assert(t_iter(vw, self.index, opt.candidates, qv, s0, jj) == t_step(vw, self.index, opt.candidates, qv, t_iter(vw, self.index, opt.candidates, qv, s0, (jj - 1) as nat)));
            }
            proof {
                broadcast use vstd::multiset::group_multiset_axioms;
                axiom_vec_len_bound(&nns);
                let e0 = (OrderedFloat(dist), item);
                let q1 = q0.remove(e0);
                if item.mode == NodeMode::Tree { assert(item == tn(item.item)); } else { assert(item == itn(item.item)); }
                lemma_item(m, item.item);
                if sf && item.mode == NodeMode::Tree { lemma_unfold(m, item.item); }
                // what this iteration did to the queue
                let is_split = item.mode == NodeMode::Tree && m.contains_key(item.item) && m[item.item] is Split;
                if is_split {
                    let l = m[item.item]->Split_0; let r = m[item.item]->Split_1; let nrm = m[item.item]->Split_2;
                    let el = (OrderedFloat(Dist::pq_spec(dist, Dist::margin_spec(nrm, qv), true)), l);
                    let er = (OrderedFloat(Dist::pq_spec(dist, Dist::margin_spec(nrm, qv), false)), r);
                    assert(queue.view() == q1.insert(el).insert(er));
                    assert(child_entry(m, qv, (item.item, OrderedFloat(dist)), el) && child_entry(m, qv, (item.item, OrderedFloat(dist)), er));
                    assert forall|e: (OrderedFloat, NodeId)| #![trigger queue.view().count(e)] queue.view().count(e) > 0 implies qentry_ok(m, self.roots@, qv, e) by {
                        if e == el { assert(child_entry(m, qv, (item.item, OrderedFloat(dist)), e)); } else if e == er { assert(child_entry(m, qv, (item.item, OrderedFloat(dist)), e)); } else { assert(q1.insert(el).count(e) > 0); assert(q1.count(e) > 0); assert(q0.count(e) > 0); }
                    }
                } else {
                    assert(queue.view() == q1);
                    assert forall|e: (OrderedFloat, NodeId)| #![trigger queue.view().count(e)] queue.view().count(e) > 0 implies qentry_ok(m, self.roots@, qv, e) by { assert(q0.count(e) > 0); }
                }
                if sf {
                    assert forall|x: u32| #![trigger items.contains(x)] items.contains(x) && in_filter(opt.candidates, x) implies covered(m, nns@, queue.view(), x) by {
                        if n0.contains(x) { let j = choose|j: int| 0 <= j < n0.len() && n0[j] == x; assert(nns@[j] == x); }
                        else {
                            let e = choose|e: (OrderedFloat, NodeId)| #![trigger q0.count(e)] q0.count(e) > 0 && titems(m, e.1).contains(x);
                            if e == e0 && q0.count(e0) == 1 {
                                // x was below the node just expanded
                                if item.mode == NodeMode::Item { assert(x == item.item); assert(nns@[n0.len() as int] == x); }
                                else { match m[item.item] {
                                    TNode::Desc(b) => { assert(b.contains(x)); assert(nns@.contains(x)); }
                                    TNode::Split(l, r, nrm) => {
                                        let el = (OrderedFloat(Dist::pq_spec(dist, Dist::margin_spec(nrm, qv), true)), l);
                                        let er = (OrderedFloat(Dist::pq_spec(dist, Dist::margin_spec(nrm, qv), false)), r);
                                        assert(queue.view().count(el) > 0 && queue.view().count(er) > 0);
                                        if titems(m, l).contains(x) { assert(titems(m, el.1).contains(x)); } else { assert(titems(m, er.1).contains(x)); }
                                    }
                                } }
                            } else { assert(queue.view().count(e) > 0); }
                        }
                    }
                }
            }
//@loop 1
        invariant
            nodes_ok(rtxn.view(), self.index),
            m == tmap(rtxn.view(), self.index), sf == search_forest_ok(rtxn.view(), self.index, self.roots@, self.items@), items == self.items@,
            sf ==> (forall|j: int| 0 <= j < nns@.len() ==> items.contains(#[trigger] nns@[j])),
            unl == unlimited(opt, self.roots@.len() as usize),
            sf && unl ==> (forall|x: u32| #![trigger items.contains(x)] items.contains(x) && in_filter(opt.candidates, x) ==> nns@.contains(x)),
            0 <= idx__0 <= nns@.len(),
            vw == rtxn.view(), s0 == t_init(self.roots@), qv == query_leaf.vector.vv(),
            t_stops(vw, self.index, opt.candidates, qv, s0, budget(opt, self.roots@.len() as usize), jfin),
            t_iter(vw, self.index, opt.candidates, qv, s0, jfin).nns == nns_a,
            sf ==> (forall|x: u32| nns_a.contains(x) ==> items.contains(x)),
            forall|i: int| 0 <= i < nns@.len() ==> nns_a.contains(#[trigger] nns@[i]),
            forall|x: u32| nns_a.contains(x) ==> nns@.contains(x),
            forall|i: int| 0 <= i < nns@.len() ==> in_filter(opt.candidates, #[trigger] nns@[i]),
            forall|i: int, j: int| 0 <= i < j < nns@.len() ==> nns@[i] < nns@[j],
            nns_distances@.len() == idx__0,
            forall|i: int| 0 <= i < nns_distances@.len() ==> ((#[trigger] nns_distances@[i]).0).1 == nns@[i],
            forall|i: int| 0 <= i < nns_distances@.len() ==> ({
                let e: Reverse<(OrderedFloat, ItemId)> = #[trigger] nns_distances@[i];
                &&& rtxn.view().contains_key(ikey(self.index, (e.0).1))
                &&& in_filter(opt.candidates, (e.0).1)
                &&& (e.0).0.0 == Dist::built_spec(query_leaf.lv(), leafv(rtxn.view(), self.index, (e.0).1))
            }),
//@hint after <<<if output.len() == capacity {>>>
                proof {
                    broadcast use vstd::multiset::group_multiset_axioms;
                    let xp = Reverse((OrderedFloat(dist), item));
                    assert(capacity == opt.count);
                    assert forall|x: u32| nns_a.contains(x) implies exact_at_exit(rtxn.view(), self.index, query_leaf.lv(), opt.count, output@, x) by {
                        if !(exists|i: int| 0 <= i < output@.len() && output@[i].0 == x) {
                            let e = choose|e: Reverse<(OrderedFloat, ItemId)>| #![trigger h0.count(e)] h0.count(e) > 0 && (e.0).1 == x;
                            assert(heap_elem_ok(rtxn.view(), self.index, opt.candidates, query_leaf.lv(), e));
                            assert forall|i: int| 0 <= i < output@.len() implies pair_le(
                                (Dist::built_spec(query_leaf.lv(), leafv(rtxn.view(), self.index, (#[trigger] output@[i]).0)), output@[i].0),
                                (Dist::built_spec(query_leaf.lv(), leafv(rtxn.view(), self.index, x)), x)) by {}
                        }
                    }
                    if sf && unl {
                        assert forall|x: u32| #![trigger items.contains(x)] items.contains(x) && in_filter(opt.candidates, x) implies exact_at_exit(rtxn.view(), self.index, query_leaf.lv(), opt.count, output@, x) by {
                            if !(exists|i: int| 0 <= i < output@.len() && output@[i].0 == x) {
                                let e = choose|e: Reverse<(OrderedFloat, ItemId)>| #![trigger h0.count(e)] h0.count(e) > 0 && (e.0).1 == x;
                                assert(heap_elem_ok(rtxn.view(), self.index, opt.candidates, query_leaf.lv(), e));
                                assert forall|i: int| 0 <= i < output@.len() implies pair_le(
                                    (Dist::built_spec(query_leaf.lv(), leafv(rtxn.view(), self.index, (#[trigger] output@[i]).0)), output@[i].0),
                                    (Dist::built_spec(query_leaf.lv(), leafv(rtxn.view(), self.index, x)), x)) by {}
                            }
                        }
                    }
                }
//@loop 2
        invariant_except_break
            sorted_nns.view().len() + output@.len() == total,
            forall|x: u32| nns_a.contains(x) ==> (exists|i: int| 0 <= i < output@.len() && output@[i].0 == x) || in_heap(sorted_nns.view(), x),
            sf && unl ==> (forall|x: u32| #![trigger items.contains(x)] items.contains(x) && in_filter(opt.candidates, x) ==>
                (exists|i: int| 0 <= i < output@.len() && output@[i].0 == x) || in_heap(sorted_nns.view(), x)),
        invariant
            m == tmap(rtxn.view(), self.index), sf == search_forest_ok(rtxn.view(), self.index, self.roots@, self.items@), items == self.items@,
            unl == unlimited(opt, self.roots@.len() as usize),
            capacity == (if opt.count <= total { opt.count as int } else { total as int }),
            capacity <= opt.count, output@.len() <= capacity,
            vw == rtxn.view(), s0 == t_init(self.roots@), qv == query_leaf.vector.vv(),
            t_stops(vw, self.index, opt.candidates, qv, s0, budget(opt, self.roots@.len() as usize), jfin),
            t_iter(vw, self.index, opt.candidates, qv, s0, jfin).nns == nns_a,
            sf ==> (forall|x: u32| nns_a.contains(x) ==> items.contains(x)),
            forall|e: Reverse<(OrderedFloat, ItemId)>| #![trigger sorted_nns.view().count(e)] sorted_nns.view().count(e) > 0 ==> nns_a.contains((e.0).1),
            forall|i: int| 0 <= i < output@.len() ==> nns_a.contains((#[trigger] output@[i]).0),
            // what is still in the heap
            forall|e: Reverse<(OrderedFloat, ItemId)>| #![trigger sorted_nns.view().count(e)] sorted_nns.view().count(e) > 0 ==> heap_elem_ok(rtxn.view(), self.index, opt.candidates, query_leaf.lv(), e),
            forall|e: Reverse<(OrderedFloat, ItemId)>| #![trigger sorted_nns.view().count(e)] sorted_nns.view().count(e) <= 1,
            // what was already emitted
            forall|i: int| 0 <= i < output@.len() ==> out_elem_ok(rtxn.view(), self.index, opt.candidates, query_leaf.lv(), self.dimensions, #[trigger] output@[i]),
            forall|i: int, e: Reverse<(OrderedFloat, ItemId)>| #![trigger output@[i], sorted_nns.view().count(e)] 0 <= i < output@.len() && sorted_nns.view().count(e) > 0 ==>
                (e.0).1 != output@[i].0 && pair_le((Dist::built_spec(query_leaf.lv(), leafv(rtxn.view(), self.index, output@[i].0)), output@[i].0), ((e.0).0.0, (e.0).1)),
            forall|i: int, j: int| #![trigger output@[i], output@[j]] 0 <= i < j < output@.len() ==> output@[i].0 != output@[j].0 && pair_le(
                    (Dist::built_spec(query_leaf.lv(), leafv(rtxn.view(), self.index, output@[i].0)), output@[i].0),
                    (Dist::built_spec(query_leaf.lv(), leafv(rtxn.view(), self.index, output@[j].0)), output@[j].0)),
        ensures
            sf && unl ==> (forall|x: u32| #![trigger items.contains(x)] items.contains(x) && in_filter(opt.candidates, x) ==> exact_at_exit(rtxn.view(), self.index, query_leaf.lv(), opt.count, output@, x)),
            forall|x: u32| nns_a.contains(x) ==> exact_at_exit(rtxn.view(), self.index, query_leaf.lv(), opt.count, output@, x),
//@loopstart 2
            let ghost out0 = output@;
            let ghost h0 = sorted_nns.view().insert(Reverse((OrderedFloat(dist), item)));
//@loopend 2
            proof {
                broadcast use vstd::multiset::group_multiset_axioms;
                let x = Reverse((OrderedFloat(dist), item));
                assert forall|y: u32| nns_a.contains(y) implies (exists|i: int| 0 <= i < output@.len() && output@[i].0 == y) || in_heap(sorted_nns.view(), y) by {
                    if exists|i: int| 0 <= i < out0.len() && out0[i].0 == y { let i = choose|i: int| 0 <= i < out0.len() && out0[i].0 == y; assert(output@[i].0 == y); }
                    else {
                        let e = choose|e: Reverse<(OrderedFloat, ItemId)>| #![trigger h0.count(e)] h0.count(e) > 0 && (e.0).1 == y;
                        if e == x { assert(output@[out0.len() as int].0 == y); } else { assert(sorted_nns.view().count(e) > 0); }
                    }
                }
                assert(nns_a.contains(item));
                if sf && unl {
                    assert forall|y: u32| #![trigger items.contains(y)] items.contains(y) && in_filter(opt.candidates, y) implies
                        (exists|i: int| 0 <= i < output@.len() && output@[i].0 == y) || in_heap(sorted_nns.view(), y) by {
                        if exists|i: int| 0 <= i < out0.len() && out0[i].0 == y { let i = choose|i: int| 0 <= i < out0.len() && out0[i].0 == y; assert(output@[i].0 == y); }
                        else {
                            let e = choose|e: Reverse<(OrderedFloat, ItemId)>| #![trigger h0.count(e)] h0.count(e) > 0 && (e.0).1 == y;
                            if e == x { assert(output@[out0.len() as int].0 == y); } else { assert(sorted_nns.view().count(e) > 0); }
                        }
                    }
                }
                assert(heap_elem_ok(rtxn.view(), self.index, opt.candidates, query_leaf.lv(), x));
                assert(output@[out0.len() as int].0 == item);
                assert forall|i: int| 0 <= i < out0.len() implies output@[i] == out0[i] by {}
                assert forall|i: int, j: int| #![trigger output@[i], output@[j]] 0 <= i < j < output@.len() implies output@[i].0 != output@[j].0 && pair_le(
                    (Dist::built_spec(query_leaf.lv(), leafv(rtxn.view(), self.index, output@[i].0)), output@[i].0),
                    (Dist::built_spec(query_leaf.lv(), leafv(rtxn.view(), self.index, output@[j].0)), output@[j].0)) by {
                    if j == out0.len() {
                        assert(output@[i] == out0[i]);
                        assert(x.0.1 != out0[i].0);
                        assert(pair_le((Dist::built_spec(query_leaf.lv(), leafv(rtxn.view(), self.index, out0[i].0)), out0[i].0), (dist, item)));
                    } else {
                        assert(output@[i] == out0[i]);
                        assert(output@[j] == out0[j]);
                    }
                }
            }
//@end
}

pub open spec fn in_heap(h: Multiset<Reverse<(OrderedFloat, ItemId)>>, x: u32) -> bool {
    exists|e: Reverse<(OrderedFloat, ItemId)>| #![trigger h.count(e)] h.count(e) > 0 && (e.0).1 == x
}
pub open spec fn heap_elem_ok(v: DbView, index: u16, c: Option<&RoaringBitmap>, q: LeafV, e: Reverse<(OrderedFloat, ItemId)>) -> bool {
    &&& v.contains_key(ikey(index, (e.0).1))
    &&& in_filter(c, (e.0).1)
    &&& (e.0).0.0 == Dist::built_spec(q, leafv(v, index, (e.0).1))
}
pub open spec fn out_elem_ok(v: DbView, index: u16, c: Option<&RoaringBitmap>, q: LeafV, dims: usize, o: (ItemId, f32)) -> bool {
    &&& v.contains_key(ikey(index, o.0))
    &&& in_filter(c, o.0)
    &&& o.1 == Dist::normalized_spec(Dist::built_spec(q, leafv(v, index, o.0)), dims)
}

} // verus!
fn main() {}
