// Unit `reader_search`: Reader::nns and Reader::nns_by_leaf (C03 well-formedness / budget, C02 scoring, C04 push order, C12 normalisation)
#![allow(non_snake_case, unused, deprecated)]
use vstd::prelude::*;
use vstd::multiset::Multiset;
verus! {
//@include lib/prelude.rs
//@include lib/keys.rs
//@include lib/specs_store.rs
//@include lib/reader_types.rs

impl NodeId {
//@extract src/node_id.rs | impl NodeId | unwrap_item
//@subst
<<<
assert_eq!(self.mode, NodeMode::Item);
===
assert(self.mode == NodeMode::Item);
>>>
//@spec
    requires self.mode == NodeMode::Item
    ensures r == self.item
//@end
}

/// local well-formedness of the nodes of an index (part of the forest invariant of C01):
/// Item keys hold leaves, Tree keys hold tree nodes whose children are Tree or Item references
pub open spec fn nodes_ok(v: DbView, i: u16) -> bool {
    forall|k: AKey| #[trigger] v.contains_key(k) && k.index == i ==> match k.kind {
        NodeMode::Item => v[k] is Leaf,
        NodeMode::Tree => (v[k] matches AVal::Tree(t) && (t matches TNode::Split(l, r, _) ==>
            (l.mode == NodeMode::Tree || l.mode == NodeMode::Item) && (r.mode == NodeMode::Tree || r.mode == NodeMode::Item))),
        _ => true,
    }
}
pub open spec fn leafv(v: DbView, i: u16, id: u32) -> LeafV { v[ikey(i, id)]->Leaf_0 }
pub open spec fn in_filter(c: Option<&RoaringBitmap>, id: u32) -> bool { match c { Some(b) => b@.contains(id), None => true } }

impl Reader {
//@extract src/reader.rs | impl<'t, D: Distance> Reader<'t, D> | nns
//@spec
    ensures
        // C03: a fresh query builder has no budget, no oversampling and no filter set
        r.count == count, r.search_k is None, r.oversampling is None, r.candidates is None, *r.reader == *self,
//@end

//@extract src/reader.rs | impl<'t, D: Distance> Reader<'t, D> | nns_by_leaf
//@attr #[verifier::exec_allows_no_decreases_clause]
//@subst
<<<
opt.search_k.map_or(opt.count.saturating_mul(self.roots.len()), NonZeroUsize::get)
===
match opt.search_k { None => opt.count.saturating_mul(self.roots.len()), Some(k__) => k__.get() }
>>>
//@subst
<<<
|oversampling| {
===
|oversampling: NonZeroUsize| -> (k__: usize) ensures k__ == sat_mul(search_k, oversampling.v) {
>>>
//@subst
<<<
queue.extend(repeat(OrderedFloat(f32::INFINITY)).zip(self.roots.iter().map(NodeId::tree)));
===
queue.extend_roots_(OrderedFloat(f32_infinity_()), &self.roots);
>>>
//@subst
<<<
opt.candidates.map_or(true, |c| c.contains(item.item))
===
(match opt.candidates { None => true, Some(c) => c.contains(item.item) })
>>>
//@subst
<<<
nns.extend((descendants & candidates).iter());
===
extend_from_bitmap_(&mut nns, &bitand_(&descendants, candidates));
>>>
//@subst
<<<
nns.extend(descendants.iter());
===
extend_from_bitmap_(&mut nns, &descendants);
>>>
//@subst
<<<
let mut nns_distances = Vec::with_capacity(
===
let mut nns_distances: Vec<Reverse<(OrderedFloat, ItemId)>> = Vec::with_capacity(
>>>
//@subst
<<<
nns.sort_unstable();
===
sort_unstable_(&mut nns);
>>>
//@subst
<<<
nns.dedup();
===
dedup_(&mut nns);
>>>
//@spec
    requires
        nodes_ok(rtxn.view(), self.index),
        opt.reader.index == self.index,
    ensures
        r matches Ok(out) ==> ({
            let v = rtxn.view();
            // C03: at most count results
            &&& out@.len() <= opt.count
            // all distinct
            &&& (forall|i: int, j: int| 0 <= i < j < out@.len() ==> out@[i].0 != out@[j].0)
            // all currently stored and inside the filter
            &&& (forall|i: int| 0 <= i < out@.len() ==> v.contains_key(ikey(self.index, #[trigger] out@[i].0)) && in_filter(opt.candidates, out@[i].0))
            // each carries the distance of its CURRENT leaf to the query, normalised with the declared dimension (C02 / C12)
            &&& (forall|i: int| 0 <= i < out@.len() ==> (#[trigger] out@[i]).1 ==
                    Dist::normalized_spec(Dist::built_spec(query_leaf.lv(), leafv(v, self.index, out@[i].0)), self.dimensions))
            // nearest first (ties by id), in OrderedFloat's total order
            &&& (forall|i: int, j: int| 0 <= i < j < out@.len() ==> pair_le(
                    (Dist::built_spec(query_leaf.lv(), leafv(v, self.index, out@[i].0)), out@[i].0),
                    (Dist::built_spec(query_leaf.lv(), leafv(v, self.index, out@[j].0)), out@[j].0)))
        }),
        r matches Err(e) ==> e is Heed || e is MissingKey,
//@hint before <<<sort_unstable_(&mut nns);>>>
        let ghost nns_a = nns@;
//@hint after <<<sort_unstable_(&mut nns);>>>
        let ghost nns_b = nns@;
//@hint after <<<dedup_(&mut nns);>>>
        proof {
            assert forall|i: int| 0 <= i < nns@.len() implies in_filter(opt.candidates, #[trigger] nns@[i]) by {
                let x = nns@[i];
                assert(nns@.contains(x));
                assert(nns_b.contains(x));
                assert(nns_a.contains(x));
                let j = choose|j: int| 0 <= j < nns_a.len() && nns_a[j] == x;
                assert(in_filter(opt.candidates, nns_a[j]));
            }
        }
//@hint before <<<let mut sorted_nns = BinaryHeap::from(nns_distances);>>>
        let ghost nd = nns_distances@;
        proof {
            assert forall|i: int, j: int| 0 <= i < j < nd.len() implies nd[i] != nd[j] by {
                assert((nd[i].0).1 == nns@[i] && (nd[j].0).1 == nns@[j]);
            }
        }
//@hint after <<<let mut sorted_nns = BinaryHeap::from(nns_distances);>>>
        proof {
            assert forall|e: Reverse<(OrderedFloat, ItemId)>| sorted_nns.view().count(e) > 0 implies heap_elem_ok(rtxn.view(), self.index, opt.candidates, query_leaf.lv(), e) by {
                assert(nd.contains(e));
                let i = choose|i: int| 0 <= i < nd.len() && nd[i] == e;
                assert(heap_elem_ok(rtxn.view(), self.index, opt.candidates, query_leaf.lv(), nd[i]));
            }
        }
//@hint before <<<let mut nns = Vec::new();>>>
        // C03: the budget is search_k (or count x number-of-trees, saturating) x oversampling (or the metric's default), saturating
        assert(search_k == sat_mul(match opt.search_k { Some(k) => k.v, None => sat_mul(opt.count, self.roots@.len() as usize) },
                                   match opt.oversampling { Some(o) => o.v, None => Dist::default_oversampling() }));
//@loop 0
        invariant
            nodes_ok(rtxn.view(), self.index),
            forall|x: (OrderedFloat, NodeId)| queue.view().count(x) > 0 ==> (x.1.mode == NodeMode::Tree || x.1.mode == NodeMode::Item),
            forall|i: int| 0 <= i < nns@.len() ==> in_filter(opt.candidates, #[trigger] nns@[i]),
//@loop 1
        invariant
            nodes_ok(rtxn.view(), self.index),
            0 <= idx__0 <= nns@.len(),
            forall|i: int| 0 <= i < nns@.len() ==> in_filter(opt.candidates, #[trigger] nns@[i]),
            forall|i: int, j: int| 0 <= i < j < nns@.len() ==> nns@[i] < nns@[j],
            nns_distances@.len() == idx__0,
            forall|i: int| 0 <= i < nns_distances@.len() ==> ((#[trigger] nns_distances@[i]).0).1 == nns@[i],
            forall|i: int| 0 <= i < nns_distances@.len() ==> ({
                let e: Reverse<(OrderedFloat, ItemId)> = #[trigger] nns_distances@[i];
                &&& rtxn.view().contains_key(ikey(self.index, (e.0).1))
                &&& in_filter(opt.candidates, (e.0).1)
                &&& (e.0).0.0 == Dist::built_spec(query_leaf.lv(), leafv(rtxn.view(), self.index, (e.0).1))
            }),
//@loop 2
        invariant
            capacity <= opt.count, output@.len() <= capacity,
            // what is still in the heap
            forall|e: Reverse<(OrderedFloat, ItemId)>| #![trigger sorted_nns.view().count(e)] sorted_nns.view().count(e) > 0 ==> heap_elem_ok(rtxn.view(), self.index, opt.candidates, query_leaf.lv(), e),
            forall|e: Reverse<(OrderedFloat, ItemId)>| #![trigger sorted_nns.view().count(e)] sorted_nns.view().count(e) <= 1,
            // what was already emitted
            forall|i: int| 0 <= i < output@.len() ==> out_elem_ok(rtxn.view(), self.index, opt.candidates, query_leaf.lv(), self.dimensions, #[trigger] output@[i]),
            forall|i: int, e: Reverse<(OrderedFloat, ItemId)>| #![trigger output@[i], sorted_nns.view().count(e)] 0 <= i < output@.len() && sorted_nns.view().count(e) > 0 ==>
                (e.0).1 != output@[i].0 && pair_le((Dist::built_spec(query_leaf.lv(), leafv(rtxn.view(), self.index, output@[i].0)), output@[i].0), ((e.0).0.0, (e.0).1)),
            forall|i: int, j: int| #![trigger output@[i], output@[j]] 0 <= i < j < output@.len() ==> output@[i].0 != output@[j].0 && pair_le(
                    (Dist::built_spec(query_leaf.lv(), leafv(rtxn.view(), self.index, output@[i].0)), output@[i].0),
                    (Dist::built_spec(query_leaf.lv(), leafv(rtxn.view(), self.index, output@[j].0)), output@[j].0)),
//@loopstart 2
            let ghost out0 = output@;
//@loopend 2
            proof {
                let x = Reverse((OrderedFloat(dist), item));
                assert(heap_elem_ok(rtxn.view(), self.index, opt.candidates, query_leaf.lv(), x));
                assert(output@[out0.len() as int].0 == item);
                assert forall|i: int| 0 <= i < out0.len() implies output@[i] == out0[i] by {}
                assert forall|i: int, j: int| #![trigger output@[i], output@[j]] 0 <= i < j < output@.len() implies output@[i].0 != output@[j].0 && pair_le(
                    (Dist::built_spec(query_leaf.lv(), leafv(rtxn.view(), self.index, output@[i].0)), output@[i].0),
                    (Dist::built_spec(query_leaf.lv(), leafv(rtxn.view(), self.index, output@[j].0)), output@[j].0)) by {
                    if j == out0.len() {
                        assert(output@[i] == out0[i]);
                        assert(x.0.1 != out0[i].0);
                        assert(pair_le((Dist::built_spec(query_leaf.lv(), leafv(rtxn.view(), self.index, out0[i].0)), out0[i].0), (dist, item)));
                    } else {
                        assert(output@[i] == out0[i]);
                        assert(output@[j] == out0[j]);
                    }
                }
            }
//@end
}

pub open spec fn heap_elem_ok(v: DbView, index: u16, c: Option<&RoaringBitmap>, q: LeafV, e: Reverse<(OrderedFloat, ItemId)>) -> bool {
    &&& v.contains_key(ikey(index, (e.0).1))
    &&& in_filter(c, (e.0).1)
    &&& (e.0).0.0 == Dist::built_spec(q, leafv(v, index, (e.0).1))
}
pub open spec fn out_elem_ok(v: DbView, index: u16, c: Option<&RoaringBitmap>, q: LeafV, dims: usize, o: (ItemId, f32)) -> bool {
    &&& v.contains_key(ikey(index, o.0))
    &&& in_filter(c, o.0)
    &&& o.1 == Dist::normalized_spec(Dist::built_spec(q, leafv(v, index, o.0)), dims)
}

} // verus!
fn main() {}
