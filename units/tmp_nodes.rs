// Unit `tmp_nodes`: the staging area TmpNodes (put / remap / remove) — what the assumed stand-in contract of the other units
// says about these three functions is PROVED here on the real bodies, over the real fields (ids, bounds, deleted, remap_ids)
#![allow(non_snake_case, unused, deprecated)]
use vstd::prelude::*;
verus! {
//@include lib/prelude.rs
//@include lib/specs_store.rs
//@include lib/forest.rs

// ---- stand-ins for the file and the id map -------------------------------------------------------------------------------------
#[verifier::external_body]
pub struct BufFile { x: u8 }
impl BufFile {
    /// ghost: the node values written so far, in order (what the memory map of into_bytes_reader will contain)
    pub uninterp spec fn written(&self) -> Seq<TNode>;
    /// `self.file.write_all(&bytes)` of the bytes encoded from `data`
    #[verifier::external_body]
    pub fn write_all_node_(&mut self, bytes: &EncodedNode) -> (r: heed::Result<()>)
        ensures r is Ok ==> final(self).written() == old(self).written().push(bytes.node()), r matches Err(e) ==> (e is Io || e is Heed) && final(self).written() == old(self).written()
    { unimplemented!() }
}
#[verifier::external_body]
pub struct EncodedNode { x: u8 }
impl EncodedNode {
    pub uninterp spec fn node(&self) -> TNode;
    pub uninterp spec fn blen(&self) -> usize;
    #[verifier::external_body]
    pub fn len(&self) -> (r: usize) ensures r == self.blen() { unimplemented!() }
}
/// `DE::bytes_encode(data).map_err(heed::Error::Encoding)`: the encoded bytes carry the node (codec: C16)
#[verifier::external_body]
pub fn encode_node_(data: &Node) -> (r: heed::Result<EncodedNode>)
    requires !(data is Leaf)
    ensures is_heed(r), r matches Ok(b) ==> b.node() == tnode_of(*data)
{ unimplemented!() }
#[verifier::external_body]
pub struct IntMapU { x: u8 }
impl IntMapU {
    pub uninterp spec fn m(&self) -> Map<u32, u32>;
    #[verifier::external_body]
    pub fn insert(&mut self, k: ItemId, v: ItemId) -> (r: Option<ItemId>) ensures final(self).m() == old(self).m().insert(k, v) { unimplemented!() }
}
impl RoaringBitmap {
    /// `deleted.insert(item)` (returns whether it was new)
    #[verifier::external_body]
    pub fn insert_ret_(&mut self, x: u32) -> (r: bool) ensures final(self)@ == old(self)@.insert(x), r == !old(self)@.contains(x) { unimplemented!() }
}

/// the real fields, plus the two ghost components that rules R12 / R14 thread through the staging area (never touched by these functions)
pub struct TmpNodesC { pub file: BufFile, pub ids: Vec<ItemId>, pub bounds: Vec<usize>, pub deleted: RoaringBitmap, pub remap_ids: IntMapU,
                       pub alloc: Ghost<Set<u32>>, pub tk: Ghost<spec_fn(u16) -> Set<u32>> }
/// the puts as a map: the LAST value written under an id (the write-back loop writes them in order, so the last one stays)
pub open spec fn puts_of(ids: Seq<u32>, vals: Seq<TNode>) -> IMap<u32, TNode>
    decreases ids.len()
{
    if ids.len() == 0 || ids.len() != vals.len() { IMap::<u32, TNode>::empty() } else { puts_of(ids.drop_last(), vals.drop_last()).insert(ids.last(), vals.last()) }
}
impl TmpNodesC {
    /// representation invariant: one id and one end offset per written node
    pub open spec fn wf(&self) -> bool { self.ids@.len() == self.file.written().len() && self.bounds@.len() == self.ids@.len() + 1 }
    pub open spec fn tv(&self) -> TmpV { TmpV { puts: puts_of(self.ids@, self.file.written()), deleted: self.deleted@ } }
    pub open spec fn rm(&self) -> Map<u32, u32> { self.remap_ids.m() }
    pub open spec fn allocated(&self) -> Set<u32> { self.alloc@ }
    pub open spec fn taken(&self) -> spec_fn(u16) -> Set<u32> { self.tk@ }

//@extract src/parallel.rs | impl<'a, DE: BytesEncode<'a>> TmpNodes<DE> | put
//@subst count=any
<<<
DE::bytes_encode(data).map_err(heed::Error::Encoding)?
===
encode_node_(data)?
>>>
//@subst count=any
<<<
data: &DE::EItem,
===
data: &Node,
>>>
//@subst count=any
<<<
self.file.write_all(&bytes)?;
===
self.file.write_all_node_(&bytes)?;
>>>
//@subst count=any
<<<
assert!(item != ItemId::MAX);
===
assert(item != u32::MAX);
>>>
//@subst count=any
<<<
self.bounds.push(last_bound + bytes.len());
===
self.bounds.push(last_bound.wrapping_add(bytes.len()));
>>>
//@hint start <<<>>>
        let ghost ids0 = self.ids@; let ghost w0 = self.file.written();
//@hint before#2 <<<Ok(())>>>
        proof {
            assert(self.ids@.drop_last() =~= ids0); assert(self.file.written().drop_last() =~= w0);
        }
//@specfile lib/contracts/tmpnodes_put.spec
//@end

//@extract src/parallel.rs | impl<'a, DE: BytesEncode<'a>> TmpNodes<DE> | remap
//@specfile lib/contracts/tmpnodes_remap.spec
//@end

//@extract src/parallel.rs | impl<'a, DE: BytesEncode<'a>> TmpNodes<DE> | remove
//@subst count=any
<<<
let deleted = self.deleted.insert(item);
===
let deleted = self.deleted.insert_ret_(item);
>>>
//@specfile lib/contracts/tmpnodes_remove.spec
//@end
}
} // verus!
fn main() {}
