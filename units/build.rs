// Unit `build`: Writer::build — the whole incremental build, composed from the contracts of its steps (C01, C05, C06, C07, C10, C13, C15, C18)
#![allow(non_snake_case, unused, deprecated)]
use vstd::prelude::*;
verus! {
//@include lib/prelude.rs
//@include lib/keys.rs
//@include lib/specs_store.rs
//@include lib/forest.rs
//@include lib/forest_delete.rs
//@include lib/frozen.rs
//@include lib/forest_insert.rs
//@include lib/forest_make.rs
//@include lib/forest_drivers.rs
//@include lib/writeback.rs
//@include lib/forest_iict.rs
//@include lib/forest_incr.rs
//@include lib/frozen_build.rs
pub open spec fn cap_of(opt: &BuildOption, dimensions: usize) -> u64 {
    (match opt.split_after { Some(s) => s, None => dimensions }) as u64
}
//@include lib/count_specs.rs
//@include lib/inv_specs.rs
//@include lib/build_specs.rs

//@extract src/writer.rs | - | target_n_trees
//@stub
//@specfile lib/contracts/target_n_trees.spec
//@end

impl Writer {
//@extract src/writer.rs | impl<D: Distance> Writer<D> | pre_process_items
//@stub
//@specfile lib/contracts/pre_process_items.spec
//@end
//@extract src/writer.rs | impl<D: Distance> Writer<D> | item_indices
//@stub
//@specfile lib/contracts/item_indices.spec
//@end
//@extract src/writer.rs | impl<D: Distance> Writer<D> | reset_and_retrieve_updated_items
//@stub
//@specfile lib/contracts/reset_and_retrieve_updated_items.spec
//@end
//@extract src/writer.rs | impl<D: Distance> Writer<D> | fit_in_descendant
//@stub
//@specfile lib/contracts/fit_in_descendant.spec
//@end
//@extract src/writer.rs | impl<D: Distance> Writer<D> | clear_db_and_create_a_single_leaf
//@stub
//@specfile lib/contracts/clear_db_and_create_a_single_leaf.spec
//@end
//@extract src/writer.rs | impl<D: Distance> Writer<D> | used_tree_node
//@stub
//@specfile lib/contracts/used_tree_node.spec
//@end
//@extract src/writer.rs | impl<D: Distance> Writer<D> | delete_extra_trees
//@stub
//@specfile lib/contracts/delete_extra_trees.spec
//@end
//@extract src/writer.rs | impl<D: Distance> Writer<D> | delete_items_from_trees
//@stub
//@specfile lib/contracts/delete_items_from_trees.spec
//@end
//@extract src/writer.rs | impl<D: Distance> Writer<D> | insert_items_in_current_trees
//@stub
//@specfile lib/contracts/insert_items_in_current_trees.spec
//@end
//@extract src/writer.rs | impl<D: Distance> Writer<D> | incremental_index_large_descendants
//@stub
//@ghostparam Ghost(rs): Ghost<Seq<u32>>
//@specfile lib/contracts/incremental_index_large_descendants.spec
//@end

//@extract src/writer.rs | impl<D: Distance> Writer<D> | build
//@attr #[verifier::exec_allows_no_decreases_clause]
//@ghostarg incremental_index_large_descendants <<<Ghost(roots@)>>>
//@hint start <<<>>>
        let ghost v0 = wtxn.view(); let ghost i = self.index; let ghost cap = cap_of(options, self.dimensions);
//@hint afterstmt <<<self.pre_process_items(wtxn, options)?;>>>
        let ghost v1 = wtxn.view();
//@hint afterstmt <<<let updated_items = self.reset_and_retrieve_updated_items(wtxn, options)?;>>>
        let ghost v2 = wtxn.view(); let ghost its = item_indices@; let ghost upd = updated_items@; let ghost m2 = tmap(v2, i);
        proof {
            lemma_build_start(v0, v1, v2, i, its, upd);
            lemma_same_trees(v0, v2, i);
            lemma_frame_weaken(v0, v2, i, false, true, true, false);
        }
//@hint before <<<return ret__;>>>
            proof {
                lemma_frame_weaken(v2, wtxn.view(), i, true, false, false, true);
                lemma_frame_trans(v0, v2, wtxn.view(), i, true, true, true, true);
                if ret__ is Ok { lemma_single_leaf(v0, v2, wtxn.view(), i, cap, its, upd, self.dimensions as u32, options.n_trees); }
            }
//@hint afterstmt <<<meta_roots_(&metadata);>>>
        let ghost r0 = roots@;
        let ghost old_its = if v2.contains_key(mkey(i)) { v2[mkey(i)]->Meta_0.items } else { its };
        proof {
            assert(trees_hold(m2, r0, old_its, cap));
            assert forall|id: u32| #![trigger its.contains(id)] !upd.contains(id) implies (its.contains(id) <==> old_its.contains(id)) by {
                if v2.contains_key(mkey(i)) { assert(!v0.contains_key(ukey(i, id))); assert(v0.contains_key(ikey(i, id)) <==> v0[mkey(i)]->Meta_0.items.contains(id)); }
            }
        }
//@hint afterstmt <<<let concurrent_node_ids = ConcurrentNodeIds::new(used_node_ids);>>>
        proof { axiom_generator_covers(&concurrent_node_ids, v2, i); }
//@hint afterstmt <<<self.delete_extra_trees(wtxn, options, &mut roots, target_n_trees)?;>>>
        let ghost v3 = wtxn.view(); let ghost r1 = roots@;
        proof { lemma_frame_weaken(v2, v3, i, true, false, false, false); lemma_frame_trans(v0, v2, v3, i, true, true, true, true); }
//@hint afterstmt <<<self.delete_items_from_trees(wtxn, options, &mut roots, &to_delete)?;>>>
        let ghost v4 = wtxn.view(); let ghost r2 = roots@; let ghost m4 = tmap(v4, i); let ghost ins = to_insert@;
        proof {
            lemma_after_deletes(v2, v3, v4, i, r0, r1, r2, target_n_trees, upd, cap, old_its);
            lemma_frame_trans(v2, v3, v4, i, true, false, false, false);
            lemma_leaves_frame(v2, v4, i, true, false, false);
            lemma_frame_weaken(v2, v4, i, true, false, false, false); lemma_frame_trans(v0, v2, v4, i, true, true, true, true);
            assert forall|k: int| 0 <= k < r2.len() implies ins.disjoint(titems(m4, tn(#[trigger] r2[k]))) by {
                assert(titems(m4, tn(r2[k])) == old_its.difference(upd));
            }
        }
//@hint afterstmt <<<let mut large_descendants = self.insert_items_in_current_trees(>>>
        let ghost v5 = wtxn.view(); let ghost m5 = tmap(v5, i);
        proof {
            if r2.len() > 0 { lemma_after_insert(m4, m5, r2, ins, large_descendants@, cap, its, old_its, upd); }
            else { lemma_no_trees(m5, cap); assert(r2 =~= Seq::<u32>::empty()); }
            lemma_frame_trans(v2, v4, v5, i, true, false, false, false);
            lemma_frame_weaken(v2, v5, i, true, false, false, false); lemma_frame_trans(v0, v2, v5, i, true, true, true, true);
        }
//@loop 0
        invariant
            i == self.index, cap == cap_of(options, self.dimensions), its == item_indices@, v0 == old(wtxn).view(),
            concurrent_node_ids.covers(self.index),
            incr_inv(tmap(wtxn.view(), i), tmap(wtxn.view(), i), roots@, large_descendants@, cap),
            forall|k: int| 0 <= k < roots@.len() ==> titems(tmap(wtxn.view(), i), tn(#[trigger] roots@[k])) == its,
            tree_keys_ok(wtxn.view(), i), same_except(v2, wtxn.view(), i, true, false, false, false), same_except(v0, v2, i, true, true, true, true),
            roots@.len() == r2.len() + cnt__, cnt__ <= nb_missing_trees,
//@loopstart 0
            let ghost va = wtxn.view(); let ghost ra = roots@; let ghost la = large_descendants@;
//@loopend 0
            proof {
                let vb = wtxn.view();
                assert(!tmap(va, i).contains_key(new_id));
                lemma_put_tree(va, vb, i, new_id, TNode::Desc(its));
                lemma_grow_step(tmap(va, i), tmap(vb, i), ra, roots@, la, large_descendants@, cap, new_id, its);
                lemma_frame_trans(v2, va, vb, i, true, false, false, false);
            }
//@hint before <<<self.incremental_index_large_descendants(>>>
        let ghost v6 = wtxn.view(); let ghost rs = roots@;
        proof {
            lemma_leaves_frame(v2, v6, i, true, false, false);
            lemma_frame_weaken(v2, v6, i, true, false, false, false); lemma_frame_trans(v0, v2, v6, i, true, true, true, true);
            assert forall|k: int, id: u32| #![trigger titems(tmap(v6, i), tn(rs[k])).contains(id)] 0 <= k < rs.len() && titems(tmap(v6, i), tn(rs[k])).contains(id) implies v6.contains_key(ikey(i, id)) by {
                assert(its.contains(id)); assert(v0.contains_key(ikey(i, id))); assert(v2.contains_key(ikey(i, id)));
            }
        }
//@hint afterstmt <<<self.incremental_index_large_descendants(>>>
        let ghost v7 = wtxn.view();
        proof {
            lemma_frame_trans(v2, v6, v7, i, true, false, false, false);
            lemma_frame_weaken(v2, v7, i, true, false, false, false); lemma_frame_trans(v0, v2, v7, i, true, true, true, true);
        }
//@hint before#2 <<<Ok(())>>>
        proof {
            let v8 = wtxn.view();
            lemma_build_end(v0, v2, v6, v7, v8, i, cap, rs, its, upd, self.dimensions as u32, target_n_trees, options.n_trees, metadata.mv());
            assert(same_except(v7, v8, i, true, true, true, true)) by {
                assert forall|k: AKey| !(k.index == i) implies (#[trigger] v7.contains_key(k) == v8.contains_key(k) && (v7.contains_key(k) ==> v7[k] == v8[k])) by { assert(k != mkey(i)); }
            }
            lemma_frame_trans(v0, v7, v8, i, true, true, true, true);
        }
//@specfile lib/contracts/build.spec
//@end
}
} // verus!
fn main() {}
