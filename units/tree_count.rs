// Unit `tree_count`: target_n_trees and fit_in_descendant (C15)
#![allow(non_snake_case, unused, deprecated)]
use vstd::prelude::*;
verus! {
//@include lib/prelude.rs

//@include lib/count_specs.rs
#[verifier::external_body]
pub fn ratio_lt_020_(a: u64, b: u64) -> (r: bool) ensures r == ratio_small(a, b) { unimplemented!() }

pub open spec fn cap_of(opt: &BuildOption, dimensions: usize) -> u64 {
    (match opt.split_after { Some(s) => s, None => dimensions }) as u64
}

impl Writer {
//@extract src/writer.rs | impl<D: Distance> Writer<D> | fit_in_descendant
//@specfile lib/contracts/fit_in_descendant.spec
//@end
}

//@extract src/writer.rs | - | target_n_trees
//@subst
<<<
(tree_to_remove as f64 / nb_trees as f64) < 0.20
===
ratio_lt_020_(tree_to_remove, nb_trees)
>>>
//@specfile lib/contracts/target_n_trees.spec
//@end


} // verus!
fn main() {}
