// Unit `tree_count`: target_n_trees and fit_in_descendant (C15)
#![allow(non_snake_case, unused, deprecated)]
use vstd::prelude::*;
verus! {
//@include lib/prelude.rs

/// the f64 hysteresis test of target_n_trees is an uninterpreted boolean (floating point is not decided)
pub uninterp spec fn ratio_small(a: u64, b: u64) -> bool;
#[verifier::external_body]
pub fn ratio_lt_020_(a: u64, b: u64) -> (r: bool) ensures r == ratio_small(a, b) { unimplemented!() }

pub open spec fn cap_of(opt: &BuildOption, dimensions: usize) -> u64 {
    (match opt.split_after { Some(s) => s, None => dimensions }) as u64
}

impl Writer {
//@extract src/writer.rs | impl<D: Distance> Writer<D> | fit_in_descendant
//@spec
    ensures r == (n <= cap_of(opt, self.dimensions))
//@end
}

//@extract src/writer.rs | - | target_n_trees
//@subst
<<<
(tree_to_remove as f64 / nb_trees as f64) < 0.20
===
ratio_lt_020_(tree_to_remove, nb_trees)
>>>
//@spec
    requires dimensions >= 1,
    ensures
        // C15: an explicit request is honoured exactly
        options.n_trees matches Some(n) ==> r == n as u64,
        // automatic: the formula or (hysteresis) the current count, and never zero
        options.n_trees is None ==> (r == auto_trees(item_indices@.len() as u64, dimensions) || (r == roots@.len() as u64 && roots@.len() as u64 > auto_trees(item_indices@.len() as u64, dimensions))),
        options.n_trees is None ==> r >= 1,
//@end

pub open spec fn auto_trees(n: u64, d: u64) -> u64 {
    let q = (n as int) / ((n as int) / (d as int) + 1);
    if q < 1 { 1u64 } else { q as u64 }
}

} // verus!
fn main() {}
