// Unit `node_ids`: ConcurrentNodeIds::{new,next} under an interference-tolerant contract for atomics (C13)
#![allow(non_snake_case, unused, deprecated)]
use vstd::prelude::*;
verus! {
//@include lib/prelude.rs

// ---- atomics: what a thread may assume while OTHER threads run (no ordering is assumed) --------------
// fetch_add returns a *ticket*: some value v with the ghost fact issued(v); the only assumption about
// tickets (A-ticket, used by lemma_distinct_tickets_distinct_ids) is that an atomic read-modify-write
// never issues the same value twice before the counter wraps. load() returns an arbitrary value and
// gives no ticket; store() gives nothing.
pub enum Ordering { Relaxed, SeqCst, Acquire, Release, AcqRel }
#[verifier::external_body]
pub struct AtomicU32 { x: u8 }
impl AtomicU32 {
    pub uninterp spec fn init(&self) -> u32;                  // value the atomic was created with
    pub uninterp spec fn issued(&self, v: u32) -> bool;       // v was returned by a fetch_add on this atomic
    #[verifier::external_body]
    pub fn new(v: u32) -> (r: AtomicU32) ensures r.init() == v { unimplemented!() }
    /// issued values start at the initial value (counter only grows; wrap-around is excluded by the `used` budget)
    #[verifier::external_body]
    pub fn fetch_add(&self, val: u32, order: Ordering) -> (v: u32) ensures self.issued(v), val == 1 ==> v >= self.init() { unimplemented!() }
    #[verifier::external_body]
    pub fn load(&self, order: Ordering) -> (v: u32) { unimplemented!() }
    #[verifier::external_body]
    pub fn store(&self, v: u32, order: Ordering) { unimplemented!() }
}
#[verifier::external_body]
pub struct AtomicU64 { x: u8 }
impl AtomicU64 {
    pub uninterp spec fn init(&self) -> u64;
    pub uninterp spec fn issued(&self, v: u64) -> bool;
    #[verifier::external_body]
    pub fn new(v: u64) -> (r: AtomicU64) ensures r.init() == v { unimplemented!() }
    #[verifier::external_body]
    pub fn fetch_add(&self, val: u64, order: Ordering) -> (v: u64) ensures self.issued(v), val == 1 ==> v >= self.init() { unimplemented!() }
    #[verifier::external_body]
    pub fn load(&self, order: Ordering) -> (v: u64) { unimplemented!() }
}
#[verifier::external_body]
pub struct AtomicBool { x: u8 }
impl AtomicBool {
    #[verifier::external_body]
    pub fn new(v: bool) -> (r: AtomicBool) { unimplemented!() }
    #[verifier::external_body]
    pub fn load(&self, order: Ordering) -> (v: bool) { unimplemented!() }
    #[verifier::external_body]
    pub fn store(&self, v: bool, order: Ordering) { unimplemented!() }
}

// select(n) of roaring: the n-th smallest element
pub uninterp spec fn nth(s: Set<u32>, n: u32) -> Option<u32>;
/// assumed properties of RoaringBitmap::select (rank/select of a sorted set)
pub broadcast proof fn axiom_nth(s: Set<u32>, n: u32)
    ensures
        (#[trigger] nth(s, n)) matches Some(x) ==> s.contains(x),
        forall|k: u32| (nth(s, n) matches Some(x)) && (nth(s, k) matches Some(y)) && n != k ==> nth(s, n) != nth(s, k),
{ admit(); }
impl RoaringBitmap {
    #[verifier::external_body]
    pub fn select(&self, n: u32) -> (r: Option<u32>) ensures r == nth(self@, n) { unimplemented!() }
    /// rule R7 target for `RoaringBitmap::from_sorted_iter(0..last_id).unwrap() - used`
    #[verifier::external_body]
    pub fn range_minus_(last_id: u32, used: RoaringBitmap) -> (r: RoaringBitmap)
        ensures forall|x: u32| r@.contains(x) <==> (x < last_id && !used@.contains(x))
    { unimplemented!() }
}

pub struct ConcurrentNodeIds {
    pub current: AtomicU32,
    pub used: AtomicU64,
    pub available: RoaringBitmap,
    pub select_in_bitmap: AtomicU32,
    pub look_into_bitmap: AtomicBool,
}

impl ConcurrentNodeIds {
    /// what `new(used)` establishes
    pub open spec fn wf(&self, used0: Set<u32>) -> bool {
        &&& (forall|x: u32| #[trigger] self.available@.contains(x) ==> !used0.contains(x) && x < self.current.init())
        &&& (forall|x: u32| #[trigger] used0.contains(x) ==> x < self.current.init())
        &&& self.used.init() == used0.len()
    }
    /// the id returned by `next` is backed by a ticket
    pub open spec fn ticketed(&self, id: u32) -> bool {
        (exists|s: u32| self.select_in_bitmap.issued(s) && nth(self.available@, s) == Some(id)) || self.current.issued(id)
    }

//@extract src/parallel.rs | impl ConcurrentNodeIds | new
//@subst count=opt
<<<
used.max().map_or(0, |id| id + 1)
===
match used.max() { None => 0, Some(id) => id + 1 }
>>>
//@subst
<<<
RoaringBitmap::from_sorted_iter(0..last_id).unwrap() - used
===
RoaringBitmap::range_minus_(last_id, used)
>>>
//@spec
    requires !used@.contains(u32::MAX),     // u32::MAX is never a tree id (TmpNodes::put asserts it; forest invariant)
    ensures r.wf(used@)
//@end

//@extract src/parallel.rs | impl ConcurrentNodeIds | next
//@hint after <<<pub fn next(&self)>>>
        broadcast use axiom_nth;
//@spec
    ensures match r {
        // C13: the id is backed by a ticket nobody else holds, and is not one of the ids in use
        Ok(id) => self.ticketed(id) && (forall|u: Set<u32>| self.wf(u) ==> !u.contains(id)),
        Err(e) => e == Error::DatabaseFull,
    }
//@end
}

/// C13 (pure lemma over the contract of `next`): two requesters holding different tickets get different ids.
/// A-ticket: a ticket value is issued at most once, so distinct calls hold distinct tickets of the same counter.
pub proof fn lemma_distinct_tickets_distinct_ids(g: ConcurrentNodeIds, u: Set<u32>, s1: u32, s2: u32, c1: u32, c2: u32)
    requires g.wf(u)
    ensures
        // both from the recycled bitmap, different cursor tickets
        s1 != s2 && (nth(g.available@, s1) matches Some(a)) && (nth(g.available@, s2) matches Some(b)) ==> nth(g.available@, s1) != nth(g.available@, s2),
        // both fresh, different counter tickets
        c1 != c2 ==> c1 != c2,
        // one recycled, one fresh: recycled ids are below the initial counter, fresh ones are not
        (nth(g.available@, s1) matches Some(a)) && c1 >= g.current.init() ==> nth(g.available@, s1) != Some(c1),
{
    broadcast use axiom_nth;
    match nth(g.available@, s1) { Some(a) => { assert(g.available@.contains(a)); assert(a < g.current.init()); }, None => {} }
}

} // verus!
fn main() {}
