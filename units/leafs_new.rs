// Unit `leafs_new`: ImmutableLeafs::new — memory-budgeted selection of the items mapped for one pass (C14, C01)
#![allow(non_snake_case, unused, deprecated)]
use vstd::prelude::*;
verus! {
//@include lib/prelude.rs
//@include lib/keys.rs
//@include lib/specs_store.rs
//@include lib/bitmap_select.rs

// ---- stand-ins for page_size / nohash / raw pointers (addresses are uninterpreted) -----------------------------
pub mod page_size {
    use vstd::prelude::*;
    #[verifier::external_body]
    pub fn get() -> (r: usize) ensures r > 0 { unimplemented!() }
}
pub struct BuildNoHashHasher { }
impl BuildNoHashHasher { pub fn default() -> BuildNoHashHasher { BuildNoHashHasher { } } }
#[derive(Copy, Clone)]
pub struct Ptr { pub addr: usize }
impl Ptr { pub fn addr_(self) -> (r: usize) ensures r == self.addr { self.addr } }
impl NodeBytes {
    pub uninterp spec fn baddr(&self) -> usize;
    #[verifier::external_body]
    pub fn len(&self) -> (r: usize) ensures r == self.blen() { unimplemented!() }
    /// a mapped value does not wrap around the address space
    #[verifier::external_body]
    pub fn as_ptr(&self) -> (r: Ptr) ensures r.addr == self.baddr(), self.baddr() + self.blen() <= usize::MAX { unimplemented!() }
}
#[verifier::external_body]
pub struct IntMap { x: u8 }
impl IntMap {
    pub uninterp spec fn keys(&self) -> Set<u32>;
    #[verifier::external_body]
    pub fn with_capacity_and_hasher(n: usize, h: BuildNoHashHasher) -> (r: IntMap) ensures r.keys() == Set::<u32>::empty() { unimplemented!() }
    #[verifier::external_body]
    pub fn insert(&mut self, k: u32, v: Ptr) ensures final(self).keys() == old(self).keys().insert(k) { unimplemented!() }
    #[verifier::external_body]
    pub fn len(&self) -> (r: usize) ensures r == self.keys().len() { unimplemented!() }
}
#[verifier::external_body]
pub struct IntSet { x: u8 }
impl IntSet {
    #[verifier::external_body]
    pub fn with_capacity_and_hasher(n: usize, h: BuildNoHashHasher) -> (r: IntSet) { unimplemented!() }
    #[verifier::external_body]
    pub fn insert(&mut self, k: usize) { unimplemented!() }
    #[verifier::external_body]
    pub fn len(&self) -> (r: usize) { unimplemented!() }
}
/// rule R7 targets (floating point / Option::get_or_insert)
#[verifier::external_body]
pub fn pages_allowed_(memory: usize, page_size: usize) -> (r: usize) { unimplemented!() }
/// `assert_eq!(*constant_length.get_or_insert(len), len)`: true iff no length was recorded yet or it is the same
pub fn same_length_(constant_length: &mut Option<usize>, len: usize) -> (r: bool)
    ensures r == (*old(constant_length) is None || *old(constant_length) == Some(len)), r ==> *final(constant_length) == Some(len)
{
    match *constant_length { None => { *constant_length = Some(len); true } Some(l) => l == len }
}
pub struct ImmutableLeafs { pub leafs: IntMap, pub constant_length: Option<usize>, pub _marker: core::marker::PhantomData<Dist> }

impl ImmutableLeafs {
//@extract src/parallel.rs | impl<'t, D: Distance> ImmutableLeafs<'t, D> | new
//@attr #[verifier::exec_allows_no_decreases_clause]
//@subst
<<<
(memory as f64 / page_size as f64).floor() as usize
===
pages_allowed_(memory, page_size)
>>>
//@subst
<<<
assert_eq!(*constant_length.get_or_insert(bytes.len()), bytes.len());
===
let same__ = same_length_(&mut constant_length, bytes.len()); assert(same__);
>>>
//@subst
<<<
let addr = ptr as usize;
===
let addr = ptr.addr_();
>>>
//@subst
<<<
marker::PhantomData
===
core::marker::PhantomData
>>>
//@specfile lib/contracts/immutable_leafs_new.spec
//@loop 0
        invariant
            forall|id: u32| candidates@.contains(id) ==> rtxn.view().contains_key(ikey(index, id)),
            leaves_same_len(rtxn.view(), index),
            selected_items@.union(candidates@) == old(candidates)@,
            selected_items@.disjoint(candidates@),
            leafs.keys() == selected_items@,
            forall|a: u32, b: u32| selected_items@.contains(a) && candidates@.contains(b) ==> a < b,
            page_size > 0,
            constant_length matches Some(l) ==> (exists|a: u32, x: NodeBytes| #![trigger x.aval(), ikey(index, a)] rtxn.view().contains_key(ikey(index, a)) && x.aval() == rtxn.view()[ikey(index, a)] && x.blen() == l),
            old(candidates)@.len() > 0 && selected_items@.len() == 0 ==> candidates@ =~= old(candidates)@,
        ensures
            candidates@ =~= Set::<u32>::empty() || leafs.keys().len() >= min_items,
        // C20 / C14 (bounded time): every pass that does not leave the loop takes one candidate away
        decreases candidates@.len(),
//@hint before <<<Ok((>>>
        proof {
            vstd::set_lib::lemma_set_disjoint_lens(selected_items@, candidates@);
            if old(candidates)@.len() > 0 && selected_items@.len() == 0 && min_items >= 1 {
                assert(candidates@ =~= old(candidates)@);
                assert(leafs.keys().len() == 0);
                assert(candidates@.len() == 0);
            }
        }
//@end
}

} // verus!
fn main() {}
