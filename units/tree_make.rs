// Unit `tree_make`: Writer::make_tree_in_file (C01 new subtrees, C15 bucket bound, C04 placement, C20 fallback split)
#![allow(non_snake_case, unused, deprecated)]
use vstd::prelude::*;
verus! {
//@include lib/prelude.rs
//@include lib/keys.rs
//@include lib/specs_store.rs
//@include lib/forest.rs
//@include lib/frozen.rs
//@include lib/forest_insert.rs
//@include lib/forest_make.rs

pub open spec fn cap_of(opt: &BuildOption, dimensions: usize) -> u64 {
    (match opt.split_after { Some(s) => s, None => dimensions }) as u64
}

//@extract src/writer.rs | - | randomly_split_children
//@attr #[verifier::external_body]
//@spec
    ensures
        final(children_left)@.union(final(children_right)@) == item_indices@,
        final(children_left)@.disjoint(final(children_right)@),
//@end

impl Writer {
//@extract src/writer.rs | impl<D: Distance> Writer<D> | fit_in_descendant
//@spec
    ensures r == (n <= cap_of(opt, self.dimensions))
//@end

//@extract src/writer.rs | impl<D: Distance> Writer<D> | make_tree_in_file
//@attr #[verifier::exec_allows_no_decreases_clause]
//@hint start <<<>>>
        let ghost m = reader.trees.snap();
        let ghost u0 = (tmp_nodes.taken())(self.index);
        let ghost t0 = tmp_nodes.tv();
        let ghost a0 = tmp_nodes.allocated();
        let ghost cap = cap_of(opt, self.dimensions);
        let ghost items = item_indices@;
        proof { axiom_bm_seq(items); }
//@hint before <<<return Ok((NodeId::item(item_indices.min().unwrap()), 0));>>>
            proof {
                assert(!(items =~= Set::<u32>::empty())) by { if items =~= Set::<u32>::empty() { assert(items.len() == 0); } }
                let x = choose|x: u32| set_min(items, x);
                if exists|x: u32| set_min(items, x) { lemma_mk_item(m, u0, t0, a0, items, cap, x, reader.leafs); }
            }
//@hint before <<<return Ok((NodeId::tree(item_id), 1));>>>
            proof { lemma_mk_desc(m, u0, t0, tmp_nodes.tv(), a0, tmp_nodes.allocated(), items, cap, item_id, reader.leafs); }
//@subst
<<<
let normal__brk;
===
let normal__brk: UVec;
>>>
//@loop 0
        invariant
            tmp_nodes.tv() == t0, tmp_nodes.allocated() == a0, tmp_nodes.rm() == old(tmp_nodes).rm(), tmp_nodes.taken() == old(tmp_nodes).taken(),
            0 <= remaining_attempts <= 3,
            item_indices@ == items, items.subset_of(reader.leafs.ids()),
        ensures
            split_ok(children_left@, children_right@, items, normal__brk.vv(), reader.leafs),
            tmp_nodes.tv() == t0, tmp_nodes.allocated() == a0, tmp_nodes.rm() == old(tmp_nodes).rm(), tmp_nodes.taken() == old(tmp_nodes).taken(),
        // C20 (bounded time): every pass that does not leave the loop uses up one of the three attempts
        decreases remaining_attempts,
//@loop 1
        invariant
            iter__0.seq@ == bm_seq(items), 0 <= iter__0.pos@ <= iter__0.seq@.len(), tmp_nodes.rm() == old(tmp_nodes).rm(), tmp_nodes.taken() == old(tmp_nodes).taken(),
            items.subset_of(reader.leafs.ids()),
            part_ok(children_left@, children_right@, iter__0.seq@, iter__0.pos@, normal.vv(), reader.leafs),
        ensures
            iter__0.pos@ == iter__0.seq@.len(),
//@loopstart 1
                let ghost cl0 = children_left@; let ghost cr0 = children_right@; let ghost k0 = iter__0.pos@ - 1;
                proof { axiom_bm_seq(items); assert(items.contains(iter__0.seq@[k0])); }
//@loopend 1
                proof {
                    assert(sorted_strict(iter__0.seq@)) by { axiom_bm_seq(items); }
                    lemma_part_step(cl0, cr0, children_left@, children_right@, iter__0.seq@, k0, normal.vv(), reader.leafs, item_id);
                }
//@hint before <<<if split_imbalance(children_left.len() as u64, children_right.len() as u64) < 0.95>>>
            proof { lemma_part_done(children_left@, children_right@, items, normal.vv(), reader.leafs); }
//@hint before <<<let (children_left, children_right) =>>>
        let ghost clv = children_left@; let ghost crv = children_right@; let ghost nrm0 = normal.vv();
//@hint afterstmt <<<let (children_left, children_right) =>>>
        let ghost lset = children_left@; let ghost rset = children_right@;
        proof {
            assert(split_ok(clv, crv, items, nrm0, reader.leafs));
            // else-branch (the two vectors became the two bitmaps, the plane is unchanged); the random branch gives its facts directly
            if (forall|x: u32| lset.contains(x) <==> clv.contains(x)) && (forall|x: u32| rset.contains(x) <==> crv.contains(x)) {
                assert forall|x: u32| lset.contains(x) && rset.contains(x) implies false by {
                    assert(clv.contains(x) && crv.contains(x));
                    let i = choose|i: int| 0 <= i < clv.len() && clv[i] == x; let j = choose|j: int| 0 <= j < crv.len() && crv[j] == x; assert(clv[i] != crv[j]);
                }
                assert(lset.disjoint(rset));
                assert(lset.union(rset) =~= items);
                if normal.vv() == nrm0 {
                    assert forall|x: u32| #![trigger lset.contains(x)] lset.contains(x) implies !(Dist::margin_sign(normal.vv(), reader.leafs.lv(x)) > 0) by {
                        assert(clv.contains(x));
                        let i = choose|i: int| 0 <= i < clv.len() && clv[i] == x; assert(!(Dist::margin_sign(nrm0, reader.leafs.lv(clv[i])) > 0));
                    }
                    assert forall|x: u32| #![trigger rset.contains(x)] rset.contains(x) implies !(Dist::margin_sign(normal.vv(), reader.leafs.lv(x)) < 0) by {
                        assert(crv.contains(x));
                        let j = choose|j: int| 0 <= j < crv.len() && crv[j] == x; assert(!(Dist::margin_sign(nrm0, reader.leafs.lv(crv[j])) < 0));
                    }
                }
            }
            assert(lset.union(rset) =~= items);
            assert(lset.disjoint(rset));
        }
        let ghost nrm1 = normal.vv();
//@hint afterstmt <<<let (left, l) = self.make_tree_in_file(>>>
        let ghost tl = tmp_nodes.tv(); let ghost al = tmp_nodes.allocated();
//@hint afterstmt <<<let (right, r) = self.make_tree_in_file(>>>
        let ghost tr = tmp_nodes.tv(); let ghost ar = tmp_nodes.allocated();
//@hint before <<<Ok((NodeId::tree(new_node_id), l + r + 1))>>>
        proof { lemma_mk_split(m, u0, t0, tl, tr, tmp_nodes.tv(), a0, al, ar, tmp_nodes.allocated(), items, lset, rset, cap, left, right, l, r, new_node_id, normal.normal.vv(), reader.leafs); }
//@specfile lib/contracts/make_tree_in_file.spec
//@end
}

} // verus!
fn main() {}
