// Unit `iict_lib`: lemmas for insert_items_in_current_trees (per-pass write-back, pass composition) (no extracted code)
#![allow(non_snake_case, unused, deprecated)]
use vstd::prelude::*;
verus! {
//@include lib/prelude.rs
//@include lib/specs_store.rs
//@include lib/forest.rs
//@include lib/forest_delete.rs
//@include lib/frozen.rs
//@include lib/forest_insert.rs
//@include lib/forest_drivers.rs
//@include lib/writeback.rs
//@include lib/forest_iict.rs
} // verus!
fn main() {}
