// Unit `tree_insert`: Writer::insert_items_in_file and randomly_split_children (C01, C04 placement, C15 bucket queue, C10 no-panic)
#![allow(non_snake_case, unused, deprecated)]
use vstd::prelude::*;
verus! {
//@include lib/prelude.rs
//@include lib/keys.rs
//@include lib/specs_store.rs
//@include lib/forest.rs
//@include lib/frozen.rs
//@include lib/forest_insert.rs

pub open spec fn cap_of(opt: &BuildOption, dimensions: usize) -> u64 {
    (match opt.split_after { Some(s) => s, None => dimensions }) as u64
}

//@extract src/writer.rs | - | randomly_split_children
//@attr #[verifier::exec_allows_no_decreases_clause]
//@spec
    ensures
        final(children_left)@.union(final(children_right)@) == item_indices@,
        final(children_left)@.disjoint(final(children_right)@),
//@loop 0
        invariant
            forall|x: u32| #![trigger children_left@.contains(x)] #![trigger children_right@.contains(x)] (children_left@.contains(x) || children_right@.contains(x)) <==> (exists|j: int| 0 <= j < idx__0 && item_indices.seq_()[j] == x),
            children_left@.disjoint(children_right@),
            0 <= idx__0 <= item_indices.seq_().len(),
            forall|x: u32| #![trigger children_left@.contains(x)] #![trigger children_right@.contains(x)] (children_left@.contains(x) || children_right@.contains(x)) && idx__0 < item_indices.seq_().len() ==> x < item_indices.seq_()[idx__0 as int],
//@loopstart 0
        let ghost l0 = children_left@; let ghost r0 = children_right@; let ghost k0 = idx__0 as int;
        proof { axiom_bm_seq(item_indices@); }
//@loopend 0
        proof {
            let sq = item_indices.seq_();
            assert(item_id == sq[k0]);
            assert forall|x: u32| (l0.contains(x) || r0.contains(x)) implies x < item_id by {}
            assert(children_left@ == l0.insert(item_id) && children_right@ == r0 || children_left@ == l0 && children_right@ == r0.insert(item_id));
            assert forall|x: u32| #![trigger children_left@.contains(x)] #![trigger children_right@.contains(x)] (children_left@.contains(x) || children_right@.contains(x)) implies (exists|j: int| 0 <= j < idx__0 && sq[j] == x) by {
                if x == item_id { assert(sq[k0] == x); } else { let j = choose|j: int| 0 <= j < k0 && sq[j] == x; assert(sq[j] == x); }
            }
            assert forall|x: u32| (exists|j: int| 0 <= j < idx__0 && sq[j] == x) implies (children_left@.contains(x) || children_right@.contains(x)) by {
                let j = choose|j: int| 0 <= j < idx__0 && sq[j] == x;
                if j < k0 { assert(l0.contains(x) || r0.contains(x)); }
            }
            if idx__0 < sq.len() { assert(sq[k0] < sq[idx__0 as int]); }
        }
//@hint before <<<children_left.clear();>>>
    proof { axiom_bm_seq(item_indices@); }
//@end

impl Writer {
//@extract src/writer.rs | impl<D: Distance> Writer<D> | fit_in_descendant
//@spec
    ensures r == (n <= cap_of(opt, self.dimensions))
//@end

//@extract src/writer.rs | impl<D: Distance> Writer<D> | insert_items_in_file
//@attr #[verifier::exec_allows_no_decreases_clause]
//@hint start <<<>>>
        let ghost m = frozen_reader.trees.snap();
        let ghost u0 = (tmp_nodes.taken())(self.index);
        let ghost s = tnodes(m, current_node);
        let ghost t0 = tmp_nodes.tv();
        let ghost a0 = tmp_nodes.allocated();
        let ghost cap = cap_of(opt, self.dimensions);
        let ghost lg0 = large_descendants@;
        let ghost ins = to_insert@;
        proof { assert(ins_pre(m, u0, current_node, t0, a0, ins, cap)); }
//@hint before <<<Ok(node_id)>>>
                    proof { lemma_ins_item_new(m, u0, current_node, t0, tmp_nodes.tv(), a0, tmp_nodes.allocated(), ins, cap, lg0, large_descendants@, node_id.item, frozen_reader.leafs); }
//@hint before#1 <<<Ok(current_node)>>>
                    proof { lemma_ins_item_same(m, u0, current_node, t0, a0, ins, cap, lg0, frozen_reader.leafs); }
//@hint before <<<match frozen_reader.trees.get(current_node.item)?.unwrap() {>>>
                proof { assert(current_node == tn(current_node.item)); lemma_unfold(m, current_node.item); }
//@hint before#2 <<<Ok(current_node)>>>
                        proof { lemma_ins_desc(m, u0, current_node, t0, tmp_nodes.tv(), a0, ins, cap, lg0, large_descendants@, frozen_reader.leafs); }
//@hint before <<<let new_left = self.insert_items_in_file(>>>
                        let ghost lset = left_ids@; let ghost rset = right_ids@;
                        proof {
                            axiom_bm_seq(to_insert@);
                            assert(lset.union(rset) =~= ins && lset.disjoint(rset)) by {
                                if !Dist::vzero(normal.vv()) {
                                    let sq = to_insert.seq_();
                                    assert forall|x: u32| ins.contains(x) implies lset.union(rset).contains(x) by { assert(sq.contains(x)); let j = choose|j: int| 0 <= j < sq.len() && sq[j] == x; assert(sq[j] == x); }
                                    assert forall|x: u32| lset.union(rset).contains(x) implies ins.contains(x) by { let j = choose|j: int| 0 <= j < sq.len() && sq[j] == x; assert(ins.contains(sq[j])); }
                                }
                            }
                            assert(m[current_node.item] == TNode::Split(left, right, normal.vv()));
                            assert(lset.disjoint(titems(m, left)) && rset.disjoint(titems(m, right))) by {
                                assert forall|x: u32| lset.contains(x) && titems(m, left).contains(x) implies false by { assert(lset.union(rset).contains(x)); assert(ins.contains(x)); assert(titems(m, current_node).contains(x)); }
                                assert forall|x: u32| rset.contains(x) && titems(m, right).contains(x) implies false by { assert(lset.union(rset).contains(x)); assert(ins.contains(x)); assert(titems(m, current_node).contains(x)); }
                            }
                            assert(tmp_untouched(t0, tnodes(m, left))) by { assert forall|x: u32| #![trigger tnodes(m, left).contains(x)] tnodes(m, left).contains(x) implies !t0.puts.contains_key(x) && !t0.deleted.contains(x) by { assert(s.contains(x)); } }
                        }
//@hint before <<<let new_right = self.insert_items_in_file(>>>
                        let ghost tl = tmp_nodes.tv(); let ghost al = tmp_nodes.allocated(); let ghost lgl = large_descendants@;
                        proof {
                            lemma_nodes_exist(m, right);
                            assert(tmp_untouched(tl, tnodes(m, right))) by {
                                assert forall|x: u32| #![trigger tnodes(m, right).contains(x)] tnodes(m, right).contains(x) implies !tl.puts.contains_key(x) && !tl.deleted.contains(x) by {
                                    assert(s.contains(x)); assert(!tnodes(m, left).contains(x)); assert(m.contains_key(x)); assert(u0.contains(x));
                                    if al.contains(x) { assert(!u0.contains(x)); }
                                    assert(!tnodes(m, left).union(al.difference(a0)).contains(x));
                                }
                            }
                        }
//@hint afterstmt <<<let new_right = self.insert_items_in_file(>>>
                        let ghost tr = tmp_nodes.tv(); let ghost ar = tmp_nodes.allocated(); let ghost lgr = large_descendants@;
//@hint before#3 <<<Ok(current_node)>>>
                            proof { lemma_ins_split(m, u0, current_node, t0, tl, tr, tmp_nodes.tv(), a0, al, ar, ins, lset, rset, cap, lg0, lgl, lgr, new_left, new_right, frozen_reader.leafs); }
//@hint before#4 <<<Ok(current_node)>>>
                            proof { lemma_ins_split(m, u0, current_node, t0, tl, tr, tmp_nodes.tv(), a0, al, ar, ins, lset, rset, cap, lg0, lgl, lgr, new_left, new_right, frozen_reader.leafs); }
//@loop 0
        invariant
            0 <= idx__0 <= to_insert.seq_().len(),
            to_insert@.subset_of(frozen_reader.leafs.ids()),
            left_ids@.disjoint(right_ids@),
            forall|x: u32| #![trigger left_ids@.contains(x)] #![trigger right_ids@.contains(x)] (left_ids@.contains(x) || right_ids@.contains(x)) <==> (exists|j: int| 0 <= j < idx__0 && to_insert.seq_()[j] == x),
            forall|x: u32| #![trigger left_ids@.contains(x)] left_ids@.contains(x) ==> !(Dist::margin_sign(normal.vv(), frozen_reader.leafs.lv(x)) > 0),
            forall|x: u32| #![trigger right_ids@.contains(x)] right_ids@.contains(x) ==> !(Dist::margin_sign(normal.vv(), frozen_reader.leafs.lv(x)) < 0),
//@loopstart 0
                                let ghost l0 = left_ids@; let ghost r0 = right_ids@; let ghost k0 = idx__0 as int;
                                proof { axiom_bm_seq(to_insert@); assert(to_insert@.contains(to_insert.seq_()[k0])); }
//@loopend 0
                                proof {
                                    let sq = to_insert.seq_();
                                    assert(leaf == sq[k0]);
                                    assert(!l0.contains(leaf) && !r0.contains(leaf)) by {
                                        if l0.contains(leaf) || r0.contains(leaf) { let j = choose|j: int| 0 <= j < k0 && sq[j] == leaf; assert(sq[j] < sq[k0]); }
                                    }
                                    assert forall|x: u32| #![trigger left_ids@.contains(x)] #![trigger right_ids@.contains(x)] (left_ids@.contains(x) || right_ids@.contains(x)) implies (exists|j: int| 0 <= j < idx__0 && sq[j] == x) by {
                                        if x == leaf { assert(sq[k0] == x); } else { let j = choose|j: int| 0 <= j < k0 && sq[j] == x; assert(sq[j] == x); }
                                    }
                                    assert forall|x: u32| (exists|j: int| 0 <= j < idx__0 && sq[j] == x) implies (left_ids@.contains(x) || right_ids@.contains(x)) by {
                                        let j = choose|j: int| 0 <= j < idx__0 && sq[j] == x;
                                        if j < k0 { assert(l0.contains(x) || r0.contains(x)); }
                                    }
                                }
//@specfile lib/contracts/insert_items_in_file.spec
//@end
}

} // verus!
fn main() {}
