// Unit `forest_lib`: the forest specification library and its lemmas (no extracted code)
#![allow(non_snake_case, unused, deprecated)]
use vstd::prelude::*;
verus! {
//@include lib/prelude.rs
//@include lib/specs_store.rs
//@include lib/forest.rs
} // verus!
fn main() {}
