// ---- insert_items_in_current_trees: per-pass and whole-call reasoning ------------------------------------------------
pub open spec fn empty_tv() -> TmpV { TmpV { puts: IMap::<u32, TNode>::empty(), deleted: Set::<u32>::empty() } }
/// ghost summary of one per-root result of insert_items_in_tree
pub struct PR { pub tv: TmpV, pub al: Set<u32>, pub tk: Set<u32>, pub lg: Set<u32> }
pub open spec fn pr_of(rd: &TmpNodesReader, lg: Set<u32>, i: u16) -> PR { PR { tv: rd.tv(), al: rd.allocated(), tk: (rd.taken())(i), lg: lg } }
pub open spec fn prs(res: Seq<(TmpNodesReader, RoaringBitmap)>, i: u16) -> Seq<PR> { Seq::new(res.len(), |k: int| pr_of(&res[k].0, res[k].1@, i)) }
/// the per-root contract of insert_items_in_file, instantiated for a fresh staging area and the root of a tree
#[verifier::opaque]
pub open spec fn glue_one(s: TM, p: PR, root: u32, ins: Set<u32>, cap: u64, leafs: &ImmutableLeafs) -> bool {
    ins_post(s, p.tk, tn(root), empty_tv(), p.tv, Set::<u32>::empty(), p.al, ins, cap, Set::<u32>::empty(), p.lg, tn(root), leafs)
}
/// what insert_items_in_tree is PROVED to return (unit insert_glue): one result per root, each satisfying the per-root contract
pub open spec fn glue_post0(s: TM, res: Seq<PR>, roots: Seq<u32>, ins: Set<u32>, cap: u64, leafs: &ImmutableLeafs) -> bool {
    &&& res.len() == roots.len()
    &&& (forall|k: int| 0 <= k < roots.len() ==> glue_one(s, #[trigger] res[k], roots[k], ins, cap, leafs))
}
/// C13: ids handed to two different staging areas are different
pub open spec fn distinct_allocs(res: Seq<PR>) -> bool {
    forall|a: int, b: int| 0 <= a < b < res.len() ==> (#[trigger] res[a]).al.disjoint((#[trigger] res[b]).al)
}
pub open spec fn glue_post(s: TM, res: Seq<PR>, roots: Seq<u32>, ins: Set<u32>, cap: u64, leafs: &ImmutableLeafs) -> bool {
    glue_post0(s, res, roots, ins, cap, leafs) && distinct_allocs(res)
}
/// ASSUMED (the sequential restatement of C13, unit node_ids): staging areas filled during one call of insert_items_in_tree, whose ids all come
/// from the one shared generator, hold pairwise different allocated ids. Rule R11 renders the parallel map as a loop; this is what the interleaving adds.
#[verifier::external_body]
pub proof fn axiom_distinct_staging(res: Seq<(TmpNodesReader, RoaringBitmap)>, i: u16)
    ensures distinct_allocs(prs(res, i))
{ }
/// ids allocated for one root are outside the set the staging area was told to avoid
pub proof fn lemma_glue_fresh(s: TM, p: PR, root: u32, ins: Set<u32>, cap: u64, leafs: &ImmutableLeafs)
    requires glue_one(s, p, root, ins, cap, leafs)
    ensures forall|x: u32| #![trigger p.al.contains(x)] p.al.contains(x) ==> !p.tk.contains(x)
{
    reveal(glue_one);
}
pub open spec fn in_tree(m: TM, roots: Seq<u32>, n: int, x: u32) -> bool { exists|j: int| 0 <= j < n && tnodes(m, tn(#[trigger] roots[j])).contains(x) }
/// the frozen snapshot is a sub-map of the tree map that contains every tree it is used for
pub open spec fn snap_ok(s: TM, ma: TM, roots: Seq<u32>) -> bool {
    &&& (forall|id: u32| #![trigger s.contains_key(id)] s.contains_key(id) ==> ma.contains_key(id) && ma[id] == s[id])
    &&& (forall|k: int| 0 <= k < roots.len() ==> tree(s, tn(#[trigger] roots[k])))
}
pub open spec fn fresh_ok(ma: TM, res: Seq<PR>) -> bool {
    forall|j: int, x: u32| #![trigger res[j].al.contains(x)] 0 <= j < res.len() && res[j].al.contains(x) ==> !ma.contains_key(x)
}
/// after the results of the first k roots were written back
#[verifier::opaque]
pub open spec fn pass_inv(ma: TM, mc: TM, roots: Seq<u32>, res: Seq<PR>, k: int, ins: Set<u32>, cap: u64) -> bool {
    &&& 0 <= k <= roots.len() && roots.len() == res.len()
    // C15: queued ids are buckets of their tree; a bucket of a finished tree that is over the capacity was queued, unless this pass did not touch it
    &&& (forall|j: int, x: u32| #![trigger res[j].lg.contains(x)] 0 <= j < k && res[j].lg.contains(x) ==> tnodes(mc, tn(roots[j])).contains(x) && mc[x] is Desc)
    &&& (forall|j: int, x: u32| #![trigger tnodes(mc, tn(roots[j])).contains(x)] 0 <= j < k && tnodes(mc, tn(roots[j])).contains(x) && over_cap(mc[x], cap)
            ==> res[j].lg.contains(x) || (ma.contains_key(x) && mc[x] == ma[x]))
    &&& (forall|j: int| 0 <= j < k ==> tree(mc, tn(#[trigger] roots[j])) && titems(mc, tn(roots[j])) == titems(ma, tn(roots[j])).union(ins)
            && tnodes(mc, tn(roots[j])).subset_of(tnodes(ma, tn(roots[j])).union(res[j].al)) && tnodes(ma, tn(roots[j])).subset_of(tnodes(mc, tn(roots[j]))))
    &&& (forall|j: int, x: u32| #![trigger tnodes(ma, tn(roots[j])).contains(x)] k <= j < roots.len() && tnodes(ma, tn(roots[j])).contains(x) ==> mc.contains_key(x) && mc[x] == ma[x])
    &&& (forall|x: u32| #![trigger ma.contains_key(x)] ma.contains_key(x) ==> mc.contains_key(x) && (ma[x] is Desc ==> mc[x] is Desc))
    &&& (forall|x: u32| #![trigger mc.contains_key(x)] mc.contains_key(x) && !ma.contains_key(x) ==> exists|j: int| 0 <= j < k && (#[trigger] res[j]).al.contains(x) && tnodes(mc, tn(roots[j])).contains(x))
    &&& (forall|x: u32| #![trigger in_tree(ma, roots, k, x)] ma.contains_key(x) && !in_tree(ma, roots, k, x) ==> mc[x] == ma[x])
}
pub proof fn lemma_snap_trees(s: TM, ma: TM, roots: Seq<u32>, k: int)
    requires snap_ok(s, ma, roots), 0 <= k < roots.len()
    ensures tree(ma, tn(roots[k])), titems(ma, tn(roots[k])) == titems(s, tn(roots[k])), tnodes(ma, tn(roots[k])) == tnodes(s, tn(roots[k]))
{
    lemma_nodes_exist(s, tn(roots[k]));
    lemma_frame(s, ma, tn(roots[k]));
}
pub proof fn lemma_pass_init(ma: TM, roots: Seq<u32>, res: Seq<PR>, ins: Set<u32>, cap: u64)
    requires roots.len() == res.len(), forest(ma, roots)
    ensures pass_inv(ma, ma, roots, res, 0, ins, cap)
{
    reveal(pass_inv);
    assert forall|j: int, x: u32| #![trigger tnodes(ma, tn(roots[j])).contains(x)] 0 <= j < roots.len() && tnodes(ma, tn(roots[j])).contains(x) implies ma.contains_key(x) by {
        lemma_nodes_exist(ma, tn(roots[j]));
    }
    assert forall|x: u32| ma.contains_key(x) && !in_tree(ma, roots, 0, x) implies ma[x] == ma[x] by {}
}
pub proof fn lemma_pass_step(s: TM, ma: TM, mc: TM, mc2: TM, roots: Seq<u32>, res: Seq<PR>, k: int, ins: Set<u32>, cap: u64, leafs: &ImmutableLeafs)
    requires
        pass_inv(ma, mc, roots, res, k, ins, cap), k < roots.len(), forest(ma, roots), snap_ok(s, ma, roots),
        glue_post(s, res, roots, ins, cap, leafs), fresh_ok(ma, res),
        mc2 == apply(mc, res[k].tv),
    ensures pass_inv(ma, mc2, roots, res, k + 1, ins, cap)
{
    reveal(pass_inv); reveal(glue_one);
    let p = res[k]; let r = roots[k]; let sk = tnodes(s, tn(r)); let m1s = apply(s, p.tv);
    lemma_snap_trees(s, ma, roots, k);
    assert(glue_one(s, p, r, ins, cap, leafs));
    assert(p.al.difference(Set::<u32>::empty()) =~= p.al);
    lemma_nodes_exist(m1s, tn(r)); lemma_nodes_exist(s, tn(r)); lemma_nodes_exist(ma, tn(r));
    // puts of this result stay inside the old nodes of this tree and its fresh ids; nothing is deleted
    assert forall|x: u32| #![trigger p.tv.puts.contains_key(x)] p.tv.puts.contains_key(x) implies sk.union(p.al).contains(x) by {
        if !sk.union(p.al).contains(x) { assert(p.tv.puts.contains_key(x) == empty_tv().puts.contains_key(x)); }
    }
    assert(p.tv.deleted =~= Set::<u32>::empty());
    assert forall|x: u32| p.al.contains(x) implies !ma.contains_key(x) by { assert(res[k].al.contains(x)); }
    // the new tree k
    assert forall|x: u32| #[trigger] tnodes(m1s, tn(r)).contains(x) implies mc2.contains_key(x) && mc2[x] == m1s[x] by {
        assert(m1s.contains_key(x));
        if !p.tv.puts.contains_key(x) {
            assert(s.contains_key(x)); assert(ma.contains_key(x));
            assert(sk.union(p.al).contains(x)); assert(sk.contains(x));
            assert(tnodes(ma, tn(roots[k])).contains(x));
        }
    }
    lemma_frame(m1s, mc2, tn(r));
    // trees already done are not touched by this write-back
    assert forall|j: int, x: u32| #![trigger tnodes(mc, tn(roots[j])).contains(x)] 0 <= j < k && tnodes(mc, tn(roots[j])).contains(x) implies mc2.contains_key(x) && mc2[x] == mc[x] by {
        lemma_nodes_exist(mc, tn(roots[j])); lemma_nodes_exist(ma, tn(roots[j]));
        assert(tree(ma, tn(roots[j]))); assert(tree(ma, tn(roots[k])));
        assert(tnodes(ma, tn(roots[j])).disjoint(tnodes(ma, tn(roots[k]))));
        assert(res[j].al.disjoint(res[k].al));
        assert(tnodes(ma, tn(roots[j])).union(res[j].al).contains(x));
        if p.tv.puts.contains_key(x) {
            assert(sk.union(p.al).contains(x));
            if sk.contains(x) { assert(ma.contains_key(x)); if res[j].al.contains(x) { assert(!ma.contains_key(x)); } }
            else { if tnodes(ma, tn(roots[j])).contains(x) { assert(ma.contains_key(x)); } }
        }
    }
    assert forall|j: int| 0 <= j < k implies tree(mc2, tn(#[trigger] roots[j])) && titems(mc2, tn(roots[j])) == titems(ma, tn(roots[j])).union(ins)
            && tnodes(mc2, tn(roots[j])).subset_of(tnodes(ma, tn(roots[j])).union(res[j].al)) && tnodes(ma, tn(roots[j])).subset_of(tnodes(mc2, tn(roots[j])))
            && tnodes(mc2, tn(roots[j])) == tnodes(mc, tn(roots[j])) by {
        lemma_frame(mc, mc2, tn(roots[j]));
    }
    // trees still to do are not touched either
    assert forall|j: int, x: u32| #![trigger tnodes(ma, tn(roots[j])).contains(x)] k + 1 <= j < roots.len() && tnodes(ma, tn(roots[j])).contains(x) implies mc2.contains_key(x) && mc2[x] == ma[x] by {
        lemma_nodes_exist(ma, tn(roots[j]));
        assert(tnodes(ma, tn(roots[k])).disjoint(tnodes(ma, tn(roots[j]))));
        if p.tv.puts.contains_key(x) { assert(sk.union(p.al).contains(x)); }
    }
    assert forall|x: u32| #![trigger ma.contains_key(x)] ma.contains_key(x) implies mc2.contains_key(x) && (ma[x] is Desc ==> mc2[x] is Desc) by {
        if p.tv.puts.contains_key(x) && ma[x] is Desc {
            assert(sk.union(p.al).contains(x)); assert(sk.contains(x)); assert(s.contains_key(x)); assert(s[x] is Desc);
            assert(m1s[x] is Desc);
        }
    }
    assert forall|x: u32| #![trigger mc2.contains_key(x)] mc2.contains_key(x) && !ma.contains_key(x) implies exists|j: int| 0 <= j < k + 1 && (#[trigger] res[j]).al.contains(x) && tnodes(mc2, tn(roots[j])).contains(x) by {
        if mc.contains_key(x) {
            let j = choose|j: int| 0 <= j < k && (#[trigger] res[j]).al.contains(x) && tnodes(mc, tn(roots[j])).contains(x);
            assert(tnodes(mc2, tn(roots[j])) == tnodes(mc, tn(roots[j])));
            assert(res[j].al.contains(x));
        } else {
            assert(p.tv.puts.contains_key(x)); assert(sk.union(p.al).contains(x)); assert(p.al.contains(x)); assert(res[k].al.contains(x));
            // no orphan: every id allocated by the call is a node of the resulting tree
            assert(tnodes(m1s, tn(r)).contains(x));
            assert(tnodes(mc2, tn(roots[k])).contains(x));
        }
    }
    assert forall|x: u32| #![trigger in_tree(ma, roots, k + 1, x)] ma.contains_key(x) && !in_tree(ma, roots, k + 1, x) implies mc2[x] == ma[x] by {
        if in_tree(ma, roots, k, x) { let j = choose|j: int| 0 <= j < k && tnodes(ma, tn(#[trigger] roots[j])).contains(x); assert(tnodes(ma, tn(roots[j])).contains(x)); assert(in_tree(ma, roots, k + 1, x)); }
        if p.tv.puts.contains_key(x) { assert(sk.union(p.al).contains(x)); assert(sk.contains(x)); assert(tnodes(ma, tn(roots[k])).contains(x)); assert(in_tree(ma, roots, k + 1, x)); }
    }
    // C15
    assert forall|j: int, x: u32| #![trigger res[j].lg.contains(x)] 0 <= j < k + 1 && res[j].lg.contains(x) implies tnodes(mc2, tn(roots[j])).contains(x) && mc2[x] is Desc by {
        if j < k { assert(tnodes(mc, tn(roots[j])).contains(x)); }
        else {
            assert(p.lg.contains(x) && !Set::<u32>::empty().contains(x));
            assert(sk.union(p.al).contains(x) && m1s.contains_key(x) && m1s[x] is Desc);
            assert(tnodes(m1s, tn(r)).contains(x));
        }
    }
    assert forall|j: int, x: u32| #![trigger tnodes(mc2, tn(roots[j])).contains(x)] 0 <= j < k + 1 && tnodes(mc2, tn(roots[j])).contains(x) && over_cap(mc2[x], cap)
            implies res[j].lg.contains(x) || (ma.contains_key(x) && mc2[x] == ma[x]) by {
        if j < k { assert(tnodes(mc, tn(roots[j])).contains(x)); }
        else {
            assert(tnodes(m1s, tn(r)).contains(x));
            assert(sk.union(p.al).contains(x));
            if p.tv.puts.contains_key(x) { assert(p.lg.contains(x)); }
            else { assert(s.contains_key(x)); }
        }
    }
}

/// state of insert_items_in_current_trees between two passes, relative to the entry state m0: `done` are the ids inserted so far
pub open spec fn iict_trees(m0: TM, mc: TM, roots: Seq<u32>, done: Set<u32>) -> bool {
    let n = roots.len() as int;
    &&& forest(mc, roots)
    // C01: every tree holds its old items plus the ids inserted so far, and keeps its old nodes
    &&& (forall|k: int| 0 <= k < n ==> titems(mc, tn(#[trigger] roots[k])) == titems(m0, tn(roots[k])).union(done) && tnodes(m0, tn(roots[k])).subset_of(tnodes(mc, tn(roots[k]))))
    &&& (forall|k: int, x: u32| #![trigger tnodes(mc, tn(roots[k])).contains(x)] 0 <= k < n && tnodes(mc, tn(roots[k])).contains(x) ==> tnodes(m0, tn(roots[k])).contains(x) || !m0.contains_key(x))
}
pub open spec fn iict_frame(m0: TM, mc: TM, roots: Seq<u32>) -> bool {
    let n = roots.len() as int;
    // frame: no tree node is removed, a bucket stays a bucket, new nodes belong to the trees (no orphan), nodes outside the trees are untouched
    &&& (forall|x: u32| #![trigger m0.contains_key(x)] m0.contains_key(x) ==> mc.contains_key(x) && (m0[x] is Desc ==> mc[x] is Desc))
    &&& (forall|x: u32| #![trigger mc.contains_key(x)] mc.contains_key(x) && !m0.contains_key(x) ==> in_tree(mc, roots, n, x))
    &&& (forall|x: u32| #![trigger in_tree(m0, roots, n, x)] m0.contains_key(x) && !in_tree(m0, roots, n, x) ==> mc[x] == m0[x])
}
pub open spec fn iict_c15(m0: TM, mc: TM, roots: Seq<u32>, large: Set<u32>, cap: u64) -> bool {
    let n = roots.len() as int;
    &&& (forall|x: u32| #![trigger large.contains(x)] large.contains(x) ==> in_tree(mc, roots, n, x) && mc[x] is Desc)
    &&& (forall|x: u32| #![trigger in_tree(mc, roots, n, x)] in_tree(mc, roots, n, x) && over_cap(mc[x], cap) ==> large.contains(x) || (m0.contains_key(x) && mc[x] == m0[x]))
}
pub open spec fn iict_inv(m0: TM, mc: TM, roots: Seq<u32>, done: Set<u32>, large: Set<u32>, cap: u64) -> bool {
    iict_trees(m0, mc, roots, done) && iict_frame(m0, mc, roots) && iict_c15(m0, mc, roots, large, cap)
}
pub proof fn lemma_iict_init(m0: TM, roots: Seq<u32>, cap: u64)
    requires forest(m0, roots)
    ensures iict_inv(m0, m0, roots, Set::<u32>::empty(), Set::<u32>::empty(), cap)
{
    let n = roots.len() as int;
    assert forall|x: u32| in_tree(m0, roots, n, x) implies m0.contains_key(x) by {
        let j = choose|j: int| 0 <= j < n && tnodes(m0, tn(#[trigger] roots[j])).contains(x);
        lemma_nodes_exist(m0, tn(roots[j]));
    }
    assert forall|k: int| 0 <= k < n implies titems(m0, tn(#[trigger] roots[k])) == titems(m0, tn(roots[k])).union(Set::<u32>::empty()) by {
        assert(titems(m0, tn(roots[k])).union(Set::<u32>::empty()) =~= titems(m0, tn(roots[k])));
    }
}
pub open spec fn union_lg(res: Seq<PR>, n: int) -> Set<u32>
    decreases n
{
    if n <= 0 { Set::<u32>::empty() } else { union_lg(res, n - 1).union(res[n - 1].lg) }
}
pub proof fn lemma_union_lg(res: Seq<PR>, n: int, x: u32)
    requires 0 <= n <= res.len()
    ensures union_lg(res, n).contains(x) <==> exists|j: int| 0 <= j < n && (#[trigger] res[j]).lg.contains(x)
    decreases n
{
    if n > 0 {
        lemma_union_lg(res, n - 1, x);
        if union_lg(res, n).contains(x) {
            if res[n - 1].lg.contains(x) { assert(0 <= n - 1 < n && res[n - 1].lg.contains(x)); }
            else { let j = choose|j: int| 0 <= j < n - 1 && (#[trigger] res[j]).lg.contains(x); assert(0 <= j < n && res[j].lg.contains(x)); }
        }
        if exists|j: int| 0 <= j < n && (#[trigger] res[j]).lg.contains(x) {
            let j = choose|j: int| 0 <= j < n && (#[trigger] res[j]).lg.contains(x);
            if j < n - 1 { assert(0 <= j < n - 1 && res[j].lg.contains(x)); }
        }
    }
}
pub open spec fn pass_pre(m0: TM, ma: TM, mc: TM, roots: Seq<u32>, res: Seq<PR>, done: Set<u32>, sel: Set<u32>, large: Set<u32>, cap: u64) -> bool {
    &&& iict_inv(m0, ma, roots, done, large, cap) && pass_inv(ma, mc, roots, res, roots.len() as int, sel, cap) && fresh_ok(ma, res)
    &&& (forall|a: int, b: int| 0 <= a < b < res.len() ==> (#[trigger] res[a]).al.disjoint((#[trigger] res[b]).al))
}
proof fn lemma_iict_pass_trees(m0: TM, ma: TM, mc: TM, roots: Seq<u32>, res: Seq<PR>, done: Set<u32>, sel: Set<u32>, large: Set<u32>, cap: u64)
    requires pass_pre(m0, ma, mc, roots, res, done, sel, large, cap)
    ensures iict_trees(m0, mc, roots, done.union(sel))
{
    reveal(pass_inv);
    let n = roots.len() as int;
    assert forall|k: int| 0 <= k < n implies tree(mc, tn(#[trigger] roots[k])) by {}
    assert forall|a: int, b: int| 0 <= a < b < n implies tnodes(mc, tn(#[trigger] roots[a])).disjoint(tnodes(mc, tn(#[trigger] roots[b]))) by {
        lemma_nodes_exist(ma, tn(roots[a])); lemma_nodes_exist(ma, tn(roots[b]));
        assert(tnodes(ma, tn(roots[a])).disjoint(tnodes(ma, tn(roots[b]))));
        assert(res[a].al.disjoint(res[b].al));
        assert forall|x: u32| tnodes(mc, tn(roots[a])).contains(x) && tnodes(mc, tn(roots[b])).contains(x) implies false by {
            assert(tnodes(ma, tn(roots[a])).union(res[a].al).contains(x)); assert(tnodes(ma, tn(roots[b])).union(res[b].al).contains(x));
            if res[a].al.contains(x) { assert(!ma.contains_key(x)); }
            if res[b].al.contains(x) { assert(!ma.contains_key(x)); }
        }
    }
    assert forall|k: int| 0 <= k < n implies titems(mc, tn(#[trigger] roots[k])) == titems(m0, tn(roots[k])).union(done.union(sel)) && tnodes(m0, tn(roots[k])).subset_of(tnodes(mc, tn(roots[k]))) by {
        assert(titems(m0, tn(roots[k])).union(done).union(sel) =~= titems(m0, tn(roots[k])).union(done.union(sel)));
    }
    assert forall|k: int, x: u32| #![trigger tnodes(mc, tn(roots[k])).contains(x)] 0 <= k < n && tnodes(mc, tn(roots[k])).contains(x) implies tnodes(m0, tn(roots[k])).contains(x) || !m0.contains_key(x) by {
        assert(tnodes(ma, tn(roots[k])).union(res[k].al).contains(x));
        if res[k].al.contains(x) { assert(!ma.contains_key(x)); }
    }
}
proof fn lemma_iict_pass_frame(m0: TM, ma: TM, mc: TM, roots: Seq<u32>, res: Seq<PR>, done: Set<u32>, sel: Set<u32>, large: Set<u32>, cap: u64)
    requires pass_pre(m0, ma, mc, roots, res, done, sel, large, cap)
    ensures iict_frame(m0, mc, roots)
{
    reveal(pass_inv);
    let n = roots.len() as int;
    assert forall|x: u32| #![trigger mc.contains_key(x)] mc.contains_key(x) && !m0.contains_key(x) implies in_tree(mc, roots, n, x) by {
        if ma.contains_key(x) {
            assert(in_tree(ma, roots, n, x));
            let j = choose|j: int| 0 <= j < n && tnodes(ma, tn(#[trigger] roots[j])).contains(x);
            assert(tnodes(mc, tn(roots[j])).contains(x));
        } else {
            let j = choose|j: int| 0 <= j < n && (#[trigger] res[j]).al.contains(x) && tnodes(mc, tn(roots[j])).contains(x);
            assert(tnodes(mc, tn(roots[j])).contains(x));
        }
    }
    assert forall|x: u32| #![trigger in_tree(m0, roots, n, x)] m0.contains_key(x) && !in_tree(m0, roots, n, x) implies mc[x] == m0[x] by {
        if in_tree(ma, roots, n, x) {
            let j = choose|j: int| 0 <= j < n && tnodes(ma, tn(#[trigger] roots[j])).contains(x);
            assert(tnodes(m0, tn(roots[j])).contains(x));
            assert(in_tree(m0, roots, n, x));
        }
    }
}
proof fn lemma_c15_queued(m0: TM, ma: TM, mc: TM, roots: Seq<u32>, res: Seq<PR>, done: Set<u32>, sel: Set<u32>, large: Set<u32>, large2: Set<u32>, cap: u64, x: u32)
    requires pass_pre(m0, ma, mc, roots, res, done, sel, large, cap), large2 == large.union(union_lg(res, res.len() as int)), large2.contains(x)
    ensures in_tree(mc, roots, roots.len() as int, x) && mc[x] is Desc
{
    reveal(pass_inv);
    let n = roots.len() as int;
    lemma_union_lg(res, n, x);
    if large.contains(x) {
        assert(in_tree(ma, roots, n, x) && ma[x] is Desc);
        let j = choose|j: int| 0 <= j < n && tnodes(ma, tn(#[trigger] roots[j])).contains(x);
        assert(tnodes(ma, tn(roots[j])).subset_of(tnodes(mc, tn(roots[j]))));
        assert(tnodes(mc, tn(roots[j])).contains(x));
        lemma_nodes_exist(ma, tn(roots[j]));
        assert(ma.contains_key(x));
    } else {
        let j = choose|j: int| 0 <= j < n && (#[trigger] res[j]).lg.contains(x);
        assert(res[j].lg.contains(x));
        assert(tnodes(mc, tn(roots[j])).contains(x));
    }
}
proof fn lemma_c15_over(m0: TM, ma: TM, mc: TM, roots: Seq<u32>, res: Seq<PR>, done: Set<u32>, sel: Set<u32>, large: Set<u32>, large2: Set<u32>, cap: u64, x: u32)
    requires pass_pre(m0, ma, mc, roots, res, done, sel, large, cap), large2 == large.union(union_lg(res, res.len() as int)),
        in_tree(mc, roots, roots.len() as int, x), over_cap(mc[x], cap)
    ensures large2.contains(x) || (m0.contains_key(x) && mc[x] == m0[x])
{
    reveal(pass_inv);
    let n = roots.len() as int;
    let j = choose|j: int| 0 <= j < n && tnodes(mc, tn(#[trigger] roots[j])).contains(x);
    assert(tnodes(mc, tn(roots[j])).contains(x));
    lemma_union_lg(res, n, x);
    if res[j].lg.contains(x) { assert(0 <= j < n && res[j].lg.contains(x)); }
    else {
        assert(ma.contains_key(x) && mc[x] == ma[x]);
        assert(tnodes(ma, tn(roots[j])).union(res[j].al).contains(x));
        if res[j].al.contains(x) { assert(!ma.contains_key(x)); }
        assert(tnodes(ma, tn(roots[j])).contains(x));
        assert(in_tree(ma, roots, n, x));
        assert(over_cap(ma[x], cap));
        assert(large.contains(x) || (m0.contains_key(x) && ma[x] == m0[x]));
        if large.contains(x) { assert(large2.contains(x)); }
    }
}
proof fn lemma_iict_pass_c15(m0: TM, ma: TM, mc: TM, roots: Seq<u32>, res: Seq<PR>, done: Set<u32>, sel: Set<u32>, large: Set<u32>, large2: Set<u32>, cap: u64)
    requires pass_pre(m0, ma, mc, roots, res, done, sel, large, cap), large2 == large.union(union_lg(res, res.len() as int)),
    ensures iict_c15(m0, mc, roots, large2, cap)
{
    let n = roots.len() as int;
    assert forall|x: u32| #![trigger large2.contains(x)] large2.contains(x) implies in_tree(mc, roots, n, x) && mc[x] is Desc by {
        lemma_c15_queued(m0, ma, mc, roots, res, done, sel, large, large2, cap, x);
    }
    assert forall|x: u32| #![trigger in_tree(mc, roots, n, x)] in_tree(mc, roots, n, x) && over_cap(mc[x], cap) implies large2.contains(x) || (m0.contains_key(x) && mc[x] == m0[x]) by {
        lemma_c15_over(m0, ma, mc, roots, res, done, sel, large, large2, cap, x);
    }
}
/// one complete pass (all roots written back) extends the invariant by the ids selected for the pass
pub proof fn lemma_iict_pass(m0: TM, ma: TM, mc: TM, roots: Seq<u32>, res: Seq<PR>, done: Set<u32>, sel: Set<u32>, large: Set<u32>, large2: Set<u32>, cap: u64)
    requires pass_pre(m0, ma, mc, roots, res, done, sel, large, cap), large2 == large.union(union_lg(res, res.len() as int)),
    ensures iict_inv(m0, mc, roots, done.union(sel), large2, cap)
{
    lemma_iict_pass_trees(m0, ma, mc, roots, res, done, sel, large, cap);
    lemma_iict_pass_frame(m0, ma, mc, roots, res, done, sel, large, cap);
    lemma_iict_pass_c15(m0, ma, mc, roots, res, done, sel, large, large2, cap);
}
