// ---- DB-level predicates for the loop drivers of build ----------------------------------------------------------------
/// Every Tree key of index i holds a tree node (so the tree map has exactly the Tree keys as its domain)
pub open spec fn tree_keys_ok(v: DbView, i: u16) -> bool {
    forall|id: u32| #![trigger v.contains_key(tkey(i, id))] v.contains_key(tkey(i, id)) ==> v[tkey(i, id)] is Tree
}
/// v1 is v0 with exactly the tree nodes `s` of index i removed; nothing else differs
pub open spec fn trees_removed(v0: DbView, v1: DbView, i: u16, s: Set<u32>) -> bool {
    &&& same_except(v0, v1, i, true, false, false, false)
    &&& (forall|id: u32| #![trigger v1.contains_key(tkey(i, id))] #![trigger s.contains(id)] v1.contains_key(tkey(i, id)) <==> (v0.contains_key(tkey(i, id)) && !s.contains(id)))
    &&& (forall|id: u32| #![trigger v1.contains_key(tkey(i, id))] v1.contains_key(tkey(i, id)) ==> v1[tkey(i, id)] == v0[tkey(i, id)])
}
/// the trees rooted at `roots` are well formed and share no node
pub open spec fn forest(m: TM, roots: Seq<u32>) -> bool {
    &&& (forall|k: int| 0 <= k < roots.len() ==> tree(m, tn(#[trigger] roots[k])))
    &&& (forall|a: int, b: int| 0 <= a < b < roots.len() ==> tnodes(m, tn(#[trigger] roots[a])).disjoint(tnodes(m, tn(#[trigger] roots[b]))))
}
pub proof fn lemma_tmap_removed(v0: DbView, v1: DbView, i: u16, s: Set<u32>)
    requires trees_removed(v0, v1, i, s)
    ensures forall|id: u32| #![trigger tmap(v1, i).contains_key(id)] (tmap(v1, i).contains_key(id) <==> (tmap(v0, i).contains_key(id) && !s.contains(id)))
        && (tmap(v1, i).contains_key(id) ==> tmap(v1, i)[id] == tmap(v0, i)[id])
{
    assert forall|id: u32| #![trigger tmap(v1, i).contains_key(id)] (tmap(v1, i).contains_key(id) <==> (tmap(v0, i).contains_key(id) && !s.contains(id)))
        && (tmap(v1, i).contains_key(id) ==> tmap(v1, i)[id] == tmap(v0, i)[id]) by {
        assert(v1.contains_key(tkey(i, id)) <==> (v0.contains_key(tkey(i, id)) && !s.contains(id)));
    }
}
/// a subtree whose nodes are all outside the removed set survives the removal unchanged
pub proof fn lemma_tree_survives(v0: DbView, v1: DbView, i: u16, s: Set<u32>, n: NodeId)
    requires trees_removed(v0, v1, i, s), tree(tmap(v0, i), n), tnodes(tmap(v0, i), n).disjoint(s)
    ensures tree(tmap(v1, i), n), titems(tmap(v1, i), n) == titems(tmap(v0, i), n), tnodes(tmap(v1, i), n) == tnodes(tmap(v0, i), n)
{
    let m0 = tmap(v0, i); let m1 = tmap(v1, i);
    lemma_tmap_removed(v0, v1, i, s);
    lemma_nodes_exist(m0, n);
    assert forall|id: u32| #[trigger] tnodes(m0, n).contains(id) implies m1.contains_key(id) && m1[id] == m0[id] by { assert(!s.contains(id)); assert(m0.contains_key(id)); }
    lemma_frame(m0, m1, n);
}
pub proof fn lemma_removed_trans(v0: DbView, v1: DbView, v2: DbView, i: u16, s1: Set<u32>, s2: Set<u32>)
    requires trees_removed(v0, v1, i, s1), trees_removed(v1, v2, i, s2)
    ensures trees_removed(v0, v2, i, s1.union(s2))
{
    assert forall|k: AKey| !(k.index == i && k.kind == NodeMode::Tree) implies (#[trigger] v0.contains_key(k) == v2.contains_key(k) && (v0.contains_key(k) ==> v0[k] == v2[k])) by {
        assert(v0.contains_key(k) == v1.contains_key(k)); assert(v1.contains_key(k) == v2.contains_key(k));
    }
    assert forall|id: u32| #![trigger v2.contains_key(tkey(i, id))] #![trigger s1.union(s2).contains(id)] v2.contains_key(tkey(i, id)) <==> (v0.contains_key(tkey(i, id)) && !s1.union(s2).contains(id)) by {
        assert(v1.contains_key(tkey(i, id)) <==> (v0.contains_key(tkey(i, id)) && !s1.contains(id)));
        assert(v2.contains_key(tkey(i, id)) <==> (v1.contains_key(tkey(i, id)) && !s2.contains(id)));
    }
    assert forall|id: u32| #![trigger v2.contains_key(tkey(i, id))] v2.contains_key(tkey(i, id)) implies v2[tkey(i, id)] == v0[tkey(i, id)] by {
        assert(v1.contains_key(tkey(i, id)));
    }
}
pub proof fn lemma_removed_one(v0: DbView, i: u16, x: u32)
    ensures trees_removed(v0, v0.remove(tkey(i, x)), i, set![x])
{
    let v1 = v0.remove(tkey(i, x));
    assert forall|id: u32| #![trigger v1.contains_key(tkey(i, id))] #![trigger set![x].contains(id)] v1.contains_key(tkey(i, id)) <==> (v0.contains_key(tkey(i, id)) && !set![x].contains(id)) by {
        if id != x { assert(tkey(i, id) != tkey(i, x)); }
    }
}
pub proof fn lemma_removed_none(v0: DbView, i: u16)
    ensures trees_removed(v0, v0, i, Set::<u32>::empty())
{
}

/// the nodes of the trees of `r0` whose root is no longer in `r1`
pub open spec fn dropped_nodes(m0: TM, r0: Seq<u32>, r1: Seq<u32>, id: u32) -> bool {
    exists|k: int| 0 <= k < r0.len() && !r1.contains(#[trigger] r0[k]) && tnodes(m0, tn(r0[k])).contains(id)
}
pub open spec fn extra_post(v0: DbView, v1: DbView, i: u16, r0: Seq<u32>, r1: Seq<u32>, target: u64) -> bool {
    let m0 = tmap(v0, i); let m1 = tmap(v1, i);
    // C15: the forest is shrunk to the requested number of trees (oldest trees first), never grown here
    &&& r1.len() == (if r0.len() > target { target as int } else { r0.len() as int })
    &&& (forall|k: int| 0 <= k < r1.len() ==> r0.contains(#[trigger] r1[k]))
    // the kept trees are untouched, the dropped ones are removed completely (no orphan), nothing else changes
    &&& forest(m1, r1)
    &&& (forall|k: int| 0 <= k < r1.len() ==> titems(m1, tn(#[trigger] r1[k])) == titems(m0, tn(r1[k])) && tnodes(m1, tn(r1[k])) == tnodes(m0, tn(r1[k])))
    &&& same_except(v0, v1, i, true, false, false, false)
    &&& (forall|id: u32| #![trigger v1.contains_key(tkey(i, id))] v1.contains_key(tkey(i, id)) <==> (v0.contains_key(tkey(i, id)) && !dropped_nodes(m0, r0, r1, id)))
    &&& (forall|id: u32| #![trigger v1.contains_key(tkey(i, id))] v1.contains_key(tkey(i, id)) ==> v1[tkey(i, id)] == v0[tkey(i, id)])
    &&& tree_keys_ok(v1, i)
}

pub open spec fn distinct(s: Seq<u32>) -> bool { forall|a: int, b: int| 0 <= a < b < s.len() ==> s[a] != s[b] }
/// loop invariant of delete_extra_trees: `ra` are the roots kept so far, `va` the current view
pub open spec fn inv_extra(v0: DbView, va: DbView, i: u16, r0: Seq<u32>, ra: Seq<u32>) -> bool {
    let m0 = tmap(v0, i); let ma = tmap(va, i);
    &&& forest(m0, r0) && distinct(ra)
    &&& (forall|k: int| 0 <= k < ra.len() ==> r0.contains(#[trigger] ra[k]))
    &&& forest(ma, ra)
    &&& (forall|k: int| 0 <= k < ra.len() ==> titems(ma, tn(#[trigger] ra[k])) == titems(m0, tn(ra[k])) && tnodes(ma, tn(ra[k])) == tnodes(m0, tn(ra[k])))
    &&& same_except(v0, va, i, true, false, false, false) && only_removed(v0, va) && tree_keys_ok(va, i)
    &&& (forall|id: u32| #![trigger va.contains_key(tkey(i, id))] va.contains_key(tkey(i, id)) <==> (v0.contains_key(tkey(i, id)) && !dropped_nodes(m0, r0, ra, id)))
    &&& (forall|id: u32| #![trigger va.contains_key(tkey(i, id))] va.contains_key(tkey(i, id)) ==> va[tkey(i, id)] == v0[tkey(i, id)])
}
pub proof fn lemma_forest_distinct(m: TM, r: Seq<u32>)
    requires forest(m, r)
    ensures distinct(r)
{
    assert forall|a: int, b: int| 0 <= a < b < r.len() implies r[a] != r[b] by {
        lemma_unfold(m, r[a]); lemma_unfold(m, r[b]);
        assert(tnodes(m, tn(r[a])).contains(r[a])); assert(tnodes(m, tn(r[b])).contains(r[b]));
        assert(tnodes(m, tn(r[a])).disjoint(tnodes(m, tn(r[b]))));
    }
}
pub proof fn lemma_extra_init(v0: DbView, i: u16, r0: Seq<u32>)
    requires forest(tmap(v0, i), r0), tree_keys_ok(v0, i)
    ensures inv_extra(v0, v0, i, r0, r0)
{
    lemma_forest_distinct(tmap(v0, i), r0);
    assert forall|id: u32| !dropped_nodes(tmap(v0, i), r0, r0, id) by {
        if dropped_nodes(tmap(v0, i), r0, r0, id) { let k = choose|k: int| 0 <= k < r0.len() && !r0.contains(#[trigger] r0[k]) && tnodes(tmap(v0, i), tn(r0[k])).contains(id); assert(r0.contains(r0[k])); }
    }
}
/// one iteration: the first root is swap-removed and its tree deleted
pub proof fn lemma_extra_step(v0: DbView, va: DbView, vb: DbView, i: u16, r0: Seq<u32>, ra: Seq<u32>, rb: Seq<u32>)
    requires
        inv_extra(v0, va, i, r0, ra), ra.len() > 0,
        rb.len() == ra.len() - 1, forall|k: int| 0 <= k < rb.len() ==> #[trigger] rb[k] == (if k == 0 { ra[ra.len() - 1] } else { ra[k] }),
        trees_removed(va, vb, i, tnodes(tmap(va, i), tn(ra[0]))), tree_keys_ok(vb, i),
    ensures inv_extra(v0, vb, i, r0, rb)
{
    let m0 = tmap(v0, i); let ma = tmap(va, i); let mb = tmap(vb, i);
    let root = ra[0]; let s = tnodes(ma, tn(root));
    assert(s == tnodes(m0, tn(root)));
    // every kept root is an old kept root different from `root`
    assert forall|k: int| 0 <= k < rb.len() implies ra.contains(#[trigger] rb[k]) && rb[k] != root by {
        if k == 0 { assert(rb[0] == ra[ra.len() - 1]); assert(ra[ra.len() - 1] != ra[0]) by { if ra.len() - 1 == 0 { assert(rb.len() == 0); } } }
        else { assert(rb[k] == ra[k]); }
    }
    assert(distinct(rb)) by {
        assert forall|a: int, b: int| 0 <= a < b < rb.len() implies rb[a] != rb[b] by {
            if a == 0 { assert(rb[0] == ra[ra.len() - 1]); assert(rb[b] == ra[b]); assert(ra[b] != ra[ra.len() - 1]); } else { assert(rb[a] == ra[a] && rb[b] == ra[b]); }
        }
    }
    // the kept trees survive
    assert forall|k: int| 0 <= k < rb.len() implies tree(mb, tn(#[trigger] rb[k])) && titems(mb, tn(rb[k])) == titems(m0, tn(rb[k])) && tnodes(mb, tn(rb[k])) == tnodes(m0, tn(rb[k])) by {
        let j = choose|j: int| 0 <= j < ra.len() && ra[j] == rb[k];
        assert(j != 0);
        assert(tnodes(ma, tn(ra[0])).disjoint(tnodes(ma, tn(ra[j]))));
        lemma_tree_survives(va, vb, i, s, tn(rb[k]));
    }
    assert(forest(mb, rb)) by {
        assert forall|a: int, b: int| 0 <= a < b < rb.len() implies tnodes(mb, tn(#[trigger] rb[a])).disjoint(tnodes(mb, tn(#[trigger] rb[b]))) by {
            let ja = choose|j: int| 0 <= j < ra.len() && ra[j] == rb[a]; let jb = choose|j: int| 0 <= j < ra.len() && ra[j] == rb[b];
            assert(ja != jb);
            if ja < jb { assert(tnodes(ma, tn(ra[ja])).disjoint(tnodes(ma, tn(ra[jb])))); } else { assert(tnodes(ma, tn(ra[jb])).disjoint(tnodes(ma, tn(ra[ja])))); }
        }
    }
    assert forall|k: int| 0 <= k < rb.len() implies r0.contains(#[trigger] rb[k]) by { let j = choose|j: int| 0 <= j < ra.len() && ra[j] == rb[k]; assert(r0.contains(ra[j])); }
    // the key set: dropped_nodes grows by exactly the nodes of `root`
    assert forall|id: u32| #![trigger vb.contains_key(tkey(i, id))] vb.contains_key(tkey(i, id)) <==> (v0.contains_key(tkey(i, id)) && !dropped_nodes(m0, r0, rb, id)) by {
        assert(vb.contains_key(tkey(i, id)) <==> (va.contains_key(tkey(i, id)) && !s.contains(id)));
        assert(va.contains_key(tkey(i, id)) <==> (v0.contains_key(tkey(i, id)) && !dropped_nodes(m0, r0, ra, id)));
        if dropped_nodes(m0, r0, rb, id) {
            let k = choose|k: int| 0 <= k < r0.len() && !rb.contains(#[trigger] r0[k]) && tnodes(m0, tn(r0[k])).contains(id);
            if ra.contains(r0[k]) {
                // it was kept before: it must be `root`
                let j = choose|j: int| 0 <= j < ra.len() && ra[j] == r0[k];
                if j != 0 { if j == ra.len() - 1 { assert(rb[0] == ra[j]); } else { assert(rb[j] == ra[j]); } assert(rb.contains(r0[k])); }
                assert(r0[k] == root);
            } else { assert(dropped_nodes(m0, r0, ra, id)); }
        }
        if dropped_nodes(m0, r0, ra, id) {
            let k = choose|k: int| 0 <= k < r0.len() && !ra.contains(#[trigger] r0[k]) && tnodes(m0, tn(r0[k])).contains(id);
            assert(!rb.contains(r0[k])) by { if rb.contains(r0[k]) { let q = choose|q: int| 0 <= q < rb.len() && rb[q] == r0[k]; assert(ra.contains(rb[q])); } }
            assert(dropped_nodes(m0, r0, rb, id));
        }
        if s.contains(id) {
            let k = choose|k: int| 0 <= k < r0.len() && r0[k] == root;
            assert(!rb.contains(root)) by { if rb.contains(root) { let q = choose|q: int| 0 <= q < rb.len() && rb[q] == root; assert(rb[q] != root); } }
            assert(dropped_nodes(m0, r0, rb, id));
        }
    }
    assert forall|id: u32| #![trigger vb.contains_key(tkey(i, id))] vb.contains_key(tkey(i, id)) implies vb[tkey(i, id)] == v0[tkey(i, id)] by { assert(va.contains_key(tkey(i, id))); }
    assert(same_except(v0, vb, i, true, false, false, false)) by {
        assert forall|k: AKey| !(k.index == i && k.kind == NodeMode::Tree) implies (#[trigger] v0.contains_key(k) == vb.contains_key(k) && (v0.contains_key(k) ==> v0[k] == vb[k])) by {
            assert(v0.contains_key(k) == va.contains_key(k)); assert(va.contains_key(k) == vb.contains_key(k));
        }
    }
    assert(only_removed(v0, vb)) by {
        assert forall|k: AKey| #[trigger] vb.contains_key(k) implies v0.contains_key(k) && vb[k] == v0[k] by {
            if k.index == i && k.kind == NodeMode::Tree { assert(k == tkey(i, k.id)); assert(va.contains_key(tkey(i, k.id))); } else { assert(va.contains_key(k)); }
        }
    }
}

// ---- delete_items_from_trees ----------------------------------------------------------------------------------------------
/// C15: no node of `s` is an oversized bucket
pub open spec fn no_big(m: TM, s: Set<u32>, cap: u64) -> bool { forall|x: u32| #![trigger s.contains(x)] s.contains(x) ==> !over_cap(m[x], cap) }
/// facts about the j-th tree after its root was processed (new root `nr`), in the staged state `t`
pub open spec fn dift_done(m0: TM, root0: u32, nr: u32, t: TmpV, d: Set<u32>, cap: u64) -> bool {
    let s = tnodes(m0, tn(root0)); let m1 = apply(m0, t);
    &&& s.contains(nr)
    &&& tree(m1, tn(nr)) && titems(m1, tn(nr)) == titems(m0, tn(root0)).difference(d) && tnodes(m1, tn(nr)).subset_of(s)
    &&& (forall|x: u32| #![trigger s.contains(x)] s.contains(x) && !tnodes(m1, tn(nr)).contains(x) ==> t.deleted.contains(x))
    &&& (titems(m0, tn(root0)).difference(d).len() <= cap ==> m1[nr] is Desc)
    &&& no_big(m0, s, cap) ==> no_big(m1, tnodes(m1, tn(nr)), cap)
}
pub open spec fn in_some_tree(m0: TM, r0: Seq<u32>, k: int, x: u32) -> bool { exists|j: int| 0 <= j < k && tnodes(m0, tn(#[trigger] r0[j])).contains(x) }
pub open spec fn dift_inv(m0: TM, r0: Seq<u32>, rk: Seq<u32>, k: int, t: TmpV, d: Set<u32>, cap: u64) -> bool {
    &&& forest(m0, r0) && rk.len() == r0.len() && 0 <= k <= r0.len()
    &&& (forall|j: int| k <= j < r0.len() ==> #[trigger] rk[j] == r0[j])
    &&& (forall|j: int| 0 <= j < k ==> dift_done(m0, #[trigger] r0[j], rk[j], t, d, cap))
    &&& (forall|x: u32| #![trigger t.puts.contains_key(x)] #![trigger t.deleted.contains(x)] (t.puts.contains_key(x) || t.deleted.contains(x)) ==> in_some_tree(m0, r0, k, x))
}
pub proof fn lemma_dift_step(m0: TM, r0: Seq<u32>, ra: Seq<u32>, rb: Seq<u32>, k: int, ta: TmpV, tb: TmpV, d: Set<u32>, cap: u64, nr: u32, its: Set<u32>)
    requires
        dift_inv(m0, r0, ra, k, ta, d, cap), k < r0.len(),
        del_post(m0, r0[k], ta, tb, d, cap, nr, its),
        rb.len() == ra.len(), rb[k] == nr, forall|j: int| 0 <= j < ra.len() && j != k ==> #[trigger] rb[j] == ra[j],
    ensures dift_inv(m0, r0, rb, k + 1, tb, d, cap)
{
    let sk = tnodes(m0, tn(r0[k]));
    assert forall|j: int| 0 <= j < k + 1 implies dift_done(m0, #[trigger] r0[j], rb[j], tb, d, cap) by {
        if j == k { } else {
            let sj = tnodes(m0, tn(r0[j]));
            assert(sj.disjoint(sk));
            let a = apply(m0, ta); let b = apply(m0, tb);
            lemma_nodes_exist(a, tn(ra[j]));
            assert forall|x: u32| #[trigger] tnodes(a, tn(ra[j])).contains(x) implies b.contains_key(x) && b[x] == a[x] by { assert(sj.contains(x)); assert(!sk.contains(x)); }
            lemma_frame(a, b, tn(ra[j]));
            assert(b.contains_key(ra[j]) && b[ra[j]] == a[ra[j]]) by { lemma_unfold(a, ra[j]); assert(tnodes(a, tn(ra[j])).contains(ra[j])); }
            assert forall|x: u32| #![trigger sj.contains(x)] sj.contains(x) && !tnodes(b, tn(rb[j])).contains(x) implies tb.deleted.contains(x) by { assert(!sk.contains(x)); }
        }
    }
    assert forall|x: u32| #![trigger tb.puts.contains_key(x)] #![trigger tb.deleted.contains(x)] (tb.puts.contains_key(x) || tb.deleted.contains(x)) implies in_some_tree(m0, r0, k + 1, x) by {
        if sk.contains(x) { assert(tnodes(m0, tn(r0[k])).contains(x)); } else {
            assert(ta.puts.contains_key(x) || ta.deleted.contains(x));
            let j = choose|j: int| 0 <= j < k && tnodes(m0, tn(#[trigger] r0[j])).contains(x); assert(tnodes(m0, tn(r0[j])).contains(x));
        }
    }
}
/// the next root's nodes are untouched by the edits staged so far
pub proof fn lemma_dift_untouched(m0: TM, r0: Seq<u32>, rk: Seq<u32>, k: int, t: TmpV, d: Set<u32>, cap: u64)
    requires dift_inv(m0, r0, rk, k, t, d, cap), k < r0.len()
    ensures tmp_untouched(t, tnodes(m0, tn(r0[k]))), tree(m0, tn(r0[k])), rk[k] == r0[k]
{
    let sk = tnodes(m0, tn(r0[k]));
    assert forall|x: u32| #![trigger sk.contains(x)] #![trigger t.puts.contains_key(x)] #![trigger t.deleted.contains(x)] sk.contains(x) implies !t.puts.contains_key(x) && !t.deleted.contains(x) by {
        if t.puts.contains_key(x) || t.deleted.contains(x) {
            let j = choose|j: int| 0 <= j < k && tnodes(m0, tn(#[trigger] r0[j])).contains(x);
            assert(tnodes(m0, tn(r0[j])).disjoint(tnodes(m0, tn(r0[k]))));
        }
    }
}
pub open spec fn is_perm(p: Seq<int>, n: int) -> bool {
    p.len() == n && (forall|a: int| 0 <= a < n ==> 0 <= #[trigger] p[a] < n) && (forall|a: int, b: int| 0 <= a < b < n ==> p[a] != p[b])
}
/// postcondition of delete_items_from_trees
pub open spec fn dift_post(v0: DbView, v1: DbView, i: u16, r0: Seq<u32>, r1: Seq<u32>, d: Set<u32>, cap: u64) -> bool {
    let m0 = tmap(v0, i); let m1 = tmap(v1, i);
    &&& same_except(v0, v1, i, true, false, false, false) && tree_keys_ok(v1, i)
    &&& r1.len() == r0.len() && forest(m1, r1)
    // every new tree is what is left of one old tree: same items minus the deleted ids, nodes among the old ones
    &&& (exists|p: Seq<int>| #![trigger is_perm(p, r0.len() as int)] is_perm(p, r0.len() as int) && forall|k: int| 0 <= k < r1.len() ==>
            titems(m1, tn(#[trigger] r1[k])) == titems(m0, tn(r0[p[k]])).difference(d) && tnodes(m1, tn(r1[k])).subset_of(tnodes(m0, tn(r0[p[k]])))
            && (titems(m0, tn(r0[p[k]])).difference(d).len() <= cap ==> m1[r1[k]] is Desc)
            // C15: deleting never creates an oversized bucket
            && (no_big(m0, tnodes(m0, tn(r0[p[k]])), cap) ==> no_big(m1, tnodes(m1, tn(r1[k])), cap)))
    // no orphan: a node of an old tree that still exists belongs to a new tree; nodes outside the old trees are untouched
    &&& (forall|x: u32| #![trigger m1.contains_key(x)] m1.contains_key(x) ==> m0.contains_key(x)
            && (in_some_tree(m0, r0, r0.len() as int, x) ==> in_some_tree(m1, r1, r1.len() as int, x))
            && (!in_some_tree(m0, r0, r0.len() as int, x) ==> m1[x] == m0[x]))
    &&& (forall|x: u32| #![trigger m0.contains_key(x)] m0.contains_key(x) && !in_some_tree(m0, r0, r0.len() as int, x) ==> m1.contains_key(x))
}
pub proof fn lemma_dift_finish(v0: DbView, v1: DbView, i: u16, r0: Seq<u32>, rk: Seq<u32>, r1: Seq<u32>, p: Seq<int>, t: TmpV, d: Set<u32>, cap: u64)
    requires
        dift_inv(tmap(v0, i), r0, rk, r0.len() as int, t, d, cap),
        same_except(v0, v1, i, true, false, false, false), tree_keys_ok(v1, i), tmap(v1, i) == apply(tmap(v0, i), t),
        is_perm(p, r0.len() as int), r1.len() == rk.len(), forall|k: int| 0 <= k < r1.len() ==> #[trigger] r1[k] == rk[p[k]],
    ensures dift_post(v0, v1, i, r0, r1, d, cap)
{
    let m0 = tmap(v0, i); let m1 = tmap(v1, i); let n = r0.len() as int;
    assert forall|k: int| 0 <= k < n implies tree(m1, tn(#[trigger] r1[k])) by { assert(dift_done(m0, r0[p[k]], rk[p[k]], t, d, cap)); }
    assert forall|a: int, b: int| 0 <= a < b < n implies tnodes(m1, tn(#[trigger] r1[a])).disjoint(tnodes(m1, tn(#[trigger] r1[b]))) by {
        assert(dift_done(m0, r0[p[a]], rk[p[a]], t, d, cap)); assert(dift_done(m0, r0[p[b]], rk[p[b]], t, d, cap));
        assert(p[a] != p[b]);
        if p[a] < p[b] { assert(tnodes(m0, tn(r0[p[a]])).disjoint(tnodes(m0, tn(r0[p[b]])))); } else { assert(tnodes(m0, tn(r0[p[b]])).disjoint(tnodes(m0, tn(r0[p[a]])))); }
    }
    assert forall|k: int| 0 <= k < r1.len() implies
            titems(m1, tn(#[trigger] r1[k])) == titems(m0, tn(r0[p[k]])).difference(d) && tnodes(m1, tn(r1[k])).subset_of(tnodes(m0, tn(r0[p[k]])))
            && (titems(m0, tn(r0[p[k]])).difference(d).len() <= cap ==> m1[r1[k]] is Desc)
            && (no_big(m0, tnodes(m0, tn(r0[p[k]])), cap) ==> no_big(m1, tnodes(m1, tn(r1[k])), cap)) by { assert(dift_done(m0, r0[p[k]], rk[p[k]], t, d, cap)); }
    // surjectivity of p, to find the new tree of an old tree
    assert forall|x: u32| #![trigger m1.contains_key(x)] m1.contains_key(x) implies m0.contains_key(x)
            && (in_some_tree(m0, r0, n, x) ==> in_some_tree(m1, r1, n, x)) && (!in_some_tree(m0, r0, n, x) ==> m1[x] == m0[x]) by {
        if t.puts.contains_key(x) || t.deleted.contains(x) {
            let j = choose|j: int| 0 <= j < n && tnodes(m0, tn(#[trigger] r0[j])).contains(x);
            lemma_nodes_exist(m0, tn(r0[j]));
        }
        if in_some_tree(m0, r0, n, x) {
            let j = choose|j: int| 0 <= j < n && tnodes(m0, tn(#[trigger] r0[j])).contains(x);
            assert(dift_done(m0, r0[j], rk[j], t, d, cap));
            assert(!t.deleted.contains(x));
            assert(tnodes(m1, tn(rk[j])).contains(x));
            lemma_perm_surj(p, n, j);
            let k = choose|k: int| 0 <= k < n && p[k] == j;
            assert(r1[k] == rk[j]);
            assert(tnodes(m1, tn(r1[k])).contains(x));
        } else {
            assert(!t.puts.contains_key(x) && !t.deleted.contains(x));
        }
    }
    assert forall|x: u32| #![trigger m0.contains_key(x)] m0.contains_key(x) && !in_some_tree(m0, r0, n, x) implies m1.contains_key(x) by {
        assert(!t.puts.contains_key(x) && !t.deleted.contains(x));
    }
}
/// a permutation of 0..n hits every index (pigeonhole, by induction on n via removal)
pub proof fn lemma_perm_surj(p: Seq<int>, n: int, j: int)
    requires is_perm(p, n), 0 <= j < n
    ensures exists|k: int| 0 <= k < n && p[k] == j
    decreases n
{
    if forall|k: int| 0 <= k < n ==> p[k] != j {
        // then p maps 0..n injectively into 0..n minus {j}: impossible; shown by counting with sets
        let img = Set::<int>::new(|y: int| 0 <= y < n && y != j);
        lemma_perm_count(p, n, j);
    }
}
pub proof fn lemma_perm_count(p: Seq<int>, n: int, j: int)
    requires is_perm(p, n), 0 <= j < n, forall|k: int| 0 <= k < n ==> p[k] != j
    ensures false
    decreases n
{
    // the n distinct values p[0..n) all lie in {0..n} \ {j}, a set of n - 1 elements
    let vals = p.to_set();
    assert(p.no_duplicates());
    p.unique_seq_to_set();
    assert(vals.len() == n);
    let tgt = vstd::set_lib::set_int_range(0, n).remove(j);
    vstd::set_lib::lemma_int_range(0, n);
    assert(vals.subset_of(tgt)) by { assert forall|y: int| vals.contains(y) implies tgt.contains(y) by { let k = choose|k: int| 0 <= k < p.len() && p[k] == y; assert(0 <= p[k] < n); } }
    vstd::set_lib::lemma_len_subset(vals, tgt);
}
