// ---- incremental_index_large_descendants: replacing an oversized bucket by a subtree ---------------------------------
/// m3 is m with the bucket d replaced by a subtree over the same items, made of d and new ids `fnew`; nothing else differs
pub open spec fn replaced(m: TM, m3: TM, d: u32, fnew: Set<u32>) -> bool {
    &&& m.contains_key(d) && m[d] is Desc
    &&& tree(m3, tn(d)) && titems(m3, tn(d)) == m[d]->Desc_0 && tnodes(m3, tn(d)).subset_of(fnew.insert(d))
    &&& (forall|x: u32| #![trigger fnew.contains(x)] fnew.contains(x) ==> !m.contains_key(x))
    // no orphan: every new node is part of the new subtree
    &&& (forall|x: u32| #![trigger m3.contains_key(x)] m3.contains_key(x) && !m.contains_key(x) ==> tnodes(m3, tn(d)).contains(x))
    &&& (forall|x: u32| #![trigger m3.contains_key(x)] #![trigger m.contains_key(x)] x != d && !fnew.contains(x) ==> (m3.contains_key(x) == m.contains_key(x) && (m.contains_key(x) ==> m3[x] == m[x])))
}
pub open spec fn repl_nodes(m: TM, m3: TM, d: u32, s: Set<u32>) -> Set<u32> { if s.contains(d) { s.union(tnodes(m3, tn(d))) } else { s } }
/// a tree of m that (possibly) contains the bucket d is still a tree in m3, over the same items; its nodes are the old ones plus the new subtree's
pub proof fn lemma_replace_f(m: TM, m3: TM, d: u32, fnew: Set<u32>, n: NodeId, f: nat)
    requires replaced(m, m3, d, fnew), wf(m, n, f)
    ensures
        tree(m3, n), titems(m3, n) == items(m, n, f),
        nodes(m, n, f).subset_of(tnodes(m3, n)), tnodes(m3, n).subset_of(repl_nodes(m, m3, d, nodes(m, n, f))),
        nodes(m, n, f).contains(d) ==> tnodes(m3, tn(d)).subset_of(tnodes(m3, n)),
    decreases f
{
    if n.mode == NodeMode::Item {
        lemma_item(m3, n.item);
        assert(n == itn(n.item));
    } else {
        let x = n.item;
        assert(n == tn(x));
        if x == d {
            lemma_unfold(m3, d);
        } else {
            assert(!fnew.contains(x));
            assert(m3.contains_key(x) && m3[x] == m[x]);
            match m[x] {
                TNode::Desc(s) => { lemma_fold_desc(m3, x); }
                TNode::Split(l, r, _) => {
                    let f1 = (f - 1) as nat;
                    lemma_replace_f(m, m3, d, fnew, l, f1);
                    lemma_replace_f(m, m3, d, fnew, r, f1);
                    lemma_nodes_exist_f(m, l, f1); lemma_nodes_exist_f(m, r, f1);
                    let nl = nodes(m, l, f1); let nr = nodes(m, r, f1); let dd = tnodes(m3, tn(d));
                    assert(tnodes(m3, l).disjoint(tnodes(m3, r))) by {
                        assert forall|y: u32| tnodes(m3, l).contains(y) && tnodes(m3, r).contains(y) implies false by {
                            assert(repl_nodes(m, m3, d, nl).contains(y) && repl_nodes(m, m3, d, nr).contains(y));
                            if nl.contains(y) && nr.contains(y) {}
                            else if nl.contains(y) { assert(dd.contains(y)); assert(fnew.insert(d).contains(y)); if y != d { assert(fnew.contains(y)); assert(m.contains_key(y)); } }
                            else if nr.contains(y) { assert(dd.contains(y)); assert(fnew.insert(d).contains(y)); if y != d { assert(fnew.contains(y)); assert(m.contains_key(y)); } }
                            else { assert(nl.contains(d) && nr.contains(d)); }
                        }
                    }
                    assert(!tnodes(m3, l).contains(x) && !tnodes(m3, r).contains(x)) by {
                        if tnodes(m3, l).contains(x) { assert(repl_nodes(m, m3, d, nl).contains(x)); assert(dd.contains(x)); assert(fnew.insert(d).contains(x)); }
                        if tnodes(m3, r).contains(x) { assert(repl_nodes(m, m3, d, nr).contains(x)); assert(dd.contains(x)); assert(fnew.insert(d).contains(x)); }
                    }
                    lemma_fold_split(m3, x);
                    assert(tnodes(m3, n).subset_of(repl_nodes(m, m3, d, nodes(m, n, f)))) by {
                        assert forall|y: u32| tnodes(m3, n).contains(y) implies repl_nodes(m, m3, d, nodes(m, n, f)).contains(y) by {
                            if y == x {} else if tnodes(m3, l).contains(y) { assert(repl_nodes(m, m3, d, nl).contains(y)); } else { assert(repl_nodes(m, m3, d, nr).contains(y)); }
                        }
                    }
                }
            }
        }
    }
}
pub proof fn lemma_replace(m: TM, m3: TM, d: u32, fnew: Set<u32>, n: NodeId)
    requires replaced(m, m3, d, fnew), tree(m, n)
    ensures
        tree(m3, n), titems(m3, n) == titems(m, n),
        tnodes(m, n).subset_of(tnodes(m3, n)), tnodes(m3, n).subset_of(repl_nodes(m, m3, d, tnodes(m, n))),
        tnodes(m, n).contains(d) ==> tnodes(m3, tn(d)).subset_of(tnodes(m3, n)),
{
    assert(wf(m, n, ht(m, n)));
    lemma_replace_f(m, m3, d, fnew, n, ht(m, n));
}

/// state of incremental_index_large_descendants at its loop head, relative to the entry state m0
pub open spec fn incr_inv(m0: TM, mc: TM, roots: Seq<u32>, large: Set<u32>, cap: u64) -> bool {
    let n = roots.len() as int;
    &&& forest(mc, roots)
    // C01: the trees keep their items while their oversized buckets are split
    &&& (forall|k: int| 0 <= k < n ==> titems(mc, tn(#[trigger] roots[k])) == titems(m0, tn(roots[k])) && tnodes(m0, tn(roots[k])).subset_of(tnodes(mc, tn(roots[k]))))
    // frame: no node is removed; new nodes belong to the trees (no orphan); nodes outside the trees are untouched
    &&& (forall|x: u32| #![trigger m0.contains_key(x)] m0.contains_key(x) ==> mc.contains_key(x))
    &&& (forall|x: u32| #![trigger mc.contains_key(x)] mc.contains_key(x) && !m0.contains_key(x) ==> in_tree(mc, roots, n, x))
    &&& (forall|x: u32| #![trigger in_tree(m0, roots, n, x)] m0.contains_key(x) && !in_tree(m0, roots, n, x) ==> mc[x] == m0[x] && !in_tree(mc, roots, n, x))
    // C15: every oversized bucket of the trees is queued; only buckets of the trees are queued
    &&& (forall|x: u32| #![trigger large.contains(x)] large.contains(x) ==> in_tree(mc, roots, n, x) && mc[x] is Desc)
    &&& (forall|x: u32| #![trigger in_tree(mc, roots, n, x)] in_tree(mc, roots, n, x) && over_cap(mc[x], cap) ==> large.contains(x))
}
/// one iteration: bucket d (queued) was replaced; `lg` are the buckets of the new subtree that are oversized
pub proof fn lemma_incr_step(m0: TM, ma: TM, m3: TM, roots: Seq<u32>, large: Set<u32>, large2: Set<u32>, cap: u64, d: u32, fnew: Set<u32>, lg: Set<u32>)
    requires
        incr_inv(m0, ma, roots, large, cap), large.contains(d), replaced(ma, m3, d, fnew),
        forall|x: u32| #![trigger lg.contains(x)] lg.contains(x) ==> tnodes(m3, tn(d)).contains(x) && m3[x] is Desc,
        forall|x: u32| #![trigger tnodes(m3, tn(d)).contains(x)] tnodes(m3, tn(d)).contains(x) && over_cap(m3[x], cap) ==> lg.contains(x),
        large2 == large.remove(d).union(lg),
    ensures incr_inv(m0, m3, roots, large2, cap)
{
    let n = roots.len() as int;
    let dd = tnodes(m3, tn(d));
    let jd = choose|j: int| 0 <= j < n && tnodes(ma, tn(#[trigger] roots[j])).contains(d);
    assert(in_tree(ma, roots, n, d));
    assert(tnodes(ma, tn(roots[jd])).contains(d));
    assert forall|k: int| 0 <= k < n implies tree(m3, tn(#[trigger] roots[k])) && titems(m3, tn(roots[k])) == titems(m0, tn(roots[k])) && tnodes(m0, tn(roots[k])).subset_of(tnodes(m3, tn(roots[k])))
        && tnodes(ma, tn(roots[k])).subset_of(tnodes(m3, tn(roots[k]))) && tnodes(m3, tn(roots[k])).subset_of(repl_nodes(ma, m3, d, tnodes(ma, tn(roots[k]))))
        && (tnodes(ma, tn(roots[k])).contains(d) ==> dd.subset_of(tnodes(m3, tn(roots[k])))) by {
        lemma_replace(ma, m3, d, fnew, tn(roots[k]));
    }
    assert forall|k: int, x: u32| 0 <= k < n && #[trigger] tnodes(ma, tn(roots[k])).contains(x) implies ma.contains_key(x) by { lemma_nodes_exist(ma, tn(roots[k])); }
    // d belongs to exactly one tree
    assert forall|k: int| 0 <= k < n && k != jd implies !tnodes(ma, tn(#[trigger] roots[k])).contains(d) by {
        if k < jd { assert(tnodes(ma, tn(roots[k])).disjoint(tnodes(ma, tn(roots[jd])))); } else { assert(tnodes(ma, tn(roots[jd])).disjoint(tnodes(ma, tn(roots[k])))); }
    }
    assert forall|a: int, b: int| 0 <= a < b < n implies tnodes(m3, tn(#[trigger] roots[a])).disjoint(tnodes(m3, tn(#[trigger] roots[b]))) by {
        assert(tnodes(ma, tn(roots[a])).disjoint(tnodes(ma, tn(roots[b]))));
        assert forall|y: u32| tnodes(m3, tn(roots[a])).contains(y) && tnodes(m3, tn(roots[b])).contains(y) implies false by {
            assert(repl_nodes(ma, m3, d, tnodes(ma, tn(roots[a]))).contains(y) && repl_nodes(ma, m3, d, tnodes(ma, tn(roots[b]))).contains(y));
            if dd.contains(y) && y != d { assert(fnew.insert(d).contains(y)); assert(fnew.contains(y)); assert(!ma.contains_key(y)); }
        }
    }
    assert forall|x: u32| #![trigger m0.contains_key(x)] m0.contains_key(x) implies m3.contains_key(x) by {
        assert(ma.contains_key(x)); if x == d { lemma_unfold(m3, d); } else { assert(!fnew.contains(x)); }
    }
    assert forall|x: u32| #![trigger m3.contains_key(x)] m3.contains_key(x) && !m0.contains_key(x) implies in_tree(m3, roots, n, x) by {
        if ma.contains_key(x) {
            assert(in_tree(ma, roots, n, x));
            let j = choose|j: int| 0 <= j < n && tnodes(ma, tn(#[trigger] roots[j])).contains(x);
            assert(tnodes(m3, tn(roots[j])).contains(x));
        } else {
            // a new key: it is d's subtree
            assert(x != d);
            assert(dd.contains(x));
            assert(tnodes(m3, tn(roots[jd])).contains(x));
        }
    }
    assert forall|x: u32| #![trigger in_tree(m0, roots, n, x)] m0.contains_key(x) && !in_tree(m0, roots, n, x) implies m3[x] == m0[x] && !in_tree(m3, roots, n, x) by {
        assert(ma[x] == m0[x] && !in_tree(ma, roots, n, x));
        assert(x != d);
        assert(ma.contains_key(x)); assert(!fnew.contains(x));
        if in_tree(m3, roots, n, x) {
            let j = choose|j: int| 0 <= j < n && tnodes(m3, tn(#[trigger] roots[j])).contains(x);
            assert(repl_nodes(ma, m3, d, tnodes(ma, tn(roots[j]))).contains(x));
            if tnodes(ma, tn(roots[j])).contains(x) { assert(in_tree(ma, roots, n, x)); }
            else { assert(dd.contains(x)); assert(fnew.insert(d).contains(x)); }
        }
    }
    assert forall|x: u32| #![trigger large2.contains(x)] large2.contains(x) implies in_tree(m3, roots, n, x) && m3[x] is Desc by {
        if lg.contains(x) { assert(dd.contains(x)); assert(tnodes(m3, tn(roots[jd])).contains(x)); }
        else {
            assert(large.contains(x) && x != d);
            let j = choose|j: int| 0 <= j < n && tnodes(ma, tn(#[trigger] roots[j])).contains(x);
            assert(tnodes(m3, tn(roots[j])).contains(x));
            assert(ma.contains_key(x)); assert(!fnew.contains(x));
        }
    }
    assert forall|x: u32| #![trigger in_tree(m3, roots, n, x)] in_tree(m3, roots, n, x) && over_cap(m3[x], cap) implies large2.contains(x) by {
        let j = choose|j: int| 0 <= j < n && tnodes(m3, tn(#[trigger] roots[j])).contains(x);
        assert(repl_nodes(ma, m3, d, tnodes(ma, tn(roots[j]))).contains(x));
        if dd.contains(x) { assert(lg.contains(x)); }
        else {
            assert(tnodes(ma, tn(roots[j])).contains(x)); assert(in_tree(ma, roots, n, x));
            lemma_unfold(m3, d); assert(x != d);
            assert(ma.contains_key(x)); assert(!fnew.contains(x)); assert(m3[x] == ma[x]);
            assert(large.contains(x));
        }
    }
}

/// a queued bucket that is not oversized is simply dropped from the queue
pub proof fn lemma_incr_skip(m0: TM, ma: TM, roots: Seq<u32>, large: Set<u32>, cap: u64, d: u32)
    requires incr_inv(m0, ma, roots, large, cap), large.contains(d), !over_cap(ma[d], cap)
    ensures incr_inv(m0, ma, roots, large.remove(d), cap)
{
}
pub open spec fn rm1(a: u32, b: u32) -> Map<u32, u32> { if a != b { Map::<u32, u32>::empty().insert(a, b) } else { Map::<u32, u32>::empty() } }
/// facts about the staging area filled by make_tree_in_file on an empty snapshot
pub open spec fn mk_fresh(ma: TM, t: TmpV, tk: Set<u32>, al: Set<u32>, sel: Set<u32>, cap: u64, root: NodeId, count: u64, leafs: &ImmutableLeafs) -> bool {
    &&& mk_post(IMap::<u32, TNode>::empty(), tk, empty_tv(), t, Set::<u32>::empty(), al, sel, cap, root, count, leafs)
    &&& (forall|x: u32| #![trigger ma.contains_key(x)] ma.contains_key(x) ==> tk.contains(x))
}
pub proof fn lemma_remap_ok(ma: TM, t: TmpV, tk: Set<u32>, al: Set<u32>, sel: Set<u32>, cap: u64, root: NodeId, count: u64, d: u32, leafs: &ImmutableLeafs)
    requires mk_fresh(ma, t, tk, al, sel, cap, root, count, leafs), ma.contains_key(d)
    ensures remap_ok(t, rm1(root.item, d)),
        forall|x: u32| #![trigger al.contains(x)] al.contains(x) ==> !ma.contains_key(x),
        forall|x: u32| #![trigger t.puts.contains_key(x)] t.puts.contains_key(x) ==> al.contains(x),
        t.deleted == Set::<u32>::empty(),
{
    let rm = rm1(root.item, d);
    assert(al.difference(Set::<u32>::empty()) =~= al);
    assert forall|x: u32| #![trigger t.puts.contains_key(x)] t.puts.contains_key(x) implies al.contains(x) by {
        if !al.contains(x) { assert(t.puts.contains_key(x) == empty_tv().puts.contains_key(x)); }
    }
    assert(!t.puts.contains_key(d)) by { if t.puts.contains_key(d) { assert(al.contains(d)); assert(tk.contains(d)); } }
    assert forall|k1: u32, k2: u32, kk: u32| #![trigger src_of(t, rm, kk, k1), src_of(t, rm, kk, k2)] src_of(t, rm, kk, k1) && src_of(t, rm, kk, k2) implies k1 == k2 by {
        if k1 != k2 {
            // one of them is remapped onto d, the other is d itself or maps onto itself: both are puts, d is not
            if rm.contains_key(k1) { assert(kk == d); assert(rmk(rm, k2) == k2); }
            else if rm.contains_key(k2) { assert(kk == d); assert(rmk(rm, k1) == k1); }
        }
    }
}
/// the subtree staged by make_tree_in_file, written back with its root remapped onto the bucket d
pub proof fn lemma_remap_tree(ma: TM, mb: TM, t: TmpV, tk: Set<u32>, al: Set<u32>, sel: Set<u32>, cap: u64, root: NodeId, count: u64, d: u32, leafs: &ImmutableLeafs)
    requires
        mk_fresh(ma, t, tk, al, sel, cap, root, count, leafs), root.mode == NodeMode::Tree, ma.contains_key(d), d != u32::MAX,
        mb == overlay(ma, t, rm1(root.item, d)),
    ensures
        tree(mb, tn(d)), titems(mb, tn(d)) == sel, tnodes(mb, tn(d)) == al.remove(root.item).insert(d),
        forall|x: u32| #![trigger tnodes(mb, tn(d)).contains(x)] tnodes(mb, tn(d)).contains(x) ==> !over_cap(mb[x], cap),
        forall|x: u32| #![trigger mb.contains_key(x)] x != d && !al.contains(x) ==> (mb.contains_key(x) == ma.contains_key(x) && (ma.contains_key(x) ==> mb[x] == ma[x])),
        !mb.contains_key(root.item),
        forall|x: u32| #![trigger al.contains(x)] al.contains(x) && x != root.item ==> mb.contains_key(x),
{
    let r = root.item; let rm = rm1(r, d);
    let mt = apply(IMap::<u32, TNode>::empty(), t);
    lemma_remap_ok(ma, t, tk, al, sel, cap, root, count, d, leafs);
    assert(al.difference(Set::<u32>::empty()) =~= al);
    assert(root == tn(r));
    lemma_unfold(mt, r);
    lemma_nodes_exist(mt, root);
    assert(al.contains(r)); assert(r != d); assert(rm == Map::<u32, u32>::empty().insert(r, d));
    assert(t.puts.contains_key(r));
    // sources of the overlay
    assert forall|k2: u32| #![trigger has_src(t, rm, k2)] has_src(t, rm, k2) <==> (k2 == d || (k2 != r && t.puts.contains_key(k2))) by {
        if k2 == d { assert(src_of(t, rm, d, r)); }
        if k2 != r && t.puts.contains_key(k2) { assert(rmk(rm, k2) == k2); assert(src_of(t, rm, k2, k2)); }
        if has_src(t, rm, k2) { let k = choose|k: u32| src_of(t, rm, k2, k); if k == r { assert(k2 == d); } else { assert(rmk(rm, k) == k); } }
    }
    assert(mb.contains_key(d) && mb[d] == mt[r]) by {
        let k = choose|k: u32| src_of(t, rm, d, k);
        assert(src_of(t, rm, d, r));
        if k != r { assert(rmk(rm, k) == k); assert(t.puts.contains_key(d)); }
    }
    assert forall|x: u32| #![trigger al.contains(x)] al.contains(x) && x != r implies mb.contains_key(x) && mb[x] == mt[x] by {
        assert(mt.contains_key(x)); assert(t.puts.contains_key(x));
        assert(src_of(t, rm, x, x)) by { assert(rmk(rm, x) == x); }
        let k = choose|k: u32| src_of(t, rm, x, k);
        if k == r { assert(rmk(rm, r) == d); } else { assert(rmk(rm, k) == k); }
    }
    assert(!mb.contains_key(r)) by { assert(!has_src(t, rm, r)); assert(!ma.contains_key(r)); }
    match mt[r] {
        TNode::Desc(s0) => {
            lemma_fold_desc(mb, d);
            assert(al =~= set![r]);
            assert(tnodes(mb, tn(d)) =~= al.remove(r).insert(d));
        }
        TNode::Split(l, rr, _) => {
            lemma_nodes_exist(mt, l); lemma_nodes_exist(mt, rr);
            assert forall|x: u32| #[trigger] tnodes(mt, l).contains(x) implies mb.contains_key(x) && mb[x] == mt[x] by { assert(al.contains(x)); }
            assert forall|x: u32| #[trigger] tnodes(mt, rr).contains(x) implies mb.contains_key(x) && mb[x] == mt[x] by { assert(al.contains(x)); }
            lemma_frame(mt, mb, l); lemma_frame(mt, mb, rr);
            assert(!tnodes(mb, l).contains(d) && !tnodes(mb, rr).contains(d)) by { if tnodes(mt, l).contains(d) || tnodes(mt, rr).contains(d) { assert(al.contains(d)); } }
            lemma_fold_split(mb, d);
            assert(tnodes(mb, tn(d)) =~= al.remove(r).insert(d));
        }
    }
    assert forall|x: u32| #![trigger tnodes(mb, tn(d)).contains(x)] tnodes(mb, tn(d)).contains(x) implies !over_cap(mb[x], cap) by {
        if x == d { assert(!over_cap(mt[r], cap)); } else { assert(al.contains(x) && x != r); assert(!over_cap(mt[x], cap)); }
    }
    assert forall|x: u32| #![trigger mb.contains_key(x)] x != d && !al.contains(x) implies (mb.contains_key(x) == ma.contains_key(x) && (ma.contains_key(x) ==> mb[x] == ma[x])) by {
        assert(!has_src(t, rm, x));
    }
}
/// after the rest of the bucket's ids were inserted into the new subtree: the bucket is `replaced`
pub proof fn lemma_incr_iter(ma: TM, mb: TM, mc: TM, al: Set<u32>, d: u32, sel: Set<u32>, rest: Set<u32>, lg: Set<u32>, cap: u64)
    requires
        ma.contains_key(d), ma[d] is Desc, sel.union(rest) == ma[d]->Desc_0,
        forall|x: u32| #![trigger al.contains(x)] al.contains(x) ==> !ma.contains_key(x),
        tree(mb, tn(d)), titems(mb, tn(d)) == sel, tnodes(mb, tn(d)).subset_of(al.insert(d)),
        forall|x: u32| #![trigger al.contains(x)] al.contains(x) && mb.contains_key(x) ==> tnodes(mb, tn(d)).contains(x),
        forall|x: u32| #![trigger tnodes(mb, tn(d)).contains(x)] tnodes(mb, tn(d)).contains(x) ==> !over_cap(mb[x], cap),
        forall|x: u32| #![trigger mb.contains_key(x)] x != d && !al.contains(x) ==> (mb.contains_key(x) == ma.contains_key(x) && (ma.contains_key(x) ==> mb[x] == ma[x])),
        iict_inv(mb, mc, seq![d], rest, lg, cap),
    ensures
        replaced(ma, mc, d, tnodes(mc, tn(d)).remove(d)),
        forall|x: u32| #![trigger lg.contains(x)] lg.contains(x) ==> tnodes(mc, tn(d)).contains(x) && mc[x] is Desc,
        forall|x: u32| #![trigger tnodes(mc, tn(d)).contains(x)] tnodes(mc, tn(d)).contains(x) && over_cap(mc[x], cap) ==> lg.contains(x),
{
    let rs = seq![d]; let fnew = tnodes(mc, tn(d)).remove(d);
    assert(rs.len() == 1 && rs[0] == d);
    assert(tree(mc, tn(rs[0])));
    assert(titems(mc, tn(rs[0])) == titems(mb, tn(rs[0])).union(rest));
    assert(tnodes(mb, tn(rs[0])).subset_of(tnodes(mc, tn(rs[0]))));
    lemma_nodes_exist(mc, tn(d)); lemma_nodes_exist(mb, tn(d));
    assert forall|x: u32| in_tree(mc, rs, 1, x) <==> tnodes(mc, tn(d)).contains(x) by {
        if in_tree(mc, rs, 1, x) { let j = choose|j: int| 0 <= j < 1 && tnodes(mc, tn(#[trigger] rs[j])).contains(x); assert(j == 0); }
        if tnodes(mc, tn(d)).contains(x) { assert(tnodes(mc, tn(rs[0])).contains(x)); }
    }
    assert forall|x: u32| in_tree(mb, rs, 1, x) <==> tnodes(mb, tn(d)).contains(x) by {
        if in_tree(mb, rs, 1, x) { let j = choose|j: int| 0 <= j < 1 && tnodes(mb, tn(#[trigger] rs[j])).contains(x); assert(j == 0); }
        if tnodes(mb, tn(d)).contains(x) { assert(tnodes(mb, tn(rs[0])).contains(x)); }
    }
    // new ids are not keys of ma
    assert forall|x: u32| #![trigger fnew.contains(x)] fnew.contains(x) implies !ma.contains_key(x) by {
        assert(tnodes(mc, tn(rs[0])).contains(x));
        assert(tnodes(mb, tn(rs[0])).contains(x) || !mb.contains_key(x));
        if tnodes(mb, tn(d)).contains(x) { assert(al.insert(d).contains(x)); assert(al.contains(x)); }
        else { if ma.contains_key(x) { assert(!al.contains(x)); assert(mb.contains_key(x)); } }
    }
    assert forall|x: u32| #![trigger mc.contains_key(x)] mc.contains_key(x) && !ma.contains_key(x) implies tnodes(mc, tn(d)).contains(x) by {
        if !mb.contains_key(x) { assert(in_tree(mc, rs, 1, x)); }
        else { assert(x != d); if !al.contains(x) { assert(mb.contains_key(x) == ma.contains_key(x)); } else { assert(tnodes(mb, tn(d)).contains(x)); } }
    }
    assert forall|x: u32| #![trigger mc.contains_key(x)] #![trigger ma.contains_key(x)] x != d && !fnew.contains(x) implies (mc.contains_key(x) == ma.contains_key(x) && (ma.contains_key(x) ==> mc[x] == ma[x])) by {
        assert(!tnodes(mc, tn(d)).contains(x));
        assert(!tnodes(mb, tn(d)).contains(x));
        if ma.contains_key(x) {
            assert(!al.contains(x)); assert(mb.contains_key(x) && mb[x] == ma[x]);
            assert(!in_tree(mb, rs, 1, x));
            assert(mc.contains_key(x)); assert(mc[x] == mb[x]);
        }
        if mc.contains_key(x) && !ma.contains_key(x) { assert(tnodes(mc, tn(d)).contains(x)); }
    }
    assert(titems(mc, tn(d)) == ma[d]->Desc_0);
    assert forall|x: u32| #![trigger lg.contains(x)] lg.contains(x) implies tnodes(mc, tn(d)).contains(x) && mc[x] is Desc by { assert(in_tree(mc, rs, 1, x)); }
    assert forall|x: u32| #![trigger tnodes(mc, tn(d)).contains(x)] tnodes(mc, tn(d)).contains(x) && over_cap(mc[x], cap) implies lg.contains(x) by {
        assert(in_tree(mc, rs, 1, x));
        if !lg.contains(x) {
            assert(mb.contains_key(x) && mc[x] == mb[x]);
            assert(tnodes(mc, tn(rs[0])).contains(x));
            assert(tnodes(mb, tn(rs[0])).contains(x) || !mb.contains_key(x));
            assert(!over_cap(mb[x], cap));
        }
    }
}

/// the ids of a bucket of a tree are items of that tree
pub proof fn lemma_bucket_items_f(m: TM, n: NodeId, d: u32, f: nat)
    requires wf(m, n, f), nodes(m, n, f).contains(d), m[d] is Desc
    ensures m[d]->Desc_0.subset_of(items(m, n, f))
    decreases f
{
    if n.mode == NodeMode::Tree && m.contains_key(n.item) {
        match m[n.item] {
            TNode::Desc(_) => {}
            TNode::Split(l, r, _) => {
                if n.item != d {
                    let f1 = (f - 1) as nat;
                    if nodes(m, l, f1).contains(d) { lemma_bucket_items_f(m, l, d, f1); } else { lemma_bucket_items_f(m, r, d, f1); }
                }
            }
        }
    }
}
pub proof fn lemma_bucket_in_forest(m: TM, rs: Seq<u32>, d: u32) -> (j: int)
    requires forest(m, rs), in_tree(m, rs, rs.len() as int, d), m[d] is Desc
    ensures 0 <= j < rs.len(), tnodes(m, tn(rs[j])).contains(d), m[d]->Desc_0.subset_of(titems(m, tn(rs[j]))), m.contains_key(d), d != u32::MAX
{
    let j = choose|j: int| 0 <= j < rs.len() && tnodes(m, tn(#[trigger] rs[j])).contains(d);
    assert(tree(m, tn(rs[j])));
    assert(wf(m, tn(rs[j]), ht(m, tn(rs[j]))));
    lemma_bucket_items_f(m, tn(rs[j]), d, ht(m, tn(rs[j])));
    lemma_nodes_exist(m, tn(rs[j]));
    j
}
