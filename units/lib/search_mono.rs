// ---- C03: enlarging the budget never shortens the result nor makes any rank worse (lemmas over search_trace.rs) -----------------------
pub open spec fn okey(v: DbView, i: u16, q: LeafV, o: (ItemId, f32)) -> (f32, u32) { (Dist::built_spec(q, leafv(v, i, o.0)), o.0) }
/// the order / distinctness clauses of the contract of nns_by_leaf
pub open spec fn out_sorted(v: DbView, i: u16, q: LeafV, out: Seq<(ItemId, f32)>) -> bool {
    forall|a: int, b: int| #![trigger out[a], out[b]] 0 <= a < b < out.len() ==> out[a].0 != out[b].0 && pair_le(okey(v, i, q, out[a]), okey(v, i, q, out[b]))
}

pub proof fn lemma_step_keeps(v: DbView, i: u16, c: Option<&RoaringBitmap>, qv: VecV, s: TSt, x: u32)
    requires s.nns.contains(x)
    ensures t_step(v, i, c, qv, s).nns.contains(x)
{
    let t = t_step(v, i, c, qv, s);
    let k = choose|k: int| 0 <= k < s.nns.len() && s.nns[k] == x;
    match pop_of(s.hist) {
        None => {}
        Some(e) => {
            let item = e.1;
            let kk = akey(i, item.mode, item.item);
            if v.contains_key(kk) {
                match v[kk] {
                    AVal::Leaf(_) => { if in_filter(c, item.item) { assert(t.nns == s.nns.push(item.item)); assert(t.nns[k] == x); } }
                    AVal::Tree(TNode::Desc(b)) => { assert(t.nns == s.nns + bm_seq(filt(c, b))); assert(t.nns[k] == x); }
                    _ => {}
                }
            }
        }
    }
}
pub proof fn lemma_iter_keeps(v: DbView, i: u16, c: Option<&RoaringBitmap>, qv: VecV, s0: TSt, a: nat, b: nat, x: u32)
    requires a <= b, t_iter(v, i, c, qv, s0, a).nns.contains(x)
    ensures t_iter(v, i, c, qv, s0, b).nns.contains(x)
    decreases b
{
    if a < b {
        lemma_iter_keeps(v, i, c, qv, s0, a, (b - 1) as nat, x);
        lemma_step_keeps(v, i, c, qv, t_iter(v, i, c, qv, s0, (b - 1) as nat), x);
    }
}
/// a larger budget stops the same traversal later (or at the same pass)
pub proof fn lemma_stops_later(v: DbView, i: u16, c: Option<&RoaringBitmap>, qv: VecV, s0: TSt, k1: usize, k2: usize, j1: nat, j2: nat)
    requires k1 <= k2, t_stops(v, i, c, qv, s0, k1, j1), t_stops(v, i, c, qv, s0, k2, j2)
    ensures j1 <= j2
{
    if j2 < j1 {
        assert(t_running(t_iter(v, i, c, qv, s0, j2), k1));
        assert(t_running(t_iter(v, i, c, qv, s0, j2), k2));
    }
}
/// r + 1 different positions do not fit below r
pub proof fn lemma_pigeon(f: Seq<int>, r: int)
    requires f.len() == r + 1, r >= 0, forall|a: int| #![trigger f[a]] 0 <= a <= r ==> (0 <= f[a] && f[a] < r), forall|a: int, b: int| #![trigger f[a], f[b]] 0 <= a < b <= r ==> f[a] != f[b]
    ensures false
    decreases r
{
    if r == 0 { let z = f[0]; assert(0 <= z); assert(z < 0); }
    else {
        // remove the entry that maps to r - 1 (if any) and renumber: r different positions below r - 1
        let hit = exists|a: int| 0 <= a <= r && f[a] == r - 1;
        if hit {
            let a0 = choose|a: int| 0 <= a <= r && f[a] == r - 1;
            let g = Seq::new(r as nat, |a: int| if a < a0 { f[a] } else { f[a + 1] });
            assert forall|a: int| #![trigger g[a]] 0 <= a <= r - 1 implies (0 <= g[a] && g[a] < r - 1) by { if a < a0 { assert(f[a] != f[a0]); } else { assert(f[a + 1] != f[a0]); } }
            assert forall|a: int, b: int| #![trigger g[a], g[b]] 0 <= a < b <= r - 1 implies g[a] != g[b] by {
                let fa = if a < a0 { a } else { a + 1 }; let fb = if b < a0 { b } else { b + 1 };
                assert(fa < fb); assert(f[fa] != f[fb]);
            }
            lemma_pigeon(g, r - 1);
        } else {
            let g = f.take(r);
            assert forall|a: int| #![trigger g[a]] 0 <= a <= r - 1 implies (0 <= g[a] && g[a] < r - 1) by { assert(f[a] != r - 1); }
            assert forall|a: int, b: int| #![trigger g[a], g[b]] 0 <= a < b <= r - 1 implies g[a] != g[b] by { assert(f[a] != f[b]); }
            lemma_pigeon(g, r - 1);
        }
    }
}
/// selecting the `count` nearest from a larger candidate set: not shorter, no rank worse
pub proof fn lemma_rank(v: DbView, i: u16, q: LeafV, count: usize, c1: Seq<u32>, c2: Seq<u32>, out1: Seq<(ItemId, f32)>, out2: Seq<(ItemId, f32)>)
    requires
        forall|x: u32| c1.contains(x) ==> c2.contains(x),
        top_of(v, i, q, count, c1, out1), top_of(v, i, q, count, c2, out2),
        out_sorted(v, i, q, out1), out_sorted(v, i, q, out2), out1.len() <= count, out2.len() <= count,
    ensures
        out2.len() >= out1.len(),
        forall|r: int| 0 <= r < out1.len() ==> pair_le(okey(v, i, q, #[trigger] out2[r]), okey(v, i, q, out1[r])),
{
    // position in out2 of each element of out1 that out2 holds
    assert forall|r: int| 0 <= r < out1.len() implies r < out2.len() && pair_le(okey(v, i, q, #[trigger] out2[r]), okey(v, i, q, out1[r])) by {
        if !(r < out2.len() && pair_le(okey(v, i, q, out2[r]), okey(v, i, q, out1[r]))) {
            // every out1[a], a <= r, sits in out2 at a position below r
            let pos = |a: int| choose|p: int| 0 <= p < out2.len() && out2[p].0 == out1[a].0;
            assert forall|a: int| #![trigger pos(a)] 0 <= a <= r implies 0 <= pos(a) && pos(a) < r && out2[pos(a)].0 == out1[a].0 by {
                let x = out1[a].0;
                assert(c1.contains(x)); assert(c2.contains(x));
                assert(exact_at_exit(v, i, q, count, out2, x));
                if a < r { assert(pair_le(okey(v, i, q, out1[a]), okey(v, i, q, out1[r]))); }
                if r < out2.len() {
                    // out2[r] is strictly farther than out1[r], hence than out1[a]: x cannot be "not nearer than every returned one"
                    assert(!pair_le(okey(v, i, q, out2[r]), okey(v, i, q, out1[r])));
                    assert(!pair_le(okey(v, i, q, out2[r]), (Dist::built_spec(q, leafv(v, i, x)), x)));
                    assert(exists|p: int| 0 <= p < out2.len() && out2[p].0 == x);
                    let p = pos(a);
                    assert(okey(v, i, q, out2[p]) == okey(v, i, q, out1[a]));
                    if p >= r { if p > r { assert(pair_le(okey(v, i, q, out2[r]), okey(v, i, q, out2[p]))); } }
                } else {
                    // out2 is shorter than r + 1 <= count: it is not full, so it holds every candidate
                    assert(out2.len() < count);
                    assert(exists|p: int| 0 <= p < out2.len() && out2[p].0 == x);
                }
            }
            let f = Seq::new((r + 1) as nat, |a: int| pos(a));
            assert forall|a: int, b: int| #![trigger f[a], f[b]] 0 <= a < b <= r implies f[a] != f[b] by { assert(out1[a].0 != out1[b].0); assert(out2[pos(a)].0 == out1[a].0 && out2[pos(b)].0 == out1[b].0); }
            lemma_pigeon(f, r);
        }
    }
    if out1.len() > 0 { let r = out1.len() - 1; assert(pair_le(okey(v, i, q, out2[r]), okey(v, i, q, out1[r]))); }
}
/// C03: for the same index, query, filter and count, the results under budgets k1 <= k2 (as described by the contract of nns_by_leaf)
pub proof fn lemma_budget_monotone(v: DbView, i: u16, c: Option<&RoaringBitmap>, qv: VecV, q: LeafV, roots: Seq<u32>, count: usize,
                                   k1: usize, k2: usize, j1: nat, j2: nat, out1: Seq<(ItemId, f32)>, out2: Seq<(ItemId, f32)>)
    requires
        k1 <= k2,
        t_stops(v, i, c, qv, t_init(roots), k1, j1), top_of(v, i, q, count, t_iter(v, i, c, qv, t_init(roots), j1).nns, out1),
        t_stops(v, i, c, qv, t_init(roots), k2, j2), top_of(v, i, q, count, t_iter(v, i, c, qv, t_init(roots), j2).nns, out2),
        out_sorted(v, i, q, out1), out_sorted(v, i, q, out2), out1.len() <= count, out2.len() <= count,
    ensures
        out2.len() >= out1.len(),
        forall|r: int| 0 <= r < out1.len() ==> pair_le(okey(v, i, q, #[trigger] out2[r]), okey(v, i, q, out1[r])),
{
    let s0 = t_init(roots);
    lemma_stops_later(v, i, c, qv, s0, k1, k2, j1, j2);
    let c1 = t_iter(v, i, c, qv, s0, j1).nns; let c2 = t_iter(v, i, c, qv, s0, j2).nns;
    assert forall|x: u32| c1.contains(x) implies c2.contains(x) by { lemma_iter_keeps(v, i, c, qv, s0, j1, j2, x); }
    lemma_rank(v, i, q, count, c1, c2, out1, out2);
}
