// ---- C03 (budget monotonicity): the traversal of nns_by_leaf as a function of the database, the query and the filter -------------------
// The queue is a deterministic structure (reader_types.rs: `pop_of`), so the state after n expansions does not depend on the
// budget; the budget only decides where the traversal stops.
pub open spec fn leafv(v: DbView, i: u16, id: u32) -> LeafV { v[ikey(i, id)]->Leaf_0 }
pub open spec fn in_filter(c: Option<&RoaringBitmap>, id: u32) -> bool { match c { Some(b) => b@.contains(id), None => true } }
/// item x is either returned or at least as far (in (distance, id) order) as every returned item, the result being full
pub open spec fn exact_at_exit(v: DbView, i: u16, q: LeafV, count: usize, out: Seq<(ItemId, f32)>, x: u32) -> bool {
    (exists|k: int| 0 <= k < out.len() && out[k].0 == x)
    || (out.len() == count && forall|k: int| 0 <= k < out.len() ==> pair_le((Dist::built_spec(q, leafv(v, i, (#[trigger] out[k]).0)), out[k].0), (Dist::built_spec(q, leafv(v, i, x)), x)))
}
pub struct TSt { pub hist: Seq<HOp>, pub nns: Seq<u32> }
pub open spec fn filt(c: Option<&RoaringBitmap>, s: Set<u32>) -> Set<u32> { match c { Some(b) => s.intersect(b@), None => s } }
/// one pass of the traversal loop on state `s` (identity when the queue is empty or the node is missing: the code stops there)
pub open spec fn t_step(v: DbView, i: u16, c: Option<&RoaringBitmap>, qv: VecV, s: TSt) -> TSt {
    match pop_of(s.hist) {
        None => s,
        Some(e) => {
            let d = e.0.0; let item = e.1;
            let h1 = s.hist.push(HOp::Pop);
            let k = akey(i, item.mode, item.item);
            if !v.contains_key(k) { s } else { match v[k] {
                AVal::Leaf(_) => TSt { hist: h1, nns: if in_filter(c, item.item) { s.nns.push(item.item) } else { s.nns } },
                AVal::Tree(TNode::Desc(b)) => TSt { hist: h1, nns: s.nns + bm_seq(filt(c, b)) },
                AVal::Tree(TNode::Split(l, r, nrm)) => TSt {
                    hist: h1.push(HOp::Push((OrderedFloat(Dist::pq_spec(d, Dist::margin_spec(nrm, qv), true)), l)))
                            .push(HOp::Push((OrderedFloat(Dist::pq_spec(d, Dist::margin_spec(nrm, qv), false)), r))),
                    nns: s.nns },
                _ => s,
            } }
        }
    }
}
pub open spec fn t_iter(v: DbView, i: u16, c: Option<&RoaringBitmap>, qv: VecV, s0: TSt, n: nat) -> TSt
    decreases n
{
    if n == 0 { s0 } else { t_step(v, i, c, qv, t_iter(v, i, c, qv, s0, (n - 1) as nat)) }
}
/// the loop goes on from state `s` under budget `k`
pub open spec fn t_running(s: TSt, k: usize) -> bool { s.nns.len() < k && pop_of(s.hist) is Some }
/// under budget `k` the traversal stops after exactly `j` passes
pub open spec fn t_stops(v: DbView, i: u16, c: Option<&RoaringBitmap>, qv: VecV, s0: TSt, k: usize, j: nat) -> bool {
    (forall|a: nat| a < j ==> t_running(#[trigger] t_iter(v, i, c, qv, s0, a), k)) && !t_running(t_iter(v, i, c, qv, s0, j), k)
}
/// the state the traversal starts from
pub open spec fn t_init(roots: Seq<u32>) -> TSt { TSt { hist: seq![HOp::New].push(HOp::Roots(OrderedFloat(f32_inf_spec()), roots)), nns: Seq::<u32>::empty() } }
/// the search budget computed from the query options (C03: unset = count x trees x default oversampling, all saturating)
pub open spec fn budget(opt: &QueryBuilder, n_roots: usize) -> usize {
    sat_mul(match opt.search_k { Some(k) => k.v, None => sat_mul(opt.count, n_roots) }, match opt.oversampling { Some(o) => o.v, None => Dist::default_oversampling() })
}
/// `out` is the selection of the `count` nearest among the candidates `cand` (with the order and distinctness clauses of the contract)
pub open spec fn top_of(v: DbView, i: u16, q: LeafV, count: usize, cand: Seq<u32>, out: Seq<(ItemId, f32)>) -> bool {
    &&& (forall|k: int| 0 <= k < out.len() ==> cand.contains((#[trigger] out[k]).0))
    &&& (forall|x: u32| cand.contains(x) ==> exact_at_exit(v, i, q, count, out, x))
}
