// ---- forest specification library (ghost only; DESIGN.md §3.2) -------------------------------------------
// Tree nodes of one index as a map id -> TNode; a subtree is identified by a NodeId (Tree id | Item id).
pub type TM = IMap<u32, TNode>;

pub open spec fn tmap(v: DbView, i: u16) -> TM {
    IMap::new(|id: u32| v.contains_key(tkey(i, id)) && v[tkey(i, id)] is Tree, |id: u32| v[tkey(i, id)]->Tree_0)
}
pub open spec fn child_ok(n: NodeId) -> bool { n.mode == NodeMode::Tree || n.mode == NodeMode::Item }
pub open spec fn tn(x: u32) -> NodeId { NodeId { mode: NodeMode::Tree, item: x } }
pub open spec fn itn(x: u32) -> NodeId { NodeId { mode: NodeMode::Item, item: x } }

pub open spec fn items(m: TM, n: NodeId, f: nat) -> Set<u32>
    decreases f
{
    if n.mode == NodeMode::Item { set![n.item] }
    else if !m.contains_key(n.item) { Set::empty() }
    else { match m[n.item] {
        TNode::Desc(s) => s,
        TNode::Split(l, r, _) => if f > 0 { items(m, l, (f - 1) as nat).union(items(m, r, (f - 1) as nat)) } else { Set::empty() },
    } }
}
pub open spec fn nodes(m: TM, n: NodeId, f: nat) -> Set<u32>
    decreases f
{
    if n.mode != NodeMode::Tree || !m.contains_key(n.item) { Set::empty() }
    else { match m[n.item] {
        TNode::Desc(_) => set![n.item],
        TNode::Split(l, r, _) => if f > 0 { nodes(m, l, (f - 1) as nat).union(nodes(m, r, (f - 1) as nat)).insert(n.item) } else { set![n.item] },
    } }
}
/// well-formed subtree of height <= f: every referenced node exists, children are Tree|Item references,
/// no item and no tree node is reachable twice
pub open spec fn wf(m: TM, n: NodeId, f: nat) -> bool
    decreases f
{
    child_ok(n) && (n.mode == NodeMode::Tree ==> (
        m.contains_key(n.item) && n.item != u32::MAX && match m[n.item] {
            TNode::Desc(_) => true,
            TNode::Split(l, r, _) => f > 0 && wf(m, l, (f - 1) as nat) && wf(m, r, (f - 1) as nat)
                && items(m, l, (f - 1) as nat).disjoint(items(m, r, (f - 1) as nat))
                && nodes(m, l, (f - 1) as nat).disjoint(nodes(m, r, (f - 1) as nat))
                && !nodes(m, l, (f - 1) as nat).contains(n.item) && !nodes(m, r, (f - 1) as nat).contains(n.item),
        }))
}
/// an oversized bucket
pub open spec fn over_cap(t: TNode, cap: u64) -> bool { t matches TNode::Desc(b) && b.len() > cap }
pub open spec fn tree(m: TM, n: NodeId) -> bool { exists|f: nat| wf(m, n, f) }
pub open spec fn ht(m: TM, n: NodeId) -> nat { choose|f: nat| wf(m, n, f) }
pub open spec fn titems(m: TM, n: NodeId) -> Set<u32> { items(m, n, ht(m, n)) }
pub open spec fn tnodes(m: TM, n: NodeId) -> Set<u32> { nodes(m, n, ht(m, n)) }

pub proof fn lemma_mono(m: TM, n: NodeId, f: nat, g: nat)
    requires wf(m, n, f), f <= g
    ensures wf(m, n, g), items(m, n, f) == items(m, n, g), nodes(m, n, f) == nodes(m, n, g)
    decreases f
{
    if n.mode == NodeMode::Tree {
        match m[n.item] {
            TNode::Desc(_) => {},
            TNode::Split(l, r, _) => {
                lemma_mono(m, l, (f - 1) as nat, (g - 1) as nat);
                lemma_mono(m, r, (f - 1) as nat, (g - 1) as nat);
            }
        }
    }
}
/// any fuel that makes the subtree well formed gives the fuel-free sets
pub proof fn lemma_any_fuel(m: TM, n: NodeId, f: nat)
    requires wf(m, n, f)
    ensures tree(m, n), titems(m, n) == items(m, n, f), tnodes(m, n) == nodes(m, n, f)
{
    let h = ht(m, n);
    if h <= f { lemma_mono(m, n, h, f); } else { lemma_mono(m, n, f, h); }
}

pub proof fn lemma_unfold(m: TM, x: u32)
    requires tree(m, tn(x))
    ensures
        m.contains_key(x), x != u32::MAX,
        match m[x] {
            TNode::Desc(s) => titems(m, tn(x)) == s && tnodes(m, tn(x)) == set![x],
            TNode::Split(l, r, _) => tree(m, l) && tree(m, r) && child_ok(l) && child_ok(r)
                && titems(m, tn(x)) == titems(m, l).union(titems(m, r))
                && tnodes(m, tn(x)) == tnodes(m, l).union(tnodes(m, r)).insert(x)
                && titems(m, l).disjoint(titems(m, r)) && tnodes(m, l).disjoint(tnodes(m, r))
                && !tnodes(m, l).contains(x) && !tnodes(m, r).contains(x),
        }
{
    let id = tn(x);
    let f = ht(m, id);
    assert(wf(m, id, f));
    match m[x] {
        TNode::Desc(s) => {},
        TNode::Split(l, r, _) => {
            let f1 = (f - 1) as nat;
            lemma_any_fuel(m, l, f1);
            lemma_any_fuel(m, r, f1);
        }
    }
}
pub proof fn lemma_item(m: TM, x: u32)
    ensures tree(m, itn(x)), titems(m, itn(x)) == set![x], tnodes(m, itn(x)) == Set::<u32>::empty()
{
    assert(wf(m, itn(x), 0));
    lemma_any_fuel(m, itn(x), 0);
}
pub proof fn lemma_fold_desc(m: TM, x: u32)
    requires m.contains_key(x), m[x] is Desc, x != u32::MAX
    ensures tree(m, tn(x)), titems(m, tn(x)) == m[x]->Desc_0, tnodes(m, tn(x)) == set![x]
{
    assert(wf(m, tn(x), 0));
    lemma_any_fuel(m, tn(x), 0);
}
pub proof fn lemma_fold_split(m: TM, x: u32)
    requires
        m.contains_key(x), x != u32::MAX, m[x] is Split,
        tree(m, m[x]->Split_0), tree(m, m[x]->Split_1),
        titems(m, m[x]->Split_0).disjoint(titems(m, m[x]->Split_1)),
        tnodes(m, m[x]->Split_0).disjoint(tnodes(m, m[x]->Split_1)),
        !tnodes(m, m[x]->Split_0).contains(x), !tnodes(m, m[x]->Split_1).contains(x),
    ensures
        tree(m, tn(x)),
        titems(m, tn(x)) == titems(m, m[x]->Split_0).union(titems(m, m[x]->Split_1)),
        tnodes(m, tn(x)) == tnodes(m, m[x]->Split_0).union(tnodes(m, m[x]->Split_1)).insert(x),
{
    let l = m[x]->Split_0; let r = m[x]->Split_1;
    let hl = ht(m, l); let hr = ht(m, r);
    let h = if hl <= hr { hr } else { hl };
    lemma_mono(m, l, hl, h); lemma_mono(m, r, hr, h);
    assert(child_ok(l) && child_ok(r)) by { assert(wf(m, l, hl)); assert(wf(m, r, hr)); }
    assert(wf(m, tn(x), h + 1));
    lemma_any_fuel(m, tn(x), h + 1);
}
/// frame: a subtree only depends on its own nodes
pub proof fn lemma_frame_f(m: TM, m2: TM, n: NodeId, f: nat)
    requires wf(m, n, f), forall|id: u32| #[trigger] nodes(m, n, f).contains(id) ==> m2.contains_key(id) && m2[id] == m[id]
    ensures wf(m2, n, f), items(m2, n, f) == items(m, n, f), nodes(m2, n, f) == nodes(m, n, f)
    decreases f
{
    if n.mode == NodeMode::Tree {
        assert(nodes(m, n, f).contains(n.item));
        match m[n.item] {
            TNode::Desc(_) => {},
            TNode::Split(l, r, _) => {
                let f1 = (f - 1) as nat;
                assert forall|id: u32| #[trigger] nodes(m, l, f1).contains(id) implies m2.contains_key(id) && m2[id] == m[id] by { assert(nodes(m, n, f).contains(id)); }
                assert forall|id: u32| #[trigger] nodes(m, r, f1).contains(id) implies m2.contains_key(id) && m2[id] == m[id] by { assert(nodes(m, n, f).contains(id)); }
                lemma_frame_f(m, m2, l, f1);
                lemma_frame_f(m, m2, r, f1);
            }
        }
    }
}
pub proof fn lemma_frame(m: TM, m2: TM, n: NodeId)
    requires tree(m, n), forall|id: u32| #[trigger] tnodes(m, n).contains(id) ==> m2.contains_key(id) && m2[id] == m[id]
    ensures tree(m2, n), titems(m2, n) == titems(m, n), tnodes(m2, n) == tnodes(m, n)
{
    let f = ht(m, n);
    assert(wf(m, n, f));
    assert(tnodes(m, n) == nodes(m, n, f));
    lemma_frame_f(m, m2, n, f);
    lemma_any_fuel(m2, n, f);
}
/// every node of a well-formed subtree exists in the map and is not u32::MAX
pub proof fn lemma_nodes_exist_f(m: TM, n: NodeId, f: nat)
    requires wf(m, n, f)
    ensures forall|id: u32| #[trigger] nodes(m, n, f).contains(id) ==> m.contains_key(id) && id != u32::MAX
    decreases f
{
    if n.mode == NodeMode::Tree {
        match m[n.item] {
            TNode::Desc(_) => {},
            TNode::Split(l, r, _) => { lemma_nodes_exist_f(m, l, (f - 1) as nat); lemma_nodes_exist_f(m, r, (f - 1) as nat); }
        }
    }
}
pub proof fn lemma_nodes_exist(m: TM, n: NodeId)
    requires tree(m, n)
    ensures forall|id: u32| #[trigger] tnodes(m, n).contains(id) ==> m.contains_key(id) && id != u32::MAX
{
    assert(wf(m, n, ht(m, n)));
    lemma_nodes_exist_f(m, n, ht(m, n));
}

// ---- staged tree edits (TmpNodes) ---------------------------------------------------------------------------
pub struct TmpV { pub puts: IMap<u32, TNode>, pub deleted: Set<u32> }
/// the tree map after the staged edits are written back: deleted ids are removed (and their puts dropped), puts overwrite
pub open spec fn apply(m: TM, t: TmpV) -> TM {
    IMap::new(|id: u32| !t.deleted.contains(id) && (t.puts.contains_key(id) || m.contains_key(id)),
              |id: u32| if t.puts.contains_key(id) { t.puts[id] } else { m[id] })
}
pub open spec fn tnode_of(n: Node) -> TNode {
    match n {
        Node::Leaf(_) => TNode::Desc(Set::empty()),
        Node::Descendants(d) => TNode::Desc(d.descendants@),
        Node::SplitPlaneNormal(s) => TNode::Split(s.left, s.right, s.normal.vv()),
    }
}
/// `t1` differs from `t0` only on ids in `s`
pub open spec fn tmp_same_outside(t0: TmpV, t1: TmpV, s: Set<u32>) -> bool {
    forall|x: u32| #![trigger s.contains(x)] #![trigger t1.puts.contains_key(x)] #![trigger t1.deleted.contains(x)] !s.contains(x) ==> (t1.puts.contains_key(x) == t0.puts.contains_key(x)
        && (t1.puts.contains_key(x) ==> t1.puts[x] == t0.puts[x]) && t1.deleted.contains(x) == t0.deleted.contains(x))
}
pub open spec fn tmp_untouched(t: TmpV, s: Set<u32>) -> bool {
    forall|x: u32| #![trigger s.contains(x)] #![trigger t.puts.contains_key(x)] #![trigger t.deleted.contains(x)] s.contains(x) ==> !t.puts.contains_key(x) && !t.deleted.contains(x)
}

/// the view a staging area is created under (rule R14): the transaction in scope, or the frozen tree view of the pass
pub trait FreshCtx { spec fn has_tree(&self, i: u16, id: u32) -> bool; }
impl FreshCtx for Txn { open spec fn has_tree(&self, i: u16, id: u32) -> bool { self.view().contains_key(tkey(i, id)) } }
/// Stand-in for parallel.rs::TmpNodes (ASSUMED contract, drift-guarded): a staging area of puts and removals
#[verifier::external_body]
pub struct TmpNodes { x: u8 }
impl TmpNodes {
    pub uninterp spec fn tv(&self) -> TmpV;
    /// ghost: ids handed out by the id generator while this staging area was in scope (rule R12)
    pub uninterp spec fn allocated(&self) -> Set<u32>;
    /// ghost: the id remapping applied when the puts are written back (TmpNodes::remap)
    pub uninterp spec fn rm(&self) -> Map<u32, u32>;
    /// ghost (rule R14): per index, tree ids that the id generator will not hand to this staging area: at least the tree keys of
    /// the database when the staging area was created (assumption A5, see ConcurrentNodeIds::covers)
    pub uninterp spec fn taken(&self) -> spec_fn(u16) -> Set<u32>;
    #[verifier::external_body]
    pub fn new_g_<C: FreshCtx>(ctx: &C) -> (r: heed::Result<TmpNodes>)
        ensures r matches Ok(t) ==> t.tv().puts == IMap::<u32, TNode>::empty() && t.tv().deleted == Set::<u32>::empty() && t.rm() == Map::<u32, u32>::empty() && t.allocated() == Set::<u32>::empty()
                && (forall|i: u16, id: u32| #![trigger ctx.has_tree(i, id)] ctx.has_tree(i, id) ==> (t.taken())(i).contains(id)),
            r matches Err(e) ==> e is Io || e is Heed
    { unimplemented!() }
    #[verifier::external_body]
    pub fn new_in_g_<C: FreshCtx>(path: &PathBuf, ctx: &C) -> (r: heed::Result<TmpNodes>)
        ensures r matches Ok(t) ==> t.tv().puts == IMap::<u32, TNode>::empty() && t.tv().deleted == Set::<u32>::empty() && t.rm() == Map::<u32, u32>::empty() && t.allocated() == Set::<u32>::empty()
                && (forall|i: u16, id: u32| #![trigger ctx.has_tree(i, id)] ctx.has_tree(i, id) ==> (t.taken())(i).contains(id)),
            r matches Err(e) ==> e is Io || e is Heed
    { unimplemented!() }
    /// the real `put` asserts item != ItemId::MAX
    /// representation invariant of the concrete structure (unit tmp_nodes); nothing to say at this level of abstraction.
    /// The contracts of put / remap / remove below are the shared files that unit `tmp_nodes` PROVES on the real bodies.
    pub open spec fn wf(&self) -> bool { true }
    #[verifier::external_body]
    pub fn put(&mut self, item: ItemId, data: &Node) -> (r: heed::Result<()>)
//@paste lib/contracts/tmpnodes_put.spec
    { unimplemented!() }
    /// the put made under `current` is written back under `new`
    #[verifier::external_body]
    pub fn remap(&mut self, current: ItemId, new: ItemId)
//@paste lib/contracts/tmpnodes_remap.spec
    { unimplemented!() }
    #[verifier::external_body]
    pub fn remove(&mut self, item: ItemId)
//@paste lib/contracts/tmpnodes_remove.spec
    { unimplemented!() }
}
