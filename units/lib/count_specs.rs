/// the f64 hysteresis test of target_n_trees is an uninterpreted boolean (floating point is not decided)
pub uninterp spec fn ratio_small(a: u64, b: u64) -> bool;
/// the automatic number of trees
pub open spec fn auto_trees(n: u64, d: u64) -> u64 {
    let q = (n as int) / ((n as int) / (d as int) + 1);
    if q < 1 { 1u64 } else { q as u64 }
}
