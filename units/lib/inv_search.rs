// ---- from the build contract to the search precondition ------------------------------------------------------------------------
/// C01 -> C02/C03: the forest a successful build records is what the search contract requires (Reader::open copies
/// roots and items from the metadata: unit reader_open)
pub proof fn lemma_built_searchable(v0: DbView, v1: DbView, i: u16, cap: u64, dims: u32, nt: Option<usize>)
    requires built(v0, v1, i, cap, dims, nt), nt matches Some(n) ==> n >= 1,
    ensures search_forest_ok(v1, i, v1[mkey(i)]->Meta_0.roots, v1[mkey(i)]->Meta_0.items)
{
}
