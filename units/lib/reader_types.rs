// ---- stand-ins used by the reader (ordered-float, std collections) -------------------------------
#[derive(Copy, Clone)]
pub struct NonZeroUsize { pub v: usize }
impl NonZeroUsize {
    pub fn new(n: usize) -> (r: Option<NonZeroUsize>) ensures match r { Some(z) => n != 0 && z.v == n, None => n == 0 } { if n == 0 { None } else { Some(NonZeroUsize { v: n }) } }
    /// a NonZeroUsize is never 0 (type invariant of std, assumed)
    #[verifier::external_body]
    pub fn get(self) -> (r: usize) ensures r == self.v, r >= 1 { unimplemented!() }
}
pub struct QueryBuilder<'a> { pub reader: &'a Reader, pub count: usize, pub search_k: Option<NonZeroUsize>, pub oversampling: Option<NonZeroUsize>, pub candidates: Option<&'a RoaringBitmap> }

#[derive(Copy, Clone)]
pub struct OrderedFloat(pub f32);
#[derive(Copy, Clone)]
pub struct Reverse<T>(pub T);
#[derive(Copy, Clone)]
pub enum Side { Left, Right }

/// OrderedFloat's total order on f32 as an order-embedding into the integers (NaN greatest): uninterpreted
pub uninterp spec fn fkey(x: f32) -> int;
/// order of (OrderedFloat, id) pairs: lexicographic
pub open spec fn pair_le(a: (f32, u32), b: (f32, u32)) -> bool { fkey(a.0) < fkey(b.0) || (fkey(a.0) == fkey(b.0) && a.1 <= b.1) }

pub assume_specification[u64::ilog2](x: u64) -> (r: u32) requires x > 0 ensures r <= 63;
pub uninterp spec fn f32_inf_spec() -> f32;
#[verifier::external_body]
pub fn f32_infinity_() -> (r: f32) ensures r == f32_inf_spec() { unimplemented!() }

pub open spec fn sat_mul(a: usize, b: usize) -> usize { if a * b > usize::MAX { usize::MAX } else { (a * b) as usize } }

// metric operations used by the reader: uninterpreted floats
impl Dist {
    pub uninterp spec fn margin_spec(n: VecV, q: VecV) -> f32;
    pub uninterp spec fn pq_spec(d: f32, m: f32, left: bool) -> f32;
    pub uninterp spec fn built_spec(q: LeafV, p: LeafV) -> f32;
    pub uninterp spec fn normalized_spec(d: f32, dims: usize) -> f32;
    #[verifier::external_body]
    pub fn margin_no_header(p: &UVec, q: &UVec) -> (r: f32) ensures r == Dist::margin_spec(p.vv(), q.vv()) { unimplemented!() }
    #[verifier::external_body]
    pub fn pq_distance(distance: f32, margin: f32, side: Side) -> (r: f32) ensures r == Dist::pq_spec(distance, margin, side is Left) { unimplemented!() }
    #[verifier::external_body]
    pub fn built_distance(p: &Leaf, q: &Leaf) -> (r: f32) ensures r == Dist::built_spec(p.lv(), q.lv()) { unimplemented!() }
    #[verifier::external_body]
    pub fn normalized_distance(d: f32, dimensions: usize) -> (r: f32) ensures r == Dist::normalized_spec(d, dimensions) { unimplemented!() }
    #[verifier::external_body]
    pub fn default_oversampling_() -> (r: usize) ensures r == Dist::default_oversampling() { unimplemented!() }
}
impl Leaf { pub open spec fn lv(&self) -> LeafV { LeafV { header: self.header.hv(), vector: self.vector.vv() } } }

/// max-heap of (priority, node): only what the traversal needs (pop returns an element; order irrelevant for well-formedness)
#[verifier::external_body]
pub struct NodeQueue { x: u8 }
impl NodeQueue {
    pub uninterp spec fn view(&self) -> Multiset<(f32, NodeId)>;
}
#[verifier::external_body]
#[verifier::reject_recursive_types(T)]
pub struct BinaryHeap<T> { x: Vec<T> }
impl<T> BinaryHeap<T> { pub uninterp spec fn view(&self) -> Multiset<T>; }
/// the operations applied to the traversal queue, in order. A `BinaryHeap` is a deterministic data structure: what `pop` returns
/// is a function of the operations applied so far (`pop_of`, uninterpreted; the multiset facts below say it is an element of the
/// heap). This is what makes the traversal a function of the database and the query, independent of the budget (C03 monotonicity).
pub enum HOp { New, Roots(OrderedFloat, Seq<u32>), Push((OrderedFloat, NodeId)), Pop }
pub uninterp spec fn pop_of(h: Seq<HOp>) -> Option<(OrderedFloat, NodeId)>;
impl BinaryHeap<(OrderedFloat, NodeId)> {
    pub uninterp spec fn hist(&self) -> Seq<HOp>;
    #[verifier::external_body]
    pub fn with_capacity(n: usize) -> (r: Self) ensures r.view() == Multiset::<(OrderedFloat, NodeId)>::empty(), r.hist() == seq![HOp::New] { unimplemented!() }
    #[verifier::external_body]
    pub fn push(&mut self, x: (OrderedFloat, NodeId)) ensures final(self).view() == old(self).view().insert(x), final(self).hist() == old(self).hist().push(HOp::Push(x)) { unimplemented!() }
    /// pop returns a maximum w.r.t. (OrderedFloat, NodeId); only membership is specified here, plus determinism (`pop_of`)
    #[verifier::external_body]
    pub fn pop(&mut self) -> (r: Option<(OrderedFloat, NodeId)>)
        ensures r == pop_of(old(self).hist()),
            match r { Some(x) => old(self).view().count(x) > 0 && final(self).view() == old(self).view().remove(x) && final(self).hist() == old(self).hist().push(HOp::Pop),
                      None => old(self).view().len() == 0 && final(self).view() == old(self).view() && final(self).hist() == old(self).hist() }
    { unimplemented!() }
    /// rule R7 target for `queue.extend(repeat(p).zip(roots.iter().map(NodeId::tree)))`
    #[verifier::external_body]
    pub fn extend_roots_(&mut self, p: OrderedFloat, roots: &ItemIds)
        ensures forall|x: (OrderedFloat, NodeId)| final(self).view().count(x) > 0 ==> (old(self).view().count(x) > 0 || (x.1.mode == NodeMode::Tree && roots@.contains(x.1.item))),
            forall|k: int| 0 <= k < roots@.len() ==> final(self).view().count((p, NodeId { mode: NodeMode::Tree, item: #[trigger] roots@[k] })) > 0,
            final(self).hist() == old(self).hist().push(HOp::Roots(p, roots@)),
    { unimplemented!() }
}
impl BinaryHeap<Reverse<(OrderedFloat, ItemId)>> {
    #[verifier::external_body]
    pub fn from(v: Vec<Reverse<(OrderedFloat, ItemId)>>) -> (r: Self)
        ensures r.view() == v@.to_multiset(), r.view().len() == v@.len(),
            // consequences of to_multiset, stated for convenience
            forall|e: Reverse<(OrderedFloat, ItemId)>| r.view().count(e) > 0 ==> v@.contains(e),
            forall|i: int| 0 <= i < v@.len() ==> r.view().count(#[trigger] v@[i]) > 0,
            (forall|i: int, j: int| 0 <= i < j < v@.len() ==> v@[i] != v@[j]) ==> (forall|e: Reverse<(OrderedFloat, ItemId)>| r.view().count(e) <= 1),
    { unimplemented!() }
    #[verifier::external_body]
    pub fn len(&self) -> (r: usize) ensures r == self.view().len() { unimplemented!() }
    /// min-heap through Reverse: pop returns a minimum of (distance, id)
    #[verifier::external_body]
    pub fn pop(&mut self) -> (r: Option<Reverse<(OrderedFloat, ItemId)>>)
        ensures match r {
            Some(x) => old(self).view().count(x) > 0 && final(self).view() == old(self).view().remove(x) && old(self).view() == final(self).view().insert(x)
                && (forall|y: Reverse<(OrderedFloat, ItemId)>| old(self).view().count(y) > 0 ==> pair_le(((x.0).0.0, (x.0).1), ((y.0).0.0, (y.0).1))),
            None => old(self).view().len() == 0 && final(self).view() == old(self).view() && (forall|y: Reverse<(OrderedFloat, ItemId)>| old(self).view().count(y) == 0) }
    { unimplemented!() }
}
/// rule R7 targets for Vec<u32> helpers
#[verifier::external_body]
pub fn sort_unstable_(v: &mut Vec<u32>)
    ensures forall|x: u32| final(v)@.contains(x) <==> old(v)@.contains(x), final(v)@.len() == old(v)@.len(), forall|i: int, j: int| 0 <= i < j < final(v)@.len() ==> final(v)@[i] <= final(v)@[j]
{ unimplemented!() }
/// dedup removes consecutive duplicates: on a sorted vector the result is strictly increasing with the same set
#[verifier::external_body]
pub fn dedup_(v: &mut Vec<u32>)
    ensures forall|x: u32| final(v)@.contains(x) <==> old(v)@.contains(x), final(v)@.len() <= old(v)@.len(),
        (forall|i: int, j: int| 0 <= i < j < old(v)@.len() ==> old(v)@[i] <= old(v)@[j]) ==> (forall|i: int, j: int| 0 <= i < j < final(v)@.len() ==> final(v)@[i] < final(v)@[j])
{ unimplemented!() }
#[verifier::external_body]
pub fn extend_from_bitmap_(v: &mut Vec<u32>, b: &RoaringBitmap)
    ensures final(v)@.len() >= old(v)@.len(), forall|i: int| 0 <= i < old(v)@.len() ==> final(v)@[i] == old(v)@[i],
        forall|i: int| old(v)@.len() <= i < final(v)@.len() ==> b@.contains(#[trigger] final(v)@[i]),
        forall|x: u32| b@.contains(x) ==> final(v)@.contains(x),
        // the members are appended in ascending order (roaring's iteration order)
        final(v)@ == old(v)@ + bm_seq(b@),
{ unimplemented!() }

/// A4: a Vec<u32> never holds usize::MAX elements (allocations are limited to isize::MAX bytes)
pub proof fn axiom_vec_len_bound(v: &Vec<u32>) ensures v@.len() < usize::MAX { admit(); }
