// ---- proof of Writer::delete_items_in_file: postcondition and one lemma per branch of the split arm --------------
/// postcondition of delete_items_in_file(n) with staged edits t0 -> t1, deleted set d, returned (id, its)
pub open spec fn del_post(m: TM, n: u32, t0: TmpV, t1: TmpV, d: Set<u32>, cap: u64, id: u32, its: Set<u32>) -> bool {
    let s = tnodes(m, tn(n));
    let m1 = apply(m, t1);
    // C01: exactly the items of the subtree that are not deleted remain
    &&& its == titems(m, tn(n)).difference(d)
    // the edits are confined to the nodes of this subtree
    &&& tmp_same_outside(t0, t1, s)
    // the returned id is the root of a well-formed subtree (after write-back) over exactly those items ...
    &&& s.contains(id)
    &&& tree(m1, tn(id)) && titems(m1, tn(id)) == its && tnodes(m1, tn(id)).subset_of(s)
    // ... every node of the old subtree that is no longer part of it is scheduled for deletion (no orphan) ...
    &&& (forall|x: u32| #![trigger s.contains(x)] s.contains(x) && !tnodes(m1, tn(id)).contains(x) ==> t1.deleted.contains(x))
    // ... and a subtree that fits one bucket IS one bucket (C15)
    &&& (its.len() <= cap ==> m1[id] is Desc)
    // C15: deleting never creates an oversized bucket
    &&& ((forall|x: u32| #![trigger s.contains(x)] s.contains(x) ==> !over_cap(m[x], cap))
            ==> (forall|x: u32| #![trigger tnodes(m1, tn(id)).contains(x)] tnodes(m1, tn(id)).contains(x) ==> !over_cap(m1[x], cap)))
}
/// what processing one child `c` of a split (staged edits ta -> tb) yields: the new child reference and its surviving items
pub open spec fn child_post(m: TM, c: NodeId, nc: NodeId, ta: TmpV, tb: TmpV, d: Set<u32>, cap: u64, its: Set<u32>) -> bool {
    if c.mode == NodeMode::Tree { nc.mode == NodeMode::Tree && del_post(m, c.item, ta, tb, d, cap, nc.item, its) }
    else { nc == c && tb == ta && its == set![c.item].difference(d) }
}
pub open spec fn rm_if_tree(t: TmpV, c: NodeId) -> TmpV {
    if c.mode == NodeMode::Tree { TmpV { puts: t.puts, deleted: t.deleted.insert(c.item) } } else { t }
}

/// facts shared by the four branches
pub proof fn lemma_del_common(m: TM, n: u32, l: NodeId, r: NodeId, nrm: VecV, t0: TmpV, tl: TmpV, tr: TmpV, d: Set<u32>, cap: u64, nl: NodeId, nr: NodeId, li: Set<u32>, ri: Set<u32>)
    requires
        tree(m, tn(n)), m[n] == TNode::Split(l, r, nrm), tmp_untouched(t0, tnodes(m, tn(n))),
        child_post(m, l, nl, t0, tl, d, cap, li), child_post(m, r, nr, tl, tr, d, cap, ri),
    ensures
        ({
            let s = tnodes(m, tn(n)); let sl = tnodes(m, l); let sr = tnodes(m, r);
            &&& tree(m, l) && tree(m, r) && child_ok(l) && child_ok(r)
            &&& s == sl.union(sr).insert(n) && sl.disjoint(sr) && !sl.contains(n) && !sr.contains(n)
            &&& titems(m, tn(n)) == titems(m, l).union(titems(m, r)) && titems(m, l).disjoint(titems(m, r))
            &&& li == titems(m, l).difference(d) && ri == titems(m, r).difference(d)
            &&& li.union(ri) == titems(m, tn(n)).difference(d)
            &&& tmp_same_outside(t0, tl, sl) && tmp_same_outside(tl, tr, sr) && tmp_same_outside(t0, tr, s)
            &&& !tr.puts.contains_key(n) && !tr.deleted.contains(n)
            &&& (l.mode == NodeMode::Item ==> sl == Set::<u32>::empty()) && (r.mode == NodeMode::Item ==> sr == Set::<u32>::empty())
            // left subtree as seen after the right child was processed
            &&& tree(apply(m, tr), nl) && ((nl.mode == NodeMode::Tree || li.len() > 0) ==> titems(apply(m, tr), nl) == li) && tnodes(apply(m, tr), nl).subset_of(sl)
            &&& tree(apply(m, tr), nr) && ((nr.mode == NodeMode::Tree || ri.len() > 0) ==> titems(apply(m, tr), nr) == ri) && tnodes(apply(m, tr), nr).subset_of(sr)
            &&& (forall|x: u32| #![trigger sl.contains(x)] sl.contains(x) && !tnodes(apply(m, tr), nl).contains(x) ==> tr.deleted.contains(x))
            &&& (forall|x: u32| #![trigger sr.contains(x)] sr.contains(x) && !tnodes(apply(m, tr), nr).contains(x) ==> tr.deleted.contains(x))
            &&& (nl.mode == NodeMode::Tree && li.len() <= cap ==> apply(m, tr)[nl.item] is Desc && tnodes(apply(m, tr), nl) == set![nl.item])
            &&& (nr.mode == NodeMode::Tree && ri.len() <= cap ==> apply(m, tr)[nr.item] is Desc && tnodes(apply(m, tr), nr) == set![nr.item])
            &&& (nl.mode == NodeMode::Tree ==> sl.contains(nl.item)) && (nr.mode == NodeMode::Tree ==> sr.contains(nr.item))
            &&& (nl.mode == NodeMode::Item ==> nl == l && li.len() <= 1) && (nr.mode == NodeMode::Item ==> nr == r && ri.len() <= 1)
        }),
{
    let s = tnodes(m, tn(n)); let sl = tnodes(m, l); let sr = tnodes(m, r);
    lemma_unfold(m, n);
    lemma_item(m, l.item); lemma_item(m, r.item);
    lemma_item(apply(m, tr), l.item); lemma_item(apply(m, tr), r.item);
    lemma_item(apply(m, tl), l.item);
    assert(s.contains(n));
    if l.mode == NodeMode::Tree { assert(l == tn(l.item)); } else { assert(l == itn(l.item)); }
    if r.mode == NodeMode::Tree { assert(r == tn(r.item)); } else { assert(r == itn(r.item)); }
    assert(li.union(ri) =~= titems(m, tn(n)).difference(d));
    // left result survives the processing of the right child (frame)
    if l.mode == NodeMode::Tree {
        let a = apply(m, tl); let b = apply(m, tr);
        lemma_nodes_exist(a, nl);
        assert(nl == tn(nl.item));
        assert forall|id: u32| #[trigger] tnodes(a, nl).contains(id) implies b.contains_key(id) && b[id] == a[id] by {
            assert(sl.contains(id)); assert(!sr.contains(id));
        }
        lemma_frame(a, b, nl);
        assert forall|x: u32| #![trigger sl.contains(x)] sl.contains(x) && !tnodes(b, nl).contains(x) implies tr.deleted.contains(x) by {
            assert(!sr.contains(x));
        }
        if li.len() <= cap {
            assert(b.contains_key(nl.item) && b[nl.item] == a[nl.item]) by { lemma_unfold(a, nl.item); assert(tnodes(a, nl).contains(nl.item)); }
            lemma_unfold(b, nl.item);
        }
    } else {
        assert(li.subset_of(set![l.item]));
        vstd::set_lib::lemma_len_subset(li, set![l.item]);
        if li.len() > 0 { assert(li =~= set![l.item]) by { let w = li.choose(); assert(li.contains(w)); } }
    }
    if r.mode == NodeMode::Tree {
        assert(nr == tn(nr.item));
        if ri.len() <= cap { lemma_unfold(apply(m, tr), nr.item); }
    } else {
        assert(ri.subset_of(set![r.item]));
        vstd::set_lib::lemma_len_subset(ri, set![r.item]);
        if ri.len() > 0 { assert(ri =~= set![r.item]) by { let w = ri.choose(); assert(ri.contains(w)); } }
    }
    assert(tmp_same_outside(t0, tr, s)) by {
        assert forall|x: u32| !s.contains(x) implies (tr.puts.contains_key(x) == t0.puts.contains_key(x)
            && (tr.puts.contains_key(x) ==> tr.puts[x] == t0.puts[x]) && tr.deleted.contains(x) == t0.deleted.contains(x)) by {
            assert(!sl.contains(x) && !sr.contains(x));
        }
    }
    assert(!sl.contains(n) && !sr.contains(n));
    assert(!t0.puts.contains_key(n) && !t0.deleted.contains(n));
}

pub open spec fn del_ctx(m: TM, n: u32, l: NodeId, r: NodeId, nrm: VecV, t0: TmpV, tl: TmpV, tr: TmpV, d: Set<u32>, cap: u64, nl: NodeId, nr: NodeId, li: Set<u32>, ri: Set<u32>) -> bool {
    &&& tree(m, tn(n)) && m[n] == TNode::Split(l, r, nrm) && tmp_untouched(t0, tnodes(m, tn(n)))
    &&& child_post(m, l, nl, t0, tl, d, cap, li) && child_post(m, r, nr, tl, tr, d, cap, ri)
    &&& cap >= 1
}

/// branch 1: the surviving items fit one bucket: both children are dropped, the node becomes a bucket
pub proof fn lemma_del_fit(m: TM, n: u32, l: NodeId, r: NodeId, nrm: VecV, t0: TmpV, tl: TmpV, tr: TmpV, tf: TmpV, d: Set<u32>, cap: u64, nl: NodeId, nr: NodeId, li: Set<u32>, ri: Set<u32>)
    requires
        del_ctx(m, n, l, r, nrm, t0, tl, tr, d, cap, nl, nr, li, ri),
        li.union(ri).len() <= cap,
        tf.deleted == rm_if_tree(rm_if_tree(tr, nl), nr).deleted,
        tf.puts == tr.puts.insert(n, TNode::Desc(li.union(ri))),
    ensures del_post(m, n, t0, tf, d, cap, n, li.union(ri))
{
    lemma_del_common(m, n, l, r, nrm, t0, tl, tr, d, cap, nl, nr, li, ri);
    let s = tnodes(m, tn(n)); let sl = tnodes(m, l); let sr = tnodes(m, r);
    let b = apply(m, tr); let c = apply(m, tf);
    let total = li.union(ri);
    assert(s.contains(n));
    assert(!tf.deleted.contains(n));
    assert(c.contains_key(n) && c[n] == TNode::Desc(total));
    lemma_unfold(m, n);
    lemma_fold_desc(c, n);
    vstd::set_lib::lemma_len_subset(li, total);
    vstd::set_lib::lemma_len_subset(ri, total);
    assert forall|x: u32| #![trigger tnodes(c, tn(n)).contains(x)] tnodes(c, tn(n)).contains(x) implies !over_cap(c[x], cap) by {
        assert(set![n].contains(x)); assert(x == n); assert(total.len() <= cap);
    }
    assert forall|x: u32| #![trigger s.contains(x)] s.contains(x) && !tnodes(c, tn(n)).contains(x) implies tf.deleted.contains(x) by {
        if sl.contains(x) {
            if tnodes(b, nl).contains(x) { assert(nl.mode == NodeMode::Tree); assert(x == nl.item); }
        } else {
            assert(sr.contains(x));
            if tnodes(b, nr).contains(x) { assert(nr.mode == NodeMode::Tree); assert(x == nr.item); }
        }
    }
    assert(tmp_same_outside(t0, tf, s)) by {
        assert forall|x: u32| !s.contains(x) implies (tf.puts.contains_key(x) == t0.puts.contains_key(x)
            && (tf.puts.contains_key(x) ==> tf.puts[x] == t0.puts[x]) && tf.deleted.contains(x) == t0.deleted.contains(x)) by {
            assert(!sl.contains(x) && !sr.contains(x) && x != n);
        }
    }
}

/// branch 2 (and, mirrored, branch 3): one side lost every item and the rest does not fit a bucket:
/// the node and the empty side are dropped, the other child takes the node's place
pub proof fn lemma_del_one_side_empty(m: TM, n: u32, l: NodeId, r: NodeId, nrm: VecV, t0: TmpV, tl: TmpV, tr: TmpV, tf: TmpV, d: Set<u32>, cap: u64, nl: NodeId, nr: NodeId, li: Set<u32>, ri: Set<u32>, left_empty: bool)
    requires
        del_ctx(m, n, l, r, nrm, t0, tl, tr, d, cap, nl, nr, li, ri),
        !(li.union(ri).len() <= cap),
        if left_empty { li.len() == 0 } else { ri.len() == 0 },
        tf.puts == tr.puts,
        tf.deleted == rm_if_tree(tr, if left_empty { nl } else { nr }).deleted.insert(n),
    ensures
        (if left_empty { nr } else { nl }).mode == NodeMode::Tree,
        del_post(m, n, t0, tf, d, cap, (if left_empty { nr } else { nl }).item, li.union(ri)),
{
    lemma_del_common(m, n, l, r, nrm, t0, tl, tr, d, cap, nl, nr, li, ri);
    let s = tnodes(m, tn(n)); let sl = tnodes(m, l); let sr = tnodes(m, r);
    let b = apply(m, tr); let c = apply(m, tf);
    let total = li.union(ri);
    let keep = if left_empty { nr } else { nl };
    let gone = if left_empty { nl } else { nr };
    let ki = if left_empty { ri } else { li };
    let sk = if left_empty { sr } else { sl };
    let sg = if left_empty { sl } else { sr };
    lemma_unfold(m, n);
    assert(total =~= ki);
    assert(keep.mode == NodeMode::Tree);
    assert(keep == tn(keep.item));
    lemma_nodes_exist(b, keep);
    assert forall|id: u32| #[trigger] tnodes(b, keep).contains(id) implies c.contains_key(id) && c[id] == b[id] by {
        assert(sk.contains(id)); assert(!sg.contains(id)); assert(id != n);
    }
    lemma_frame(b, c, keep);
    assert(s.contains(keep.item));
    assert forall|x: u32| #![trigger s.contains(x)] s.contains(x) && !tnodes(c, keep).contains(x) implies tf.deleted.contains(x) by {
        if x == n {
        } else if sg.contains(x) {
            if tnodes(b, gone).contains(x) { assert(gone.mode == NodeMode::Tree); assert(x == gone.item); }
        } else {
            assert(sk.contains(x));
        }
    }
    assert(tmp_same_outside(t0, tf, s)) by {
        assert forall|x: u32| !s.contains(x) implies (tf.puts.contains_key(x) == t0.puts.contains_key(x)
            && (tf.puts.contains_key(x) ==> tf.puts[x] == t0.puts[x]) && tf.deleted.contains(x) == t0.deleted.contains(x)) by {
            assert(!sl.contains(x) && !sr.contains(x) && x != n);
        }
    }
}

/// branch 4: both sides keep items and they do not fit one bucket: the split stays (rewritten iff a child reference changed)
pub proof fn lemma_del_keep(m: TM, n: u32, l: NodeId, r: NodeId, nrm: VecV, t0: TmpV, tl: TmpV, tr: TmpV, tf: TmpV, d: Set<u32>, cap: u64, nl: NodeId, nr: NodeId, li: Set<u32>, ri: Set<u32>)
    requires
        del_ctx(m, n, l, r, nrm, t0, tl, tr, d, cap, nl, nr, li, ri),
        !(li.union(ri).len() <= cap), li.len() > 0, ri.len() > 0,
        tf.deleted == tr.deleted,
        tf.puts == tr.puts.insert(n, TNode::Split(nl, nr, nrm)) || (tf.puts == tr.puts && nl == l && nr == r),
    ensures del_post(m, n, t0, tf, d, cap, n, li.union(ri))
{
    lemma_del_common(m, n, l, r, nrm, t0, tl, tr, d, cap, nl, nr, li, ri);
    let s = tnodes(m, tn(n)); let sl = tnodes(m, l); let sr = tnodes(m, r);
    let b = apply(m, tr); let c = apply(m, tf);
    lemma_unfold(m, n);
    assert(s.contains(n));
    assert(c.contains_key(n) && c[n] == TNode::Split(nl, nr, nrm));
    lemma_nodes_exist(b, nl); lemma_nodes_exist(b, nr);
    assert forall|id: u32| #[trigger] tnodes(b, nl).contains(id) implies c.contains_key(id) && c[id] == b[id] by { assert(sl.contains(id)); assert(id != n); }
    assert forall|id: u32| #[trigger] tnodes(b, nr).contains(id) implies c.contains_key(id) && c[id] == b[id] by { assert(sr.contains(id)); assert(id != n); }
    lemma_frame(b, c, nl); lemma_frame(b, c, nr);
    assert(titems(c, nl).disjoint(titems(c, nr)));
    assert(tnodes(c, nl).disjoint(tnodes(c, nr)));
    lemma_fold_split(c, n);
    assert forall|x: u32| #![trigger s.contains(x)] s.contains(x) && !tnodes(c, tn(n)).contains(x) implies tf.deleted.contains(x) by {
        if sl.contains(x) { } else { assert(sr.contains(x)); }
    }
    assert(tmp_same_outside(t0, tf, s)) by {
        assert forall|x: u32| !s.contains(x) implies (tf.puts.contains_key(x) == t0.puts.contains_key(x)
            && (tf.puts.contains_key(x) ==> tf.puts[x] == t0.puts[x]) && tf.deleted.contains(x) == t0.deleted.contains(x)) by {
            assert(!sl.contains(x) && !sr.contains(x) && x != n);
        }
    }
}
