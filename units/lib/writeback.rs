// ---- write-back of staged tree edits (TmpNodesReader::to_delete / to_insert loops) -------------------------------------
pub open spec fn rmk(rm: Map<u32, u32>, k: u32) -> u32 { if rm.contains_key(k) { rm[k] } else { k } }
/// put `k` of the staging area is written under key `k2`
pub open spec fn src_of(t: TmpV, rm: Map<u32, u32>, k2: u32, k: u32) -> bool { t.puts.contains_key(k) && !t.deleted.contains(k) && rmk(rm, k) == k2 }
pub open spec fn has_src(t: TmpV, rm: Map<u32, u32>, k2: u32) -> bool { exists|k: u32| src_of(t, rm, k2, k) }
/// no two surviving puts are written under the same key (true without remap; the one remap of the code maps a fresh id onto an id that has no put)
pub open spec fn remap_ok(t: TmpV, rm: Map<u32, u32>) -> bool {
    forall|k1: u32, k2: u32, kk: u32| #![trigger src_of(t, rm, kk, k1), src_of(t, rm, kk, k2)] src_of(t, rm, kk, k1) && src_of(t, rm, kk, k2) ==> k1 == k2
}
/// the tree map after every surviving put was written (deletions are a separate loop)
pub open spec fn overlay(m: TM, t: TmpV, rm: Map<u32, u32>) -> TM {
    IMap::new(|k2: u32| m.contains_key(k2) || has_src(t, rm, k2),
              |k2: u32| if has_src(t, rm, k2) { t.puts[choose|k: u32| src_of(t, rm, k2, k)] } else { m[k2] })
}
pub open spec fn fold_puts(m: TM, s: Seq<(u32, TNode)>) -> TM
    decreases s.len()
{
    if s.len() == 0 { m } else { fold_puts(m, s.drop_last()).insert(s.last().0, s.last().1) }
}
pub proof fn lemma_fold_step(m: TM, s: Seq<(u32, TNode)>, n: int)
    requires 0 <= n < s.len()
    ensures fold_puts(m, s.take(n + 1)) == fold_puts(m, s.take(n)).insert(s[n].0, s[n].1)
{
    assert(s.take(n + 1).drop_last() =~= s.take(n));
    assert(s.take(n + 1).last() == s[n]);
}
/// removing the scheduled deletions
pub open spec fn minus(m: TM, d: Set<u32>) -> TM { IMap::new(|k: u32| m.contains_key(k) && !d.contains(k), |k: u32| m[k]) }
/// without remap, deletions followed by the surviving puts is `apply`
pub proof fn lemma_overlay_is_apply(m: TM, t: TmpV)
    ensures remap_ok(t, Map::<u32, u32>::empty()), overlay(minus(m, t.deleted), t, Map::<u32, u32>::empty()) == apply(m, t)
{
    let rm = Map::<u32, u32>::empty();
    assert forall|k2: u32| #![trigger has_src(t, rm, k2)] has_src(t, rm, k2) <==> (t.puts.contains_key(k2) && !t.deleted.contains(k2)) by {
        if t.puts.contains_key(k2) && !t.deleted.contains(k2) { assert(src_of(t, rm, k2, k2)); }
        if has_src(t, rm, k2) { let k = choose|k: u32| src_of(t, rm, k2, k); assert(k == k2); }
    }
    assert forall|k2: u32| has_src(t, rm, k2) implies (choose|k: u32| src_of(t, rm, k2, k)) == k2 by { let k = choose|k: u32| src_of(t, rm, k2, k); assert(rmk(rm, k) == k2); }
    assert(overlay(minus(m, t.deleted), t, rm) =~= apply(m, t));
}

/// Stand-in for parallel.rs::TmpNodesReader (ASSUMED contract, drift-guarded)
#[verifier::external_body]
pub struct TmpNodesReader { x: u8 }
pub struct PutIter<'a> { pub seq: Ghost<Seq<(u32, TNode)>>, pub pos: Ghost<int>, pub _p: core::marker::PhantomData<&'a ()> }
impl TmpNodesReader {
    pub uninterp spec fn tv(&self) -> TmpV;
    pub uninterp spec fn rm(&self) -> Map<u32, u32>;
    pub uninterp spec fn allocated(&self) -> Set<u32>;
    pub uninterp spec fn taken(&self) -> spec_fn(u16) -> Set<u32>;
    /// ids scheduled for deletion, ascending
    #[verifier::external_body]
    pub fn to_delete(&self) -> (r: BmIter) ensures r.seq@ == bm_seq(self.tv().deleted), r.pos@ == 0 { unimplemented!() }
    /// surviving puts in insertion order, remapped; written in this order they produce `overlay`
    #[verifier::external_body]
    pub fn to_insert<'a>(&'a self) -> (r: PutIter<'a>)
        ensures r.pos@ == 0, remap_ok(self.tv(), self.rm()) ==> (forall|m: TM| #![trigger fold_puts(m, r.seq@)] fold_puts(m, r.seq@) == overlay(m, self.tv(), self.rm()))
    { unimplemented!() }
}
impl<'a> PutIter<'a> {
    #[verifier::external_body]
    pub fn next(&mut self) -> (r: Option<(ItemId, &'a NodeBytes)>)
        requires 0 <= old(self).pos@ <= old(self).seq@.len()
        ensures final(self).seq == old(self).seq,
            match r { Some((id, b)) => old(self).pos@ < old(self).seq@.len() && id == old(self).seq@[old(self).pos@].0 && b.aval() == AVal::Tree(old(self).seq@[old(self).pos@].1)
                                        && final(self).pos@ == old(self).pos@ + 1,
                      None => old(self).pos@ == old(self).seq@.len() && final(self).pos == old(self).pos }
    { unimplemented!() }
}
impl TmpNodes {
    #[verifier::external_body]
    pub fn into_bytes_reader(self) -> (r: Result<TmpNodesReader>)
        ensures r matches Ok(rd) ==> rd.tv() == self.tv() && rd.rm() == self.rm() && rd.allocated() == self.allocated() && rd.taken() == self.taken(), r matches Err(e) ==> e is Io || e is Heed
    { unimplemented!() }
}

/// loop invariant pieces of the two write-back loops, as relations between views
pub open spec fn wb_deleted(v0: DbView, v1: DbView, i: u16, d: Set<u32>, sq: Seq<u32>, pos: int) -> bool {
    &&& same_except(v0, v1, i, true, false, false, false)
    &&& (forall|id: u32| #![trigger v1.contains_key(tkey(i, id))] v1.contains_key(tkey(i, id)) <==> (v0.contains_key(tkey(i, id)) && !(exists|j: int| 0 <= j < pos && sq[j] == id)))
    &&& (forall|id: u32| #![trigger v1.contains_key(tkey(i, id))] v1.contains_key(tkey(i, id)) ==> v1[tkey(i, id)] == v0[tkey(i, id)])
}
pub proof fn lemma_wb_deleted_done(v0: DbView, v1: DbView, i: u16, d: Set<u32>)
    requires wb_deleted(v0, v1, i, d, bm_seq(d), bm_seq(d).len() as int), tree_keys_ok(v0, i)
    ensures tmap(v1, i) == minus(tmap(v0, i), d), tree_keys_ok(v1, i)
{
    axiom_bm_seq(d);
    let sq = bm_seq(d);
    assert forall|id: u32| (exists|j: int| 0 <= j < sq.len() && sq[j] == id) <==> d.contains(id) by {
        if d.contains(id) { assert(sq.contains(id)); let j = choose|j: int| 0 <= j < sq.len() && sq[j] == id; assert(sq[j] == id); }
        if exists|j: int| 0 <= j < sq.len() && sq[j] == id { let j = choose|j: int| 0 <= j < sq.len() && sq[j] == id; assert(d.contains(sq[j])); }
    }
    assert forall|id: u32| #![trigger tmap(v1, i).contains_key(id)] tmap(v1, i).contains_key(id) <==> minus(tmap(v0, i), d).contains_key(id) by {
        assert(v1.contains_key(tkey(i, id)) <==> (v0.contains_key(tkey(i, id)) && !(exists|j: int| 0 <= j < sq.len() && sq[j] == id)));
    }
    assert(tmap(v1, i) =~= minus(tmap(v0, i), d));
}
pub open spec fn wb_put(v1: DbView, v2: DbView, i: u16, sq: Seq<(u32, TNode)>, pos: int) -> bool {
    &&& same_except(v1, v2, i, true, false, false, false)
    &&& tmap(v2, i) == fold_puts(tmap(v1, i), sq.take(pos))
    &&& tree_keys_ok(v2, i)
}
pub proof fn lemma_wb_put_step(v1: DbView, va: DbView, vb: DbView, i: u16, sq: Seq<(u32, TNode)>, pos: int, id: u32, val: AVal)
    requires wb_put(v1, va, i, sq, pos), 0 <= pos < sq.len(), id == sq[pos].0, val == AVal::Tree(sq[pos].1), vb == va.insert(tkey(i, id), val)
    ensures wb_put(v1, vb, i, sq, pos + 1)
{
    lemma_fold_step(tmap(v1, i), sq, pos);
    assert(tmap(vb, i) =~= tmap(va, i).insert(id, sq[pos].1)) by {
        assert forall|k: u32| #![trigger tmap(vb, i).contains_key(k)] tmap(vb, i).contains_key(k) <==> tmap(va, i).insert(id, sq[pos].1).contains_key(k) by { if k != id { assert(tkey(i, k) != tkey(i, id)); } }
        assert forall|k: u32| tmap(vb, i).contains_key(k) implies tmap(vb, i)[k] == tmap(va, i).insert(id, sq[pos].1)[k] by { if k != id { assert(tkey(i, k) != tkey(i, id)); } }
    }
    assert(same_except(v1, vb, i, true, false, false, false)) by {
        assert forall|k: AKey| !(k.index == i && k.kind == NodeMode::Tree) implies (#[trigger] v1.contains_key(k) == vb.contains_key(k) && (v1.contains_key(k) ==> v1[k] == vb[k])) by { assert(k != tkey(i, id)); assert(v1.contains_key(k) == va.contains_key(k)); }
    }
    assert(tree_keys_ok(vb, i)) by {
        assert forall|k: u32| #![trigger vb.contains_key(tkey(i, k))] vb.contains_key(tkey(i, k)) implies vb[tkey(i, k)] is Tree by { if k != id { assert(tkey(i, k) != tkey(i, id)); assert(va.contains_key(tkey(i, k))); } }
    }
}
