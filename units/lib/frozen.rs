// ---- frozen readers and id generator as seen by the per-tree functions (ASSUMED contracts, drift-guarded) ----------
#[verifier::external_body]
pub struct ImmutableLeafs { x: u8 }
impl ImmutableLeafs {
    pub uninterp spec fn ids(&self) -> Set<u32>;
    pub uninterp spec fn lv(&self, id: u32) -> LeafV;
    #[verifier::external_body]
    pub fn get(&self, item_id: ItemId) -> (r: heed::Result<Option<Leaf>>)
        ensures is_heed(r), r matches Ok(o) ==> ((o is Some) == self.ids().contains(item_id)) && (o matches Some(l) ==> l.lv() == self.lv(item_id))
    { unimplemented!() }
}
#[verifier::external_body]
pub struct ImmutableTrees { x: u8 }
impl ImmutableTrees {
    /// the tree nodes frozen in this view
    pub uninterp spec fn snap(&self) -> TM;
    #[verifier::external_body]
    pub fn get(&self, item_id: ItemId) -> (r: heed::Result<Option<Node>>)
        ensures is_heed(r), r matches Ok(o) ==> ((o is Some) == self.snap().contains_key(item_id))
            && (o matches Some(n) ==> !(n is Leaf) && tnode_of(n) == self.snap()[item_id])
    { unimplemented!() }
}
/// Id generator: the contract proved in unit `node_ids` (C13), restated for sequential use: an id returned by next()
/// is not one of the ids in use when the generator was created, and is different from every id returned before.
/// "Returned before" needs ghost state that the real `&self` signature does not carry: rule R12 threads it through
/// the `&mut TmpNodes` in scope (`X.concurrent_node_ids.next()` -> `X.concurrent_node_ids.next_g_(tmp_nodes)`).
/// Assumption A5 (build-level, not proved): while a generator that `covers(i)` is alive, every tree id of index i in the
/// database was either present when it was created or was issued by it. Hence an id it returns now is not a tree key of the
/// current view (next_v_), nor of the view a staging area was created under (next_g_, through TmpNodes::taken).
#[verifier::external_body]
pub struct ConcurrentNodeIds { x: u8 }
impl ConcurrentNodeIds {
    pub uninterp spec fn used0(&self) -> Set<u32>;
    /// the generator was created from all the tree ids of index i (established by axiom_generator_covers at its creation)
    pub uninterp spec fn covers(&self, i: u16) -> bool;
    #[verifier::external_body]
    pub fn new(used: RoaringBitmap) -> (r: ConcurrentNodeIds) ensures r.used0() == used@ { unimplemented!() }
    #[verifier::external_body]
    pub fn next_g_(&self, tmp: &mut TmpNodes) -> (r: Result<u32>)
        ensures
            final(tmp).tv() == old(tmp).tv(), final(tmp).rm() == old(tmp).rm(), final(tmp).taken() == old(tmp).taken(),
            match r {
                // A2: the tree-id space is not exhausted (id != u32::MAX needs fewer than 2^32 - 1 allocated tree ids)
                Ok(id) => id != u32::MAX && !self.used0().contains(id) && !old(tmp).allocated().contains(id) && final(tmp).allocated() == old(tmp).allocated().insert(id)
                    && (forall|i: u16| #![trigger self.covers(i)] self.covers(i) ==> !(old(tmp).taken())(i).contains(id))
                    && final(tmp).allocated().len() <= 0x1_0000_0000,   // a set of u32
                Err(e) => e == Error::DatabaseFull && final(tmp).allocated() == old(tmp).allocated(),
            }
    { unimplemented!() }
    #[verifier::external_body]
    pub fn next_v_(&self, txn: &Txn) -> (r: Result<u32>)
        ensures
            match r {
                Ok(id) => id != u32::MAX && !self.used0().contains(id)
                    && (forall|i: u16| #![trigger self.covers(i)] self.covers(i) ==> !txn.view().contains_key(tkey(i, id))),
                Err(e) => e == Error::DatabaseFull,
            }
    { unimplemented!() }
}
/// A5, creation side: a generator built from (a superset of) all the tree ids of index i covers index i
#[verifier::external_body]
pub proof fn axiom_generator_covers(g: &ConcurrentNodeIds, v: DbView, i: u16)
    requires forall|id: u32| #![trigger v.contains_key(tkey(i, id))] v.contains_key(tkey(i, id)) ==> g.used0().contains(id)
    ensures g.covers(i)
{ }
pub struct FrozzenReader<'a> { pub leafs: &'a ImmutableLeafs, pub trees: &'a ImmutableTrees, pub concurrent_node_ids: &'a ConcurrentNodeIds }

pub trait Rng: Sized {
    /// rand::SeedableRng::seed_from_u64 / RngCore::next_u64: no specification (any generator, any value)
    fn seed_from_u64(seed: u64) -> Self;
    fn next_u64(&mut self) -> u64;
}
#[derive(Copy, Clone)]
pub enum Side { Left, Right }
impl Side {
    #[verifier::external_body]
    pub fn random<R: Rng>(rng: &mut R) -> (r: Side) { unimplemented!() }
}
impl Dist {
    /// sign of margin_no_header(leaf, normal): > 0 => Right, < 0 => Left, 0 => random (Kani unit distance_side proves this of the real default method)
    pub uninterp spec fn margin_sign(normal: VecV, leaf: LeafV) -> int;
    /// the raw margin of a vector against a plane (a float: any value, including 0 and NaN)
    #[verifier::external_body]
    pub fn margin_no_header(p: &UVec, q: &UVec) -> (r: f32) { unimplemented!() }
    #[verifier::external_body]
    pub fn side<R: Rng>(normal_plane: &UVec, node: &Leaf, rng: &mut R) -> (r: Side)
        ensures Dist::margin_sign(normal_plane.vv(), node.lv()) > 0 ==> r is Right, Dist::margin_sign(normal_plane.vv(), node.lv()) < 0 ==> r is Left
    { unimplemented!() }
}
impl Leaf { pub open spec fn lv(&self) -> LeafV { LeafV { header: self.header.hv(), vector: self.vector.vv() } } }

// ---- more stand-ins for make_tree_in_file ---------------------------------------------------------------------------
pub struct ImmutableSubsetLeafs<'a> { pub subset: &'a RoaringBitmap, pub leafs: &'a ImmutableLeafs }
impl<'a> ImmutableSubsetLeafs<'a> {
    pub fn from_item_ids(leafs: &'a ImmutableLeafs, subset: &'a RoaringBitmap) -> (r: Self) ensures r.subset@ == subset@ { ImmutableSubsetLeafs { subset, leafs } }
    pub fn len(&self) -> (r: u64) ensures r == self.subset@.len() { self.subset.len() }
}
impl Dist {
    /// the split heuristic (two_means + normalisation): any plane, or a heed error
    #[verifier::external_body]
    pub fn create_split<R: Rng>(children: &ImmutableSubsetLeafs, rng: &mut R) -> (r: heed::Result<UVec>) ensures is_heed(r) { unimplemented!() }
}
/// src/writer.rs::split_imbalance (f64 arithmetic): uninterpreted
#[verifier::external_body]
pub fn split_imbalance(left_indices_len: u64, right_indices_len: u64) -> (r: f64) { unimplemented!() }
/// iteration over a bitmap (`bitmap.iter()`): ascending ids
pub struct BmIter { pub seq: Ghost<Seq<u32>>, pub pos: Ghost<int> }
impl RoaringBitmap {
    #[verifier::external_body]
    pub fn iter(&self) -> (r: BmIter) ensures r.seq@ == bm_seq(self@), r.pos@ == 0 { unimplemented!() }
    /// rule R7d: `RoaringBitmap::from_sorted_iter(vec).unwrap()` panics unless the ids are strictly increasing
    #[verifier::external_body]
    pub fn from_sorted_vec_unwrap_(v: Vec<u32>) -> (r: RoaringBitmap)
        requires forall|i: int, j: int| 0 <= i < j < v@.len() ==> v@[i] < v@[j]
        ensures forall|x: u32| r@.contains(x) <==> v@.contains(x), r@.len() == v@.len()
    { unimplemented!() }
}
impl BmIter {
    #[verifier::external_body]
    pub fn next(&mut self) -> (r: Option<u32>)
        requires 0 <= old(self).pos@ <= old(self).seq@.len()
        ensures final(self).seq == old(self).seq,
            match r { Some(x) => old(self).pos@ < old(self).seq@.len() && x == old(self).seq@[old(self).pos@] && final(self).pos@ == old(self).pos@ + 1,
                      None => old(self).pos@ == old(self).seq@.len() && final(self).pos == old(self).pos }
    { unimplemented!() }
}
