// ---- RoaringBitmap::select(0) / remove_smallest(1): the queue discipline of the batching loops ----
impl RoaringBitmap {
    /// select(0) is the minimum
    #[verifier::external_body]
    pub fn select(&self, n: u32) -> (r: Option<u32>)
        ensures n == 0 ==> (match r { Some(m) => set_min(self@, m), None => self@ =~= Set::<u32>::empty() })
    { unimplemented!() }
    #[verifier::external_body]
    pub fn remove_smallest(&mut self, n: u64)
        ensures n == 1 ==> ((old(self)@ =~= Set::<u32>::empty() ==> final(self)@ == old(self)@)
            && (forall|m: u32| set_min(old(self)@, m) ==> final(self)@ == old(self)@.remove(m)))
    { unimplemented!() }
}
