// ---- build: stand-ins and the representation invariant of a built index ----------------------------------------------
pub uninterp spec fn pkg_version() -> (u32, u32, u32);
/// rule R7g target
pub fn meta_roots_(m: &Option<Metadata>) -> (r: Vec<u32>)
    ensures match m { Some(md) => r@ == md.roots@, None => r@ == Seq::<u32>::empty() }
{
    match m { Some(md) => md.roots.to_vec_(), None => Vec::new() }
}
/// what a successful build leaves (C01, C05, C06, C15)
pub open spec fn built(v0: DbView, v1: DbView, i: u16, cap: u64, dims: u32, nt: Option<usize>) -> bool {
    &&& v1.contains_key(mkey(i)) && v1[mkey(i)] is Meta
    &&& ({ let md = v1[mkey(i)]->Meta_0;
        // the metadata lists exactly the stored items; every tree holds exactly them; buckets respect the capacity
        &&& (forall|id: u32| #![trigger md.items.contains(id)] md.items.contains(id) <==> v1.contains_key(ikey(i, id)))
        &&& forest_ok(v1, i, md, cap) && md.dimensions == dims && md.distance == Dist::name_spec()
        // C15: one bucket when everything fits (none when empty), else exactly the requested number of trees, or at least one
        &&& (md.items.len() <= cap ==> md.roots.len() == (if md.items.len() > 0 { 1int } else { 0int }))
        &&& (md.items.len() > cap ==> (nt matches Some(n) ==> md.roots.len() == n) && (nt is None ==> md.roots.len() >= 1))
    })
    // C06: no mark is left; C05: the set of stored items is unchanged
    &&& !has_mark(v1, i)
    &&& (forall|id: u32| #![trigger v1.contains_key(ikey(i, id))] v1.contains_key(ikey(i, id)) == v0.contains_key(ikey(i, id)))
    &&& index_inv(v1, i, cap)
}

/// state after pre-processing, listing the items and consuming the marks
pub open spec fn started(v0: DbView, v2: DbView, i: u16, its: Set<u32>, upd: Set<u32>) -> bool {
    &&& same_except(v0, v2, i, false, true, true, false)
    &&& (forall|id: u32| #![trigger its.contains(id)] its.contains(id) <==> v0.contains_key(ikey(i, id)))
    &&& (forall|id: u32| #![trigger v2.contains_key(ikey(i, id))] v2.contains_key(ikey(i, id)) == v0.contains_key(ikey(i, id)))
    &&& (forall|id: u32| #![trigger upd.contains(id)] upd.contains(id) <==> v0.contains_key(ukey(i, id)))
    &&& !has_mark(v2, i) && leaves_same_len(v2, i)
}
pub proof fn lemma_build_start(v0: DbView, v1: DbView, v2: DbView, i: u16, its: Set<u32>, upd: Set<u32>)
    requires
        leaves_same_len(v0, i),
        same_except(v0, v1, i, false, true, false, false), forall|k: AKey| #![trigger v1.contains_key(k)] v1.contains_key(k) == v0.contains_key(k),
        leaves_same_len(v0, i) ==> leaves_same_len(v1, i),
        forall|id: u32| its.contains(id) <==> v1.contains_key(ikey(i, id)),
        same_except(v1, v2, i, false, false, true, false), only_removed(v1, v2), !has_mark(v2, i),
        forall|id: u32| upd.contains(id) <==> v1.contains_key(ukey(i, id)),
    ensures started(v0, v2, i, its, upd)
{
    assert forall|k: AKey| !(k.index == i && (k.kind == NodeMode::Item || k.kind == NodeMode::Updated)) implies (#[trigger] v0.contains_key(k) == v2.contains_key(k) && (v0.contains_key(k) ==> v0[k] == v2[k])) by {
        assert(v0.contains_key(k) == v1.contains_key(k));
    }
    assert forall|id: u32| #![trigger v2.contains_key(ikey(i, id))] v2.contains_key(ikey(i, id)) == v0.contains_key(ikey(i, id)) by {
        assert(v1.contains_key(ikey(i, id)) == v2.contains_key(ikey(i, id)));
        assert(v1.contains_key(ikey(i, id)) == v0.contains_key(ikey(i, id)));
    }
    assert forall|id: u32| #![trigger upd.contains(id)] upd.contains(id) <==> v0.contains_key(ukey(i, id)) by {
        assert(v1.contains_key(ukey(i, id)) == v0.contains_key(ukey(i, id)));
    }
    assert(leaves_same_len(v2, i)) by {
        assert forall|a: u32, b: u32, x: NodeBytes, y: NodeBytes| #![trigger x.aval(), y.aval(), ikey(i, a), ikey(i, b)]
            v2.contains_key(ikey(i, a)) && v2.contains_key(ikey(i, b)) && x.aval() == v2[ikey(i, a)] && y.aval() == v2[ikey(i, b)] implies x.blen() == y.blen() by {
            assert(v1.contains_key(ikey(i, a)) && v1[ikey(i, a)] == v2[ikey(i, a)]);
            assert(v1.contains_key(ikey(i, b)) && v1[ikey(i, b)] == v2[ikey(i, b)]);
        }
    }
}
/// the tree part of the database is what it was at entry
pub proof fn lemma_same_trees(v0: DbView, v2: DbView, i: u16)
    requires same_except(v0, v2, i, false, true, true, false)
    ensures tmap(v2, i) == tmap(v0, i), tree_keys_ok(v0, i) ==> tree_keys_ok(v2, i), v2.contains_key(mkey(i)) == v0.contains_key(mkey(i)), v0.contains_key(mkey(i)) ==> v2[mkey(i)] == v0[mkey(i)],
{
    assert forall|id: u32| v2.contains_key(tkey(i, id)) == v0.contains_key(tkey(i, id)) && (v0.contains_key(tkey(i, id)) ==> v2[tkey(i, id)] == v0[tkey(i, id)]) by {
        assert(v0.contains_key(tkey(i, id)) == v2.contains_key(tkey(i, id)));
    }
    assert(tmap(v2, i) =~= tmap(v0, i));
    assert(v0.contains_key(mkey(i)) == v2.contains_key(mkey(i)));
}
/// all the trees of `rs` hold `its`, no bucket of theirs is oversized
pub open spec fn trees_hold(m: TM, rs: Seq<u32>, its: Set<u32>, cap: u64) -> bool {
    &&& forest(m, rs)
    &&& (forall|k: int| 0 <= k < rs.len() ==> titems(m, tn(#[trigger] rs[k])) == its)
    &&& (forall|k: int| 0 <= k < rs.len() ==> no_big(m, tnodes(m, tn(#[trigger] rs[k])), cap))
}
pub proof fn lemma_after_deletes(v2: DbView, v3: DbView, v4: DbView, i: u16, r0: Seq<u32>, r1: Seq<u32>, r2: Seq<u32>, target: u64, upd: Set<u32>, cap: u64, old_its: Set<u32>)
    requires
        trees_hold(tmap(v2, i), r0, old_its, cap),
        extra_post(v2, v3, i, r0, r1, target), dift_post(v3, v4, i, r1, r2, upd, cap),
    ensures
        trees_hold(tmap(v4, i), r2, old_its.difference(upd), cap),
        r2.len() == (if r0.len() > target { target as int } else { r0.len() as int }),
{
    let m2 = tmap(v2, i); let m3 = tmap(v3, i); let m4 = tmap(v4, i);
    assert forall|k: int| 0 <= k < r1.len() implies titems(m3, tn(#[trigger] r1[k])) == old_its && no_big(m3, tnodes(m3, tn(r1[k])), cap) by {
        assert(r0.contains(r1[k]));
        let j = choose|j: int| 0 <= j < r0.len() && r0[j] == r1[k];
        assert(titems(m2, tn(r0[j])) == old_its);
        assert(no_big(m2, tnodes(m2, tn(r0[j])), cap));
        lemma_nodes_exist(m3, tn(r1[k]));
        assert forall|x: u32| #![trigger tnodes(m3, tn(r1[k])).contains(x)] tnodes(m3, tn(r1[k])).contains(x) implies !over_cap(m3[x], cap) by {
            assert(tnodes(m2, tn(r0[j])).contains(x));
            assert(v3.contains_key(tkey(i, x)));
            assert(v3[tkey(i, x)] == v2[tkey(i, x)]);
        }
    }
    let p = choose|p: Seq<int>| #![trigger is_perm(p, r1.len() as int)] is_perm(p, r1.len() as int) && forall|k: int| 0 <= k < r2.len() ==>
            titems(m4, tn(#[trigger] r2[k])) == titems(m3, tn(r1[p[k]])).difference(upd) && tnodes(m4, tn(r2[k])).subset_of(tnodes(m3, tn(r1[p[k]])))
            && (titems(m3, tn(r1[p[k]])).difference(upd).len() <= cap ==> m4[r2[k]] is Desc)
            && (no_big(m3, tnodes(m3, tn(r1[p[k]])), cap) ==> no_big(m4, tnodes(m4, tn(r2[k])), cap));
    assert forall|k: int| 0 <= k < r2.len() implies titems(m4, tn(#[trigger] r2[k])) == old_its.difference(upd) && no_big(m4, tnodes(m4, tn(r2[k])), cap) by {
        assert(0 <= p[k] < r1.len());
        assert(titems(m3, tn(r1[p[k]])) == old_its);
    }
}
/// after the insertion of the updated ids into the current trees: ready for the queue-driven splitting
pub proof fn lemma_after_insert(m4: TM, m5: TM, rs: Seq<u32>, ins: Set<u32>, large: Set<u32>, cap: u64, its: Set<u32>, old_its: Set<u32>, upd: Set<u32>)
    requires
        rs.len() > 0, trees_hold(m4, rs, old_its.difference(upd), cap), iict_inv(m4, m5, rs, ins, large, cap),
        forall|id: u32| #![trigger ins.contains(id)] ins.contains(id) <==> its.contains(id) && upd.contains(id),
        // sync
        forall|id: u32| #![trigger its.contains(id)] !upd.contains(id) ==> (its.contains(id) <==> old_its.contains(id)),
    ensures
        incr_inv(m5, m5, rs, large, cap),
        forall|k: int| 0 <= k < rs.len() ==> titems(m5, tn(#[trigger] rs[k])) == its,
{
    let n = rs.len() as int;
    assert forall|k: int| 0 <= k < rs.len() implies titems(m5, tn(#[trigger] rs[k])) == its by {
        assert(titems(m5, tn(rs[k])) == titems(m4, tn(rs[k])).union(ins));
        assert(old_its.difference(upd).union(ins) =~= its) by {
            assert forall|id: u32| old_its.difference(upd).union(ins).contains(id) <==> its.contains(id) by {
                if upd.contains(id) { assert(ins.contains(id) <==> its.contains(id)); } else { assert(!ins.contains(id)); }
            }
        }
    }
    assert forall|x: u32| #![trigger in_tree(m5, rs, n, x)] in_tree(m5, rs, n, x) && over_cap(m5[x], cap) implies large.contains(x) by {
        if !large.contains(x) {
            let j = choose|j: int| 0 <= j < n && tnodes(m5, tn(#[trigger] rs[j])).contains(x);
            assert(m4.contains_key(x) && m5[x] == m4[x]);
            assert(tnodes(m5, tn(rs[j])).contains(x));
            assert(tnodes(m4, tn(rs[j])).contains(x));
            assert(no_big(m4, tnodes(m4, tn(rs[j])), cap));
        }
    }
}
pub proof fn lemma_no_trees(m: TM, cap: u64)
    ensures incr_inv(m, m, Seq::<u32>::empty(), Set::<u32>::empty(), cap)
{
    assert forall|x: u32| !in_tree(m, Seq::<u32>::empty(), 0, x) by {}
}
/// one more tree: a fresh id holding every item in one bucket, queued for splitting
pub proof fn lemma_grow_step(mc: TM, mc2: TM, rs: Seq<u32>, rs2: Seq<u32>, large: Set<u32>, large2: Set<u32>, cap: u64, id: u32, its: Set<u32>)
    requires
        incr_inv(mc, mc, rs, large, cap), forall|k: int| 0 <= k < rs.len() ==> titems(mc, tn(#[trigger] rs[k])) == its,
        !mc.contains_key(id), id != u32::MAX, mc2 == mc.insert(id, TNode::Desc(its)), rs2 == rs.push(id), large2 == large.insert(id),
    ensures
        incr_inv(mc2, mc2, rs2, large2, cap), forall|k: int| 0 <= k < rs2.len() ==> titems(mc2, tn(#[trigger] rs2[k])) == its,
{
    let n = rs.len() as int; let n2 = rs2.len() as int;
    lemma_fold_desc(mc2, id);
    assert forall|k: int| 0 <= k < n implies tree(mc2, tn(#[trigger] rs2[k])) && titems(mc2, tn(rs2[k])) == its && tnodes(mc2, tn(rs2[k])) == tnodes(mc, tn(rs[k])) && !tnodes(mc2, tn(rs2[k])).contains(id) by {
        assert(rs2[k] == rs[k]);
        lemma_nodes_exist(mc, tn(rs[k]));
        assert forall|x: u32| #[trigger] tnodes(mc, tn(rs[k])).contains(x) implies mc2.contains_key(x) && mc2[x] == mc[x] by { assert(x != id); }
        lemma_frame(mc, mc2, tn(rs[k]));
    }
    assert(rs2[n] == id);
    assert forall|k: int| 0 <= k < n2 implies tree(mc2, tn(#[trigger] rs2[k])) && titems(mc2, tn(rs2[k])) == its by { if k < n {} else { assert(k == n); } }
    assert forall|a: int, b: int| 0 <= a < b < n2 implies tnodes(mc2, tn(#[trigger] rs2[a])).disjoint(tnodes(mc2, tn(#[trigger] rs2[b]))) by {
        if b < n { assert(tnodes(mc, tn(rs[a])).disjoint(tnodes(mc, tn(rs[b])))); } else { assert(b == n); }
    }
    assert forall|x: u32| in_tree(mc2, rs2, n2, x) <==> (in_tree(mc, rs, n, x) || x == id) by {
        if in_tree(mc2, rs2, n2, x) {
            let j = choose|j: int| 0 <= j < n2 && tnodes(mc2, tn(#[trigger] rs2[j])).contains(x);
            if j < n { assert(tnodes(mc, tn(rs[j])).contains(x)); } else { assert(j == n); }
        }
        if in_tree(mc, rs, n, x) { let j = choose|j: int| 0 <= j < n && tnodes(mc, tn(#[trigger] rs[j])).contains(x); assert(tnodes(mc2, tn(rs2[j])).contains(x)); }
        if x == id { assert(tnodes(mc2, tn(rs2[n])).contains(x)); }
    }
    assert forall|x: u32| #![trigger large2.contains(x)] large2.contains(x) implies in_tree(mc2, rs2, n2, x) && mc2[x] is Desc by {
        if x != id { assert(large.contains(x)); assert(in_tree(mc, rs, n, x)); let j = choose|j: int| 0 <= j < n && tnodes(mc, tn(#[trigger] rs[j])).contains(x); lemma_nodes_exist(mc, tn(rs[j])); }
    }
    assert forall|x: u32| #![trigger in_tree(mc2, rs2, n2, x)] in_tree(mc2, rs2, n2, x) && over_cap(mc2[x], cap) implies large2.contains(x) by {
        if x != id { assert(in_tree(mc, rs, n, x)); let j = choose|j: int| 0 <= j < n && tnodes(mc, tn(#[trigger] rs[j])).contains(x); lemma_nodes_exist(mc, tn(rs[j])); assert(mc2[x] == mc[x]); }
    }
}
pub proof fn lemma_leaves_frame(va: DbView, vb: DbView, i: u16, t: bool, u: bool, m: bool)
    requires same_except(va, vb, i, t, false, u, m), leaves_same_len(va, i)
    ensures leaves_same_len(vb, i), forall|id: u32| #![trigger vb.contains_key(ikey(i, id))] vb.contains_key(ikey(i, id)) == va.contains_key(ikey(i, id))
{
    assert forall|a: u32, b: u32, x: NodeBytes, y: NodeBytes| #![trigger x.aval(), y.aval(), ikey(i, a), ikey(i, b)]
        vb.contains_key(ikey(i, a)) && vb.contains_key(ikey(i, b)) && x.aval() == vb[ikey(i, a)] && y.aval() == vb[ikey(i, b)] implies x.blen() == y.blen() by {
        let ka = ikey(i, a); let kb = ikey(i, b);
        assert(ka.kind == NodeMode::Item && kb.kind == NodeMode::Item);
        assert(va.contains_key(ka) == vb.contains_key(ka)); assert(va.contains_key(kb) == vb.contains_key(kb));
        assert(va[ka] == vb[ka]); assert(va[kb] == vb[kb]);
    }
    assert forall|id: u32| #![trigger vb.contains_key(ikey(i, id))] vb.contains_key(ikey(i, id)) == va.contains_key(ikey(i, id)) by { assert(va.contains_key(ikey(i, id)) == vb.contains_key(ikey(i, id))); }
}
pub proof fn lemma_frame_trans(va: DbView, vb: DbView, vc: DbView, i: u16, t: bool, it: bool, u: bool, m: bool)
    requires same_except(va, vb, i, t, it, u, m), same_except(vb, vc, i, t, it, u, m)
    ensures same_except(va, vc, i, t, it, u, m)
{
    assert forall|k: AKey| !(k.index == i && ((t && k.kind == NodeMode::Tree) || (it && k.kind == NodeMode::Item) || (u && k.kind == NodeMode::Updated) || (m && k.kind == NodeMode::Metadata)))
        implies (#[trigger] va.contains_key(k) == vc.contains_key(k) && (va.contains_key(k) ==> va[k] == vc[k])) by { assert(va.contains_key(k) == vb.contains_key(k)); }
}
pub proof fn lemma_frame_weaken(va: DbView, vb: DbView, i: u16, t: bool, it: bool, u: bool, m: bool)
    requires same_except(va, vb, i, t, it, u, m)
    ensures same_except(va, vb, i, true, true, true, true), same_except(va, vb, i, t || true, it, u, m)
{
}
/// writing one tree node
pub proof fn lemma_put_tree(va: DbView, vb: DbView, i: u16, id: u32, tnode: TNode)
    requires vb == va.insert(tkey(i, id), AVal::Tree(tnode)), tree_keys_ok(va, i)
    ensures tmap(vb, i) == tmap(va, i).insert(id, tnode), tree_keys_ok(vb, i), same_except(va, vb, i, true, false, false, false)
{
    assert forall|k: u32| #![trigger tmap(vb, i).contains_key(k)] tmap(vb, i).contains_key(k) <==> tmap(va, i).insert(id, tnode).contains_key(k) by { if k != id { assert(tkey(i, k) != tkey(i, id)); } }
    assert forall|k: u32| tmap(vb, i).contains_key(k) implies tmap(vb, i)[k] == tmap(va, i).insert(id, tnode)[k] by { if k != id { assert(tkey(i, k) != tkey(i, id)); } }
    assert(tmap(vb, i) =~= tmap(va, i).insert(id, tnode));
    assert forall|k: u32| #![trigger vb.contains_key(tkey(i, k))] vb.contains_key(tkey(i, k)) implies vb[tkey(i, k)] is Tree by { if k != id { assert(tkey(i, k) != tkey(i, id)); assert(va.contains_key(tkey(i, k))); } }
    assert forall|k: AKey| !(k.index == i && k.kind == NodeMode::Tree) implies (#[trigger] va.contains_key(k) == vb.contains_key(k) && (va.contains_key(k) ==> va[k] == vb[k])) by { assert(k != tkey(i, id)); }
}
/// the single-bucket path (everything fits one bucket)
pub proof fn lemma_single_leaf(v0: DbView, v2: DbView, v3: DbView, i: u16, cap: u64, its: Set<u32>, upd: Set<u32>, dims: u32, nt: Option<usize>)
    requires
        started(v0, v2, i, its, upd), its.len() <= cap,
        same_except(v2, v3, i, true, false, false, true),
        forall|id: u32| v3.contains_key(tkey(i, id)) ==> id == 0 && its.len() > 0,
        its.len() > 0 ==> v3.contains_key(tkey(i, 0)) && v3[tkey(i, 0)] == AVal::Tree(TNode::Desc(its)),
        v3.contains_key(mkey(i)),
        v3[mkey(i)] == AVal::Meta(MetaV { dimensions: dims, items: its, roots: if its.len() > 0 { seq![0u32] } else { Seq::<u32>::empty() }, distance: Dist::name_spec() }),
    ensures built(v0, v3, i, cap, dims, nt)
{
    let md = v3[mkey(i)]->Meta_0; let m3 = tmap(v3, i);
    lemma_leaves_frame(v2, v3, i, true, false, true);
    assert(!has_mark(v3, i)) by {
        if has_mark(v3, i) { let k = choose|k: AKey| #[trigger] v3.contains_key(k) && k.index == i && k.kind == NodeMode::Updated; assert(v2.contains_key(k) == v3.contains_key(k)); }
    }
    if its.len() > 0 {
        assert(m3.contains_key(0) && m3[0] == TNode::Desc(its));
        lemma_fold_desc(m3, 0);
        assert(md.roots.len() == 1 && md.roots[0] == 0);
        assert(no_big(m3, tnodes(m3, tn(0)), cap));
    }
    assert(forest_ok(v3, i, md, cap));
    assert forall|id: u32| #![trigger v3.contains_key(ukey(i, id))] !v3.contains_key(ukey(i, id)) by { if v3.contains_key(ukey(i, id)) { assert(has_mark(v3, i)); } }
    assert(tree_keys_ok(v3, i)) by {
        assert forall|id: u32| #![trigger v3.contains_key(tkey(i, id))] v3.contains_key(tkey(i, id)) implies v3[tkey(i, id)] is Tree by { assert(id == 0); }
    }
}
/// the general path, after the queue was drained and the metadata written
pub proof fn lemma_build_end(v0: DbView, v2: DbView, v6: DbView, v7: DbView, v8: DbView, i: u16, cap: u64, rs: Seq<u32>, its: Set<u32>, upd: Set<u32>, dims: u32, target: u64, nt: Option<usize>, md: MetaV)
    requires
        started(v0, v2, i, its, upd), its.len() > cap, rs.len() == target, nt matches Some(n) ==> target == n as u64, nt is None ==> target >= 1,
        same_except(v2, v7, i, true, false, false, false), tree_keys_ok(v7, i),
        forall|k: int| 0 <= k < rs.len() ==> titems(tmap(v6, i), tn(#[trigger] rs[k])) == its,
        incr_inv(tmap(v6, i), tmap(v7, i), rs, Set::<u32>::empty(), cap),
        md == (MetaV { dimensions: dims, items: its, roots: rs, distance: Dist::name_spec() }),
        v8 == v7.insert(mkey(i), AVal::Meta(md)),
    ensures built(v0, v8, i, cap, dims, nt)
{
    let m7 = tmap(v7, i); let m8 = tmap(v8, i); let n = rs.len() as int;
    assert(m8 =~= m7) by {
        assert forall|id: u32| v8.contains_key(tkey(i, id)) == v7.contains_key(tkey(i, id)) && (v7.contains_key(tkey(i, id)) ==> v8[tkey(i, id)] == v7[tkey(i, id)]) by { assert(tkey(i, id) != mkey(i)); }
    }
    assert(same_except(v7, v8, i, false, false, false, true)) by {
        assert forall|k: AKey| !(k.index == i && k.kind == NodeMode::Metadata) implies (#[trigger] v7.contains_key(k) == v8.contains_key(k) && (v7.contains_key(k) ==> v7[k] == v8[k])) by { assert(k != mkey(i)); }
    }
    lemma_leaves_frame(v2, v7, i, true, false, false);
    lemma_leaves_frame(v7, v8, i, false, false, true);
    assert(!has_mark(v8, i)) by {
        if has_mark(v8, i) { let k = choose|k: AKey| #[trigger] v8.contains_key(k) && k.index == i && k.kind == NodeMode::Updated; assert(v7.contains_key(k) == v8.contains_key(k)); assert(v2.contains_key(k) == v7.contains_key(k)); }
    }
    assert forall|k: int| 0 <= k < n implies titems(m8, tn(#[trigger] rs[k])) == its && no_big(m8, tnodes(m8, tn(rs[k])), cap) by {
        assert forall|x: u32| #![trigger tnodes(m8, tn(rs[k])).contains(x)] tnodes(m8, tn(rs[k])).contains(x) implies !over_cap(m8[x], cap) by {
            assert(in_tree(m7, rs, n, x));
        }
    }
    assert(forest_ok(v8, i, md, cap));
    assert forall|id: u32| #![trigger v8.contains_key(ukey(i, id))] !v8.contains_key(ukey(i, id)) by { if v8.contains_key(ukey(i, id)) { assert(has_mark(v8, i)); } }
    assert(tree_keys_ok(v8, i)) by {
        assert forall|id: u32| #![trigger v8.contains_key(tkey(i, id))] v8.contains_key(tkey(i, id)) implies v8[tkey(i, id)] is Tree by { assert(tkey(i, id) != mkey(i)); assert(v7.contains_key(tkey(i, id))); }
    }
}
