//@extract src/reader.rs | - | item_leaf
//@spec
    ensures
        r matches Ok(o) ==> match o {
            Some(leaf) => rtxn.view().contains_key(ikey(index, item)) && rtxn.view()[ikey(index, item)] == AVal::Leaf(LeafV { header: leaf.header.hv(), vector: leaf.vector.vv() }),
            None => !(rtxn.view().contains_key(ikey(index, item)) && rtxn.view()[ikey(index, item)] is Leaf),
        },
        r matches Err(e) ==> e is Heed,
//@end

impl ItemIter {
//@extract src/item_iter.rs | impl<D: Distance> Iterator for ItemIter<'_, D> | next
//@subst
<<<
Option<Self::Item>
===
Option<Result<(ItemId, Vec<f32>)>>
>>>
//@spec
    requires 0 <= old(self).inner.pos@ <= old(self).inner.keys@.len(),
    ensures
        final(self).inner.keys == old(self).inner.keys, final(self).inner.snap == old(self).inner.snap,
        final(self).inner.sel == old(self).inner.sel, final(self).inner.rev == old(self).inner.rev, final(self).dimensions == old(self).dimensions,
        final(self).inner.faulty == old(self).inner.faulty,
        0 <= final(self).inner.pos@ <= final(self).inner.keys@.len(),
        match r {
            // C05: the next stored item in key order, with its id and its vector cut to the declared dimension
            Some(Ok((id, v))) => old(self).inner.pos@ < old(self).inner.keys@.len()
                && id == old(self).inner.keys@[old(self).inner.pos@].id
                && (old(self).inner.snap@[old(self).inner.keys@[old(self).inner.pos@]] matches AVal::Leaf(l)
                    && v@ == trunc(Dist::dec(l.vector), old(self).dimensions as int))
                && final(self).inner.pos@ == old(self).inner.pos@ + 1,
            Some(Err(e)) => e is Heed && old(self).inner.faulty@,
            // the iteration stops at the end of the listing (or at a non-leaf value, which an Item key never holds)
            None => old(self).inner.pos@ == old(self).inner.keys@.len()
                || !(old(self).inner.snap@[old(self).inner.keys@[old(self).inner.pos@]] is Leaf),
        }
//@end
}

