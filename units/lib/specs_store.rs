pub open spec fn ikey(i: u16, id: u32) -> AKey { akey(i, NodeMode::Item, id) }
pub open spec fn ukey(i: u16, id: u32) -> AKey { akey(i, NodeMode::Updated, id) }
pub open spec fn tkey(i: u16, id: u32) -> AKey { akey(i, NodeMode::Tree, id) }
pub open spec fn mkey(i: u16) -> AKey { akey(i, NodeMode::Metadata, 0) }
pub open spec fn vkey(i: u16) -> AKey { akey(i, NodeMode::Metadata, 1) }
pub open spec fn has_mark(v: DbView, i: u16) -> bool {
    exists|k: AKey| #[trigger] v.contains_key(k) && k.index == i && k.kind == NodeMode::Updated
}
/// C06: an index is stale iff it has an updated mark or no metadata
pub open spec fn stale(v: DbView, i: u16) -> bool { has_mark(v, i) || !v.contains_key(mkey(i)) }
pub open spec fn new_leaf(vector: Seq<f32>) -> AVal {
    AVal::Leaf(LeafV { header: Dist::new_header_spec(Dist::enc(vector)), vector: Dist::enc(vector) })
}
/// representation invariant of the item store: an Item key always holds a leaf (established by add_item / append_item,
/// which are the only writers of Item keys besides the in-place header rewrites, which write leaves too)
pub open spec fn items_are_leaves(v: DbView, i: u16) -> bool {
    forall|k: AKey| #[trigger] v.contains_key(k) && k.index == i && k.kind == NodeMode::Item ==> v[k] is Leaf
}
pub open spec fn has_item(v: DbView, i: u16) -> bool {
    exists|k: AKey| #[trigger] v.contains_key(k) && k.index == i && k.kind == NodeMode::Item
}
/// only keys of index `i` whose kind satisfies `kinds` may differ between `a` and `b`
pub open spec fn same_except(a: DbView, b: DbView, i: u16, tree: bool, item: bool, upd: bool, meta: bool) -> bool {
    forall|k: AKey| !(k.index == i && ((tree && k.kind == NodeMode::Tree) || (item && k.kind == NodeMode::Item)
                                        || (upd && k.kind == NodeMode::Updated) || (meta && k.kind == NodeMode::Metadata)))
        ==> (#[trigger] a.contains_key(k) == b.contains_key(k) && (a.contains_key(k) ==> a[k] == b[k]))
}
/// `b` is `a` with some keys removed (nothing added, nothing rewritten)
pub open spec fn only_removed(a: DbView, b: DbView) -> bool {
    forall|k: AKey| #[trigger] b.contains_key(k) ==> a.contains_key(k) && b[k] == a[k]
}
pub open spec fn build_err(e: Error) -> bool { e is Heed || e is Io || e == Error::BuildCancelled || e == Error::DatabaseFull }
/// every item leaf of the index has the same encoded length (they share the declared dimension; cf. fix of F6)
pub open spec fn leaves_same_len(v: DbView, i: u16) -> bool {
    forall|a: u32, b: u32, x: NodeBytes, y: NodeBytes| #![trigger x.aval(), y.aval(), ikey(i, a), ikey(i, b)]
        v.contains_key(ikey(i, a)) && v.contains_key(ikey(i, b)) && x.aval() == v[ikey(i, a)] && y.aval() == v[ikey(i, b)] ==> x.blen() == y.blen()
}
