// ---- representation invariant of an index between two builds ----------------------------------------------------------------
/// the forest recorded in the metadata `md` is well formed, every tree holds exactly md.items, and no bucket exceeds `cap`
pub open spec fn forest_ok(v: DbView, i: u16, md: MetaV, cap: u64) -> bool {
    let m = tmap(v, i);
    &&& forest(m, md.roots)
    &&& (forall|k: int| 0 <= k < md.roots.len() ==> titems(m, tn(#[trigger] md.roots[k])) == md.items)
    &&& (forall|k: int| 0 <= k < md.roots.len() ==> no_big(m, tnodes(m, tn(#[trigger] md.roots[k])), cap))
}
/// representation invariant of an index between two builds: what the item operations preserve and what build re-establishes.
/// `sync`: an id that carries no updated mark is stored iff the trees hold it.
pub open spec fn index_inv(v: DbView, i: u16, cap: u64) -> bool {
    &&& tree_keys_ok(v, i) && leaves_same_len(v, i)
    &&& (v.contains_key(mkey(i)) ==> v[mkey(i)] is Meta && forest_ok(v, i, v[mkey(i)]->Meta_0, cap)
            && (forall|id: u32| #![trigger v.contains_key(ikey(i, id))] !v.contains_key(ukey(i, id)) ==> (v.contains_key(ikey(i, id)) <==> v[mkey(i)]->Meta_0.items.contains(id))))
}
