// ---- contract of Writer::make_tree_in_file ---------------------------------------------------------------------------
pub open spec fn mk_post(m: TM, used0: Set<u32>, t0: TmpV, t1: TmpV, a0: Set<u32>, a1: Set<u32>, items: Set<u32>, cap: u64, new: NodeId, count: u64, leafs: &ImmutableLeafs) -> bool {
    let fresh = a1.difference(a0);
    let m1 = apply(m, t1);
    &&& t1.deleted == t0.deleted && a0.subset_of(a1) && tmp_inv(m, used0, t1, a1)
    &&& tmp_same_outside(t0, t1, fresh)
    // C01: a well-formed subtree over exactly the given items, made of exactly the freshly allocated ids
    &&& tree(m1, new) && titems(m1, new) == items && tnodes(m1, new) == fresh
    &&& count == fresh.len()
    // a single item is referenced directly
    &&& (items.len() == 1 ==> new.mode == NodeMode::Item && fresh == Set::<u32>::empty())
    &&& (new.mode == NodeMode::Item ==> items == set![new.item])
    // C15: no bucket of the new subtree exceeds the capacity
    &&& (forall|x: u32| #![trigger fresh.contains(x)] fresh.contains(x) ==> !over_cap(m1[x], cap))
    // C04: under a non-degenerate plane every item lies on the side `side()` chose for it
    &&& (new.mode == NodeMode::Tree && m1[new.item] is Split && !Dist::vzero(m1[new.item]->Split_2) ==>
            forall|x: u32| #![trigger items.contains(x)] items.contains(x) ==>
                (Dist::margin_sign(m1[new.item]->Split_2, leafs.lv(x)) > 0 ==> titems(m1, m1[new.item]->Split_1).contains(x))
                && (Dist::margin_sign(m1[new.item]->Split_2, leafs.lv(x)) < 0 ==> titems(m1, m1[new.item]->Split_0).contains(x)))
}

// ---- proof of make_tree_in_file: one lemma per return ----------------------------------------------------------------
pub proof fn lemma_mk_item(m: TM, used0: Set<u32>, t0: TmpV, a0: Set<u32>, items: Set<u32>, cap: u64, x: u32, leafs: &ImmutableLeafs)
    requires tmp_inv(m, used0, t0, a0), items.len() == 1, set_min(items, x),
    ensures mk_post(m, used0, t0, t0, a0, a0, items, cap, itn(x), 0, leafs)
{
    let m1 = apply(m, t0);
    lemma_item(m1, x);
    assert(items =~= set![x]) by {
        vstd::set_lib::lemma_len_subset(set![x], items);
        vstd::set_lib::lemma_subset_equality(set![x], items);
    }
    assert(a0.difference(a0) =~= Set::<u32>::empty());
}
pub proof fn lemma_mk_desc(m: TM, used0: Set<u32>, t0: TmpV, t1: TmpV, a0: Set<u32>, a1: Set<u32>, items: Set<u32>, cap: u64, id: u32, leafs: &ImmutableLeafs)
    requires
        tmp_inv(m, used0, t0, a0), items.len() != 1, items.len() <= cap,
        id != u32::MAX, !used0.contains(id), !a0.contains(id), a1 == a0.insert(id),
        t1.deleted == t0.deleted, t1.puts == t0.puts.insert(id, TNode::Desc(items)),
    ensures mk_post(m, used0, t0, t1, a0, a1, items, cap, tn(id), 1, leafs)
{
    let m1 = apply(m, t1);
    assert(!t1.deleted.contains(id)) by { if t0.deleted.contains(id) { assert(m.contains_key(id)); assert(used0.contains(id)); } }
    assert(m1.contains_key(id) && m1[id] == TNode::Desc(items));
    lemma_fold_desc(m1, id);
    let fresh = a1.difference(a0);
    assert(fresh =~= set![id]);
    assert(tmp_same_outside(t0, t1, fresh)) by {
        assert forall|x: u32| !fresh.contains(x) implies (t1.puts.contains_key(x) == t0.puts.contains_key(x)
            && (t1.puts.contains_key(x) ==> t1.puts[x] == t0.puts[x]) && t1.deleted.contains(x) == t0.deleted.contains(x)) by { assert(x != id); }
    }
    assert(tmp_inv(m, used0, t1, a1));
}
pub proof fn lemma_mk_split(m: TM, used0: Set<u32>, t0: TmpV, tl: TmpV, tr: TmpV, tf: TmpV, a0: Set<u32>, al: Set<u32>, ar: Set<u32>, af: Set<u32>,
                            items: Set<u32>, lset: Set<u32>, rset: Set<u32>, cap: u64, nl: NodeId, nr: NodeId, cl: u64, cr: u64, id: u32, nrm: VecV, leafs: &ImmutableLeafs)
    requires
        tmp_inv(m, used0, t0, a0), lset.union(rset) == items, lset.disjoint(rset), items.len() != 1,
        mk_post(m, used0, t0, tl, a0, al, lset, cap, nl, cl, leafs), mk_post(m, used0, tl, tr, al, ar, rset, cap, nr, cr, leafs),
        id != u32::MAX, !used0.contains(id), !ar.contains(id), af == ar.insert(id), af.len() <= 0x1_0000_0000,
        tf.deleted == tr.deleted, tf.puts == tr.puts.insert(id, TNode::Split(nl, nr, nrm)),
        !Dist::vzero(nrm) ==> (forall|x: u32| #![trigger lset.contains(x)] lset.contains(x) ==> !(Dist::margin_sign(nrm, leafs.lv(x)) > 0))
            && (forall|x: u32| #![trigger rset.contains(x)] rset.contains(x) ==> !(Dist::margin_sign(nrm, leafs.lv(x)) < 0)),
    ensures
        cl + cr + 1 <= 0x1_0000_0000,
        mk_post(m, used0, t0, tf, a0, af, items, cap, tn(id), (cl + cr + 1) as u64, leafs),
{
    let fl = al.difference(a0); let fr = ar.difference(al); let fresh = af.difference(a0);
    let a = apply(m, tl); let b = apply(m, tr); let c = apply(m, tf);
    assert(!tf.deleted.contains(id)) by { if tr.deleted.contains(id) { assert(m.contains_key(id)); assert(used0.contains(id)); } }
    assert(c.contains_key(id) && c[id] == TNode::Split(nl, nr, nrm));
    lemma_nodes_exist(a, nl); lemma_nodes_exist(b, nr);
    assert forall|x: u32| #[trigger] tnodes(a, nl).contains(x) implies b.contains_key(x) && b[x] == a[x] && c.contains_key(x) && c[x] == a[x] by {
        assert(fl.contains(x)); assert(!fr.contains(x)); assert(ar.contains(x)); assert(x != id);
    }
    lemma_frame(a, b, nl); lemma_frame(a, c, nl);
    assert forall|x: u32| #[trigger] tnodes(b, nr).contains(x) implies c.contains_key(x) && c[x] == b[x] by { assert(fr.contains(x)); assert(ar.contains(x)); assert(x != id); }
    lemma_frame(b, c, nr);
    assert(titems(c, nl).disjoint(titems(c, nr)));
    assert(tnodes(c, nl).disjoint(tnodes(c, nr))) by {
        assert forall|x: u32| tnodes(c, nl).contains(x) && tnodes(c, nr).contains(x) implies false by { assert(fl.contains(x) && fr.contains(x)); }
    }
    assert(!tnodes(c, nl).contains(id) && !tnodes(c, nr).contains(id)) by { if fl.contains(id) { assert(ar.contains(id)); } }
    lemma_fold_split(c, id);
    assert(fresh =~= fl.union(fr).insert(id)) by {
        assert forall|x: u32| fresh.contains(x) implies fl.union(fr).insert(id).contains(x) by { if x != id { assert(ar.contains(x)); } }
        assert forall|x: u32| fl.union(fr).insert(id).contains(x) implies fresh.contains(x) by {
            if x == id { if a0.contains(id) { assert(al.contains(id)); assert(ar.contains(id)); } }
            else if fl.contains(x) { assert(ar.contains(x)); } else { assert(fr.contains(x)); if a0.contains(x) { assert(al.contains(x)); } }
        }
    }
    assert(tnodes(c, tn(id)) =~= fresh);
    // count
    assert(fl.disjoint(fr));
    vstd::set_lib::lemma_set_disjoint_lens(fl, fr);
    assert(!fl.union(fr).contains(id)) by { if fl.contains(id) { assert(ar.contains(id)); } }
    assert(fresh.len() == fl.len() + fr.len() + 1);
    vstd::set_lib::lemma_len_subset(fresh, af);
    assert(tmp_same_outside(t0, tf, fresh)) by {
        assert forall|x: u32| !fresh.contains(x) implies (tf.puts.contains_key(x) == t0.puts.contains_key(x)
            && (tf.puts.contains_key(x) ==> tf.puts[x] == t0.puts[x]) && tf.deleted.contains(x) == t0.deleted.contains(x)) by {
            assert(x != id && !fl.contains(x) && !fr.contains(x));
        }
    }
    assert(tmp_inv(m, used0, tf, af));
    assert(items.len() != 1);
    assert forall|x: u32| #![trigger fresh.contains(x)] fresh.contains(x) implies !over_cap(c[x], cap) by {
        if x == id {} else if fl.contains(x) { assert(tnodes(a, nl).contains(x)); assert(c[x] == a[x]); } else { assert(fr.contains(x)); assert(tnodes(b, nr).contains(x)); assert(c[x] == b[x]); }
    }
}

// ---- the split loop of make_tree_in_file ---------------------------------------------------------------------------------
pub open spec fn sorted_strict(s: Seq<u32>) -> bool { forall|i: int, j: int| 0 <= i < j < s.len() ==> s[i] < s[j] }
/// state of the partition loop after `pos` ids of `sq` were distributed over the two vectors
pub open spec fn part_ok(cl: Seq<u32>, cr: Seq<u32>, sq: Seq<u32>, pos: int, nrm: VecV, leafs: &ImmutableLeafs) -> bool {
    &&& sorted_strict(cl) && sorted_strict(cr) && 0 <= pos <= sq.len()
    &&& (forall|x: u32| #![trigger cl.contains(x)] #![trigger cr.contains(x)] (cl.contains(x) || cr.contains(x)) <==> (exists|j: int| 0 <= j < pos && sq[j] == x))
    &&& (forall|i: int, j: int| 0 <= i < cl.len() && 0 <= j < cr.len() ==> cl[i] != cr[j])
    &&& (pos < sq.len() ==> (forall|i: int| 0 <= i < cl.len() ==> #[trigger] cl[i] < sq[pos]) && (forall|i: int| 0 <= i < cr.len() ==> #[trigger] cr[i] < sq[pos]))
    &&& (forall|i: int| 0 <= i < cl.len() ==> !(Dist::margin_sign(nrm, leafs.lv(#[trigger] cl[i])) > 0))
    &&& (forall|i: int| 0 <= i < cr.len() ==> !(Dist::margin_sign(nrm, leafs.lv(#[trigger] cr[i])) < 0))
}
pub proof fn lemma_part_step(cl0: Seq<u32>, cr0: Seq<u32>, cl1: Seq<u32>, cr1: Seq<u32>, sq: Seq<u32>, k: int, nrm: VecV, leafs: &ImmutableLeafs, x: u32)
    requires
        part_ok(cl0, cr0, sq, k, nrm, leafs), k < sq.len(), x == sq[k], sorted_strict(sq),
        (cl1 == cl0.push(x) && cr1 == cr0 && !(Dist::margin_sign(nrm, leafs.lv(x)) > 0)) || (cr1 == cr0.push(x) && cl1 == cl0 && !(Dist::margin_sign(nrm, leafs.lv(x)) < 0)),
    ensures part_ok(cl1, cr1, sq, k + 1, nrm, leafs)
{
    // x is new: every element so far is < x
    assert(!cl0.contains(x) && !cr0.contains(x)) by {
        if cl0.contains(x) { let i = choose|i: int| 0 <= i < cl0.len() && cl0[i] == x; assert(cl0[i] < sq[k]); }
        if cr0.contains(x) { let i = choose|i: int| 0 <= i < cr0.len() && cr0[i] == x; assert(cr0[i] < sq[k]); }
    }
    assert forall|y: u32| #![trigger cl1.contains(y)] #![trigger cr1.contains(y)] (cl1.contains(y) || cr1.contains(y)) implies (exists|j: int| 0 <= j < k + 1 && sq[j] == y) by {
        if y == x { assert(sq[k] == y); } else {
            assert(cl0.contains(y) || cr0.contains(y)) by {
                if cl1.contains(y) { let i = choose|i: int| 0 <= i < cl1.len() && cl1[i] == y; if i < cl0.len() { assert(cl0[i] == y); } }
                if cr1.contains(y) { let i = choose|i: int| 0 <= i < cr1.len() && cr1[i] == y; if i < cr0.len() { assert(cr0[i] == y); } }
            }
            let j = choose|j: int| 0 <= j < k && sq[j] == y; assert(sq[j] == y);
        }
    }
    assert forall|y: u32| (exists|j: int| 0 <= j < k + 1 && sq[j] == y) implies (cl1.contains(y) || cr1.contains(y)) by {
        let j = choose|j: int| 0 <= j < k + 1 && sq[j] == y;
        if j < k {
            assert(cl0.contains(y) || cr0.contains(y));
            if cl0.contains(y) { let i = choose|i: int| 0 <= i < cl0.len() && cl0[i] == y; assert(cl1[i] == y); }
            else { let i = choose|i: int| 0 <= i < cr0.len() && cr0[i] == y; assert(cr1[i] == y); }
        } else {
            if cl1 == cl0.push(x) { assert(cl1[cl0.len() as int] == x); } else { assert(cr1[cr0.len() as int] == x); }
        }
    }
    if k + 1 < sq.len() { assert(sq[k] < sq[k + 1]); }
}
/// what the loop hands over to the recursive calls
pub open spec fn split_ok(cl: Seq<u32>, cr: Seq<u32>, items: Set<u32>, nrm: VecV, leafs: &ImmutableLeafs) -> bool {
    &&& sorted_strict(cl) && sorted_strict(cr)
    &&& (forall|x: u32| #![trigger cl.contains(x)] #![trigger cr.contains(x)] #![trigger items.contains(x)] (cl.contains(x) || cr.contains(x)) <==> items.contains(x))
    &&& (forall|i: int, j: int| 0 <= i < cl.len() && 0 <= j < cr.len() ==> cl[i] != cr[j])
    &&& (forall|i: int| 0 <= i < cl.len() ==> !(Dist::margin_sign(nrm, leafs.lv(#[trigger] cl[i])) > 0))
    &&& (forall|i: int| 0 <= i < cr.len() ==> !(Dist::margin_sign(nrm, leafs.lv(#[trigger] cr[i])) < 0))
}
pub proof fn lemma_part_done(cl: Seq<u32>, cr: Seq<u32>, items: Set<u32>, nrm: VecV, leafs: &ImmutableLeafs)
    requires part_ok(cl, cr, bm_seq(items), bm_seq(items).len() as int, nrm, leafs)
    ensures split_ok(cl, cr, items, nrm, leafs)
{
    axiom_bm_seq(items);
    let sq = bm_seq(items);
    assert forall|x: u32| #![trigger cl.contains(x)] #![trigger cr.contains(x)] #![trigger items.contains(x)] (cl.contains(x) || cr.contains(x)) <==> items.contains(x) by {
        if cl.contains(x) || cr.contains(x) { let j = choose|j: int| 0 <= j < sq.len() && sq[j] == x; assert(items.contains(sq[j])); }
        if items.contains(x) { assert(sq.contains(x)); let j = choose|j: int| 0 <= j < sq.len() && sq[j] == x; assert(sq[j] == x); }
    }
}
