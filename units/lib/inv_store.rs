// ---- the item operations preserve the representation invariant of a built index (history induction of C01) -----------
// Each lemma takes as hypothesis the EXACT post-state that unit `store` (resp. `writer_scans`) proves for the operation.
/// add_item / append_item (Ok): the leaf and its updated mark are written. The new leaf has the common encoded length
/// (hypothesis: add_item rejects a vector whose length is not the declared dimension, and the encoded length of a leaf is a
/// function of the dimension — a codec fact, C16, not re-proved here)
pub proof fn lemma_inv_add(v0: DbView, v1: DbView, i: u16, cap: u64, id: u32, leaf: AVal)
    requires index_inv(v0, i, cap), v1 == v0.insert(ikey(i, id), leaf).insert(ukey(i, id), AVal::Unit), leaves_same_len(v1, i),
    ensures index_inv(v1, i, cap)
{
    assert(tmap(v1, i) =~= tmap(v0, i)) by {
        assert forall|x: u32| v1.contains_key(tkey(i, x)) == v0.contains_key(tkey(i, x)) && (v0.contains_key(tkey(i, x)) ==> v1[tkey(i, x)] == v0[tkey(i, x)]) by {
            assert(tkey(i, x) != ikey(i, id) && tkey(i, x) != ukey(i, id));
        }
    }
    assert(mkey(i) != ikey(i, id) && mkey(i) != ukey(i, id));
    assert forall|x: u32| #![trigger v1.contains_key(tkey(i, x))] v1.contains_key(tkey(i, x)) implies v1[tkey(i, x)] is Tree by { assert(tkey(i, x) != ikey(i, id) && tkey(i, x) != ukey(i, id)); assert(v0.contains_key(tkey(i, x))); }
    if v1.contains_key(mkey(i)) {
        assert forall|x: u32| #![trigger v1.contains_key(ikey(i, x))] !v1.contains_key(ukey(i, x)) implies (v1.contains_key(ikey(i, x)) <==> v1[mkey(i)]->Meta_0.items.contains(x)) by {
            assert(x != id);
            assert(ikey(i, x) != ikey(i, id) && ikey(i, x) != ukey(i, id) && ukey(i, x) != ukey(i, id) && ukey(i, x) != ikey(i, id));
            assert(!v0.contains_key(ukey(i, x)));
        }
    }
}
/// del_item (Ok(true)): the leaf is removed and the id is marked
pub proof fn lemma_inv_del(v0: DbView, v1: DbView, i: u16, cap: u64, id: u32)
    requires index_inv(v0, i, cap), v1 == v0.remove(ikey(i, id)).insert(ukey(i, id), AVal::Unit),
    ensures index_inv(v1, i, cap)
{
    assert(tmap(v1, i) =~= tmap(v0, i)) by {
        assert forall|x: u32| v1.contains_key(tkey(i, x)) == v0.contains_key(tkey(i, x)) && (v0.contains_key(tkey(i, x)) ==> v1[tkey(i, x)] == v0[tkey(i, x)]) by {
            assert(tkey(i, x) != ikey(i, id) && tkey(i, x) != ukey(i, id));
        }
    }
    assert(mkey(i) != ikey(i, id) && mkey(i) != ukey(i, id));
    assert forall|x: u32| #![trigger v1.contains_key(tkey(i, x))] v1.contains_key(tkey(i, x)) implies v1[tkey(i, x)] is Tree by { assert(tkey(i, x) != ikey(i, id) && tkey(i, x) != ukey(i, id)); assert(v0.contains_key(tkey(i, x))); }
    assert(leaves_same_len(v1, i)) by {
        assert forall|a: u32, b: u32, x: NodeBytes, y: NodeBytes| #![trigger x.aval(), y.aval(), ikey(i, a), ikey(i, b)]
            v1.contains_key(ikey(i, a)) && v1.contains_key(ikey(i, b)) && x.aval() == v1[ikey(i, a)] && y.aval() == v1[ikey(i, b)] implies x.blen() == y.blen() by {
            assert(ikey(i, a) != ukey(i, id) && ikey(i, b) != ukey(i, id));
            assert(v0.contains_key(ikey(i, a)) && v0[ikey(i, a)] == v1[ikey(i, a)]);
            assert(v0.contains_key(ikey(i, b)) && v0[ikey(i, b)] == v1[ikey(i, b)]);
        }
    }
    if v1.contains_key(mkey(i)) {
        assert forall|x: u32| #![trigger v1.contains_key(ikey(i, x))] !v1.contains_key(ukey(i, x)) implies (v1.contains_key(ikey(i, x)) <==> v1[mkey(i)]->Meta_0.items.contains(x)) by {
            assert(x != id);
            assert(ikey(i, x) != ikey(i, id) && ikey(i, x) != ukey(i, id) && ukey(i, x) != ukey(i, id) && ukey(i, x) != ikey(i, id));
            assert(!v0.contains_key(ukey(i, x)));
        }
    }
}
/// clear (Ok): nothing of the index is left; prepare_changing_distance to another metric: metadata and trees are gone,
/// items are re-encoded in place (same key set): in both cases the invariant holds on its "no metadata" branch
pub proof fn lemma_inv_no_forest(v1: DbView, i: u16, cap: u64)
    requires !v1.contains_key(mkey(i)), forall|x: u32| !v1.contains_key(tkey(i, x)), leaves_same_len(v1, i),
    ensures index_inv(v1, i, cap)
{
}
/// an operation that is rejected or reports "nothing to do" leaves the view, hence the invariant, unchanged (C19)
pub proof fn lemma_inv_unchanged(v0: DbView, v1: DbView, i: u16, cap: u64)
    requires index_inv(v0, i, cap), v1 == v0
    ensures index_inv(v1, i, cap)
{
}
/// an operation on another index leaves the invariant of this one unchanged (C07)
pub proof fn lemma_inv_other_index(v0: DbView, v1: DbView, i: u16, j: u16, cap: u64)
    requires index_inv(v0, i, cap), i != j, same_except(v0, v1, j, true, true, true, true)
    ensures index_inv(v1, i, cap)
{
    assert(tmap(v1, i) =~= tmap(v0, i)) by {
        assert forall|x: u32| v1.contains_key(tkey(i, x)) == v0.contains_key(tkey(i, x)) && (v0.contains_key(tkey(i, x)) ==> v1[tkey(i, x)] == v0[tkey(i, x)]) by {
            assert(v0.contains_key(tkey(i, x)) == v1.contains_key(tkey(i, x)));
        }
    }
    assert(v0.contains_key(mkey(i)) == v1.contains_key(mkey(i)));
    assert forall|x: u32| #![trigger v1.contains_key(tkey(i, x))] v1.contains_key(tkey(i, x)) implies v1[tkey(i, x)] is Tree by { assert(v0.contains_key(tkey(i, x)) == v1.contains_key(tkey(i, x))); }
    assert(leaves_same_len(v1, i)) by {
        assert forall|a: u32, b: u32, x: NodeBytes, y: NodeBytes| #![trigger x.aval(), y.aval(), ikey(i, a), ikey(i, b)]
            v1.contains_key(ikey(i, a)) && v1.contains_key(ikey(i, b)) && x.aval() == v1[ikey(i, a)] && y.aval() == v1[ikey(i, b)] implies x.blen() == y.blen() by {
            assert(v0.contains_key(ikey(i, a)) == v1.contains_key(ikey(i, a))); assert(v0.contains_key(ikey(i, b)) == v1.contains_key(ikey(i, b)));
            assert(v0[ikey(i, a)] == v1[ikey(i, a)]); assert(v0[ikey(i, b)] == v1[ikey(i, b)]);
        }
    }
    if v1.contains_key(mkey(i)) {
        assert forall|x: u32| #![trigger v1.contains_key(ikey(i, x))] !v1.contains_key(ukey(i, x)) implies (v1.contains_key(ikey(i, x)) <==> v1[mkey(i)]->Meta_0.items.contains(x)) by {
            assert(v0.contains_key(ukey(i, x)) == v1.contains_key(ukey(i, x))); assert(v0.contains_key(ikey(i, x)) == v1.contains_key(ikey(i, x)));
        }
    }
}
