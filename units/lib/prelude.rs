// ---------------------------------------------------------------------------------------------
// Stand-in prelude (hand written, TRUSTED): types of arroy's dependencies and of arroy's own data
// carriers, with *assumed* contracts (DESIGN.md §2.4). No function of /repo is re-implemented here:
// every arroy function that a property depends on is extracted from /repo at run time.
// ---------------------------------------------------------------------------------------------
// the checks are for the 64-bit targets the crate is built for here (usize == u64)
global size_of usize == 8;

pub type ItemId = u32;
pub assume_specification<T>[core::mem::drop::<T>](x: T);
pub assume_specification<T, U, F: FnOnce(T) -> U>[Option::<T>::map_or](o: Option<T>, default: U, f: F) -> (r: U)
    requires o matches Some(x) ==> f.requires((x,)),
    ensures match o { Some(x) => f.ensures((x,), r), None => r == default };

#[derive(Copy, Clone, PartialEq, Eq, Structural)]
pub enum NodeMode { Metadata, Updated, Tree, Item }

#[derive(Copy, Clone, PartialEq, Eq, Structural)]
pub struct NodeId { pub mode: NodeMode, pub item: ItemId }

#[derive(Copy, Clone)]
pub struct Key { pub index: u16, pub node: NodeId, pub _padding: u8 }

#[derive(Copy, Clone)]
pub struct Prefix { pub index: u16, pub mode: Option<NodeMode> }

/// Abstract key: what the 8 key bytes denote (Kani unit `key_layout` proves the byte codec is a
/// bijection onto these triples and that byte order = lexicographic (index, kind, id) order).
pub struct AKey { pub index: u16, pub kind: NodeMode, pub id: u32 }

pub open spec fn kind_rank(k: NodeMode) -> int {
    match k { NodeMode::Metadata => 0, NodeMode::Updated => 1, NodeMode::Tree => 2, NodeMode::Item => 3 }
}
pub open spec fn akey_lt(a: AKey, b: AKey) -> bool {
    a.index < b.index || (a.index == b.index && (kind_rank(a.kind) < kind_rank(b.kind)
        || (a.kind == b.kind && a.id < b.id)))
}
impl NodeMode { pub fn rank_(&self) -> (r: u8) ensures r == kind_rank(*self) { match self { NodeMode::Metadata => 0, NodeMode::Updated => 1, NodeMode::Tree => 2, NodeMode::Item => 3 } } }
/// NodeMode derives PartialOrd/Ord in the real code (declaration order = discriminant order 0..3)
impl PartialOrd for NodeMode {
    fn partial_cmp(&self, other: &NodeMode) -> (r: Option<core::cmp::Ordering>) {
        let (a, b) = (self.rank_(), other.rank_());
        if a < b { Some(core::cmp::Ordering::Less) } else if a == b { Some(core::cmp::Ordering::Equal) } else { Some(core::cmp::Ordering::Greater) }
    }
}
impl vstd::std_specs::cmp::PartialOrdSpecImpl for NodeMode {
    open spec fn obeys_partial_cmp_spec() -> bool { true }
    open spec fn partial_cmp_spec(&self, other: &NodeMode) -> Option<core::cmp::Ordering> {
        if kind_rank(*self) < kind_rank(*other) { Some(core::cmp::Ordering::Less) } else if kind_rank(*self) == kind_rank(*other) { Some(core::cmp::Ordering::Equal) } else { Some(core::cmp::Ordering::Greater) }
    }
}
impl Key {
    pub open spec fn a(&self) -> AKey { AKey { index: self.index, kind: self.node.mode, id: self.node.item } }
}
impl Prefix {
    pub open spec fn matches(&self, k: AKey) -> bool {
        k.index == self.index && match self.mode { Some(m) => k.kind == m, None => true }
    }
}
pub open spec fn akey(index: u16, kind: NodeMode, id: u32) -> AKey { AKey { index, kind, id } }

// ---- metric abstraction: one uninterpreted metric `Dist` (rule R1) ---------------------------
#[verifier::external_body]
pub struct Header { x: u8 }
#[verifier::external_body]
pub struct HeaderV { x: u8 }   // ghost value of a header
#[verifier::external_body]
pub struct VecV { x: u8 }      // ghost value of the stored vector bytes
impl Header { pub uninterp spec fn hv(&self) -> HeaderV; }

/// Stand-in for Cow<UnalignedVector<Codec>> (rule R3: Cow is value-transparent)
#[verifier::external_body]
pub struct UVec { x: Vec<u8> }
impl UVec {
    pub uninterp spec fn vv(&self) -> VecV;
    #[verifier::external_body]
    pub fn to_vec(&self) -> (r: Vec<f32>) ensures r@ == Dist::dec(self.vv()) { unimplemented!() }
    #[verifier::external_body]
    pub fn len(&self) -> (r: usize) ensures r == Dist::dec(self.vv()).len() { unimplemented!() }
    #[verifier::external_body]
    pub fn is_zero(&self) -> (r: bool) ensures r == Dist::vzero(self.vv()) { unimplemented!() }
    #[verifier::external_body]
    pub fn clone(&self) -> (r: UVec) ensures r.vv() == self.vv() { unimplemented!() }
    /// the decoded components, in order
    #[verifier::external_body]
    pub fn iter(&self) -> (r: UVecIter) { unimplemented!() }
}
/// `UnalignedVector::iter()`: only what a comparison of two of them can tell is modelled, and that is nothing about the stored
/// bytes: `Iterator::eq` is IEEE equality of the components (0.0 == -0.0, NaN != NaN), not identity of the encodings
pub struct UVecIter { x: u8 }
impl UVecIter {
    #[verifier::external_body]
    pub fn eq(self, other: UVecIter) -> (r: bool) { unimplemented!() }
    #[verifier::external_body]
    pub fn ne(self, other: UVecIter) -> (r: bool) { unimplemented!() }
}
pub struct UnalignedVector { }
impl UnalignedVector {
    #[verifier::external_body]
    pub fn from_slice(slice: &[f32]) -> (r: UVec) ensures r.vv() == Dist::enc(slice@) { unimplemented!() }
    #[verifier::external_body]
    pub fn from_vec(vec: Vec<f32>) -> (r: UVec) ensures r.vv() == Dist::enc(vec@) { unimplemented!() }
    #[verifier::external_body]
    pub fn reset(vector: &mut UVec) ensures Dist::vzero(final(vector).vv()) { unimplemented!() }
}

pub struct Dist { }
pub struct Name { pub id: u8 }
impl Name {
    pub fn to_owned(&self) -> (r: Name) ensures r == *self { Name { id: self.id } }
}
impl PartialEq for Name {
    fn eq(&self, other: &Name) -> (r: bool) { self.id == other.id }
}
impl vstd::std_specs::cmp::PartialEqSpecImpl for Name {
    open spec fn obeys_eq_spec() -> bool { true }
    open spec fn eq_spec(&self, other: &Name) -> bool { self.id == other.id }
}
impl Dist {
    pub uninterp spec fn enc(v: Seq<f32>) -> VecV;       // vector codec: f32 slice -> stored bytes
    pub uninterp spec fn dec(v: VecV) -> Seq<f32>;       // stored bytes -> f32s (padded for quantised codecs)
    pub uninterp spec fn vzero(v: VecV) -> bool;
    pub uninterp spec fn new_header_spec(v: VecV) -> HeaderV;
    pub uninterp spec fn name_spec() -> Name;
    pub uninterp spec fn default_oversampling() -> usize;
    #[verifier::external_body]
    pub fn new_header(vector: &UVec) -> (r: Header) ensures r.hv() == Dist::new_header_spec(vector.vv()) { unimplemented!() }
    #[verifier::external_body]
    pub fn name() -> (r: Name) ensures r == Dist::name_spec() { unimplemented!() }
}

// ---- nodes -----------------------------------------------------------------------------------
pub struct Leaf { pub header: Header, pub vector: UVec }
pub struct Descendants { pub descendants: RoaringBitmap }
pub struct SplitPlaneNormal { pub left: NodeId, pub right: NodeId, pub normal: UVec }
pub enum Node { Leaf(Leaf), Descendants(Descendants), SplitPlaneNormal(SplitPlaneNormal) }

pub struct LeafV { pub header: HeaderV, pub vector: VecV }
pub enum TNode { Desc(Set<u32>), Split(NodeId, NodeId, VecV) }
pub struct MetaV { pub dimensions: u32, pub items: Set<u32>, pub roots: Seq<u32>, pub distance: Name }

/// Abstract value stored under a key
pub enum AVal { Unit, Leaf(LeafV), Tree(TNode), Meta(MetaV), Version(u32, u32, u32), /* v0.4 pending-updates bitmap */ Ids(Set<u32>) }

impl Node {
    pub open spec fn aval(&self) -> AVal {
        match self {
            Node::Leaf(l) => AVal::Leaf(LeafV { header: l.header.hv(), vector: l.vector.vv() }),
            Node::Descendants(d) => AVal::Tree(TNode::Desc(d.descendants@)),
            Node::SplitPlaneNormal(s) => AVal::Tree(TNode::Split(s.left, s.right, s.normal.vv())),
        }
    }
    pub fn leaf(self) -> (r: Option<Leaf>)
        ensures match self { Node::Leaf(l) => r == Some(l), _ => r is None }
    {
        if let Node::Leaf(leaf) = self { Some(leaf) } else { None }
    }
}

// ---- roaring::RoaringBitmap = finite Set<u32> ---------------------------------------------------
#[verifier::external_body]
pub struct RoaringBitmap { inner: Vec<u32> }
impl View for RoaringBitmap { type V = Set<u32>; uninterp spec fn view(&self) -> Set<u32>; }

pub open spec fn set_max(s: Set<u32>, m: u32) -> bool { s.contains(m) && forall|x: u32| s.contains(x) ==> x <= m }
pub open spec fn set_min(s: Set<u32>, m: u32) -> bool { s.contains(m) && forall|x: u32| s.contains(x) ==> m <= x }

impl RoaringBitmap {
    #[verifier::external_body]
    pub fn new() -> (r: Self) ensures r@ == Set::<u32>::empty() { unimplemented!() }
    #[verifier::external_body]
    pub fn len(&self) -> (r: u64) ensures r == self@.len(), r <= 0x1_0000_0000 { unimplemented!() }
    #[verifier::external_body]
    pub fn contains(&self, x: u32) -> (r: bool) ensures r == self@.contains(x) { unimplemented!() }
    #[verifier::external_body]
    pub fn is_empty(&self) -> (r: bool) ensures r == (self@ =~= Set::<u32>::empty()), r == (self@.len() == 0) { unimplemented!() }
    #[verifier::external_body]
    pub fn insert(&mut self, x: u32) -> (r: bool) ensures final(self)@ == old(self)@.insert(x), r == !old(self)@.contains(x) { unimplemented!() }
    /// push appends only above the current maximum (returns false and does nothing otherwise)
    #[verifier::external_body]
    pub fn push(&mut self, x: u32) -> (r: bool)
        ensures r == (forall|y: u32| old(self)@.contains(y) ==> y < x),
            r ==> final(self)@ == old(self)@.insert(x), !r ==> final(self)@ == old(self)@ { unimplemented!() }
    #[verifier::external_body]
    pub fn remove(&mut self, x: u32) -> (r: bool) ensures final(self)@ == old(self)@.remove(x), r == old(self)@.contains(x) { unimplemented!() }
    #[verifier::external_body]
    pub fn clear(&mut self) ensures final(self)@ == Set::<u32>::empty() { unimplemented!() }
    #[verifier::external_body]
    pub fn clone(&self) -> (r: RoaringBitmap) ensures r@ == self@ { unimplemented!() }
    #[verifier::external_body]
    pub fn min(&self) -> (r: Option<u32>) ensures match r { Some(m) => set_min(self@, m), None => self@ =~= Set::<u32>::empty() } { unimplemented!() }
    #[verifier::external_body]
    pub fn max(&self) -> (r: Option<u32>) ensures match r { Some(m) => set_max(self@, m), None => self@ =~= Set::<u32>::empty() } { unimplemented!() }
    // rule R4 targets
    #[verifier::external_body]
    pub fn sub_assign_(&mut self, other: &RoaringBitmap) ensures final(self)@ == old(self)@.difference(other@) { unimplemented!() }
    #[verifier::external_body]
    pub fn or_assign_(&mut self, other: &RoaringBitmap) ensures final(self)@ == old(self)@.union(other@) { unimplemented!() }
    // rule R7 targets
    #[verifier::external_body]
    pub fn singleton_(x: u32) -> (r: RoaringBitmap) ensures r@ == set![x] { unimplemented!() }
}
#[verifier::external_body]
pub fn bitor_(a: &RoaringBitmap, b: &RoaringBitmap) -> (r: RoaringBitmap) ensures r@ == a@.union(b@) { unimplemented!() }
#[verifier::external_body]
pub fn bitand_(a: &RoaringBitmap, b: &RoaringBitmap) -> (r: RoaringBitmap) ensures r@ == a@.intersect(b@) { unimplemented!() }
// rule R3 targets
pub fn cow_owned<T>(x: T) -> (r: T) ensures r == x { x }
pub fn cow_borrowed(x: &RoaringBitmap) -> (r: RoaringBitmap) ensures r@ == x@ { x.clone() }

// ---- errors (rule R10) ---------------------------------------------------------------------------
// heed::Error, std::io::Error and arroy::Error are ONE stand-in sum type: Verus gives `?` with a
// `From` conversion no usable postcondition, so the thiserror-derived conversions
// (`Heed(#[from] heed::Error)`, `Io(#[from] io::Error)`) are built into the stand-ins: every heed
// stand-in fails with `Error::Heed(_)`, every file-system stand-in with `Error::Io`.
pub enum MdbError { KeyExist, MapFull, Other }
pub enum HeedError { Io, Mdb(MdbError), Encoding, Decoding, Other }
/// `Result::unwrap` needs `E: Debug` to type-check (a change that unwraps a fallible call must reach the verifier, which then rejects the unwrap)
#[verifier::external]
impl core::fmt::Debug for Error { fn fmt(&self, f: &mut core::fmt::Formatter<'_>) -> core::fmt::Result { Ok(()) } }
#[allow(inconsistent_fields)]
pub enum Error {
    Heed(HeedError),
    Io,
    InvalidVecDimension { expected: usize, received: usize },
    DatabaseFull,
    InvalidItemAppend,
    UnmatchingDistance { expected: Name, received: Name },
    MissingMetadata(u16),
    NeedBuild(u16),
    BuildCancelled,
    MissingKey { index: u16, mode: NodeMode, item: ItemId },
    CannotDecodeKeyMode { mode: NodeMode },
}
pub mod heed {
    pub type Error = super::Error;
    pub type Result<T> = core::result::Result<T, super::Error>;
}
impl Error {
    pub fn missing_key(key: Key) -> (r: Error)
        ensures r == (Error::MissingKey { index: key.index, mode: key.node.mode, item: key.node.item })
    { Error::MissingKey { index: key.index, mode: key.node.mode, item: key.node.item } }
}
/// every error a heed stand-in returns is a heed error
pub open spec fn is_heed<T>(r: core::result::Result<T, Error>) -> bool { r matches Err(e) ==> e is Heed }
pub type Result<T, E = Error> = core::result::Result<T, E>;

// ---- LMDB via heed: a transaction is a finite map AKey -> AVal ---------------------------------
// RoTxn and RwTxn are one stand-in type (the real code relies on Deref<Target = RoTxn>; read-only
// vs read-write is checked by rustc on the real code, not here).
#[verifier::external_body]
pub struct Txn { x: u8 }
pub type RoTxn = Txn;
pub type RwTxn = Txn;
pub type DbView = Map<AKey, AVal>;
impl Txn {
    pub uninterp spec fn view(&self) -> DbView;
    /// "a cursor read on this transaction can fail" (I/O or corruption); point reads report their own errors
    pub uninterp spec fn read_faulty(&self) -> bool;
}
pub fn transpose_<T>(x: Option<heed::Result<T>>) -> (r: heed::Result<Option<T>>)
    ensures match x { None => r == Ok::<Option<T>, heed::Error>(None), Some(Ok(v)) => r == Ok::<Option<T>, heed::Error>(Some(v)), Some(Err(e)) => r == Err::<Option<T>, heed::Error>(e) }
{
    match x { None => Ok(None), Some(Ok(v)) => Ok(Some(v)), Some(Err(e)) => Err(e) }
}
/// `Option::<Result<T, E>>::transpose` where rule R6a did not apply (a `.next()` at the end of a method chain)
pub assume_specification<T, E>[core::option::Option::<core::result::Result<T, E>>::transpose](x: Option<core::result::Result<T, E>>) -> (r: core::result::Result<Option<T>, E>)
    ensures match x { None => r == Ok::<Option<T>, E>(None), Some(Ok(v)) => r == Ok::<Option<T>, E>(Some(v)), Some(Err(e)) => r == Err::<Option<T>, E>(e) };
/// rule R7 target for `.map(|opt| opt.is_some()).map_err(Into::into)`
pub fn map_is_some_into_(x: heed::Result<Option<()>>) -> (r: Result<bool>)
    ensures match x { Ok(o) => r == Ok::<bool, Error>(o is Some), Err(e) => r == Err::<bool, Error>(e) }
{
    match x { Ok(o) => Ok(o.is_some()), Err(e) => Err(e) }
}

pub open spec fn other_indexes_unchanged(a: DbView, b: DbView, i: u16) -> bool {
    forall|k: AKey| k.index != i ==> (#[trigger] a.contains_key(k) == b.contains_key(k) && (a.contains_key(k) ==> a[k] == b[k]))
}

// ---- key selections: prefixes and ranges ---------------------------------------------------------
pub enum Bound { Unbounded, Incl(AKey), Excl(AKey) }
pub enum Sel { Pre(Prefix), Rng(Bound, Bound) }
pub open spec fn akey_le(a: AKey, b: AKey) -> bool { !akey_lt(b, a) }
impl Sel {
    pub open spec fn has(self, k: AKey) -> bool {
        match self {
            Sel::Pre(p) => p.matches(k),
            Sel::Rng(lo, hi) =>
                (match lo { Bound::Unbounded => true, Bound::Incl(a) => akey_le(a, k), Bound::Excl(a) => akey_lt(a, k) })
                && (match hi { Bound::Unbounded => true, Bound::Incl(b) => akey_le(k, b), Bound::Excl(b) => akey_lt(k, b) }),
        }
    }
}
/// std ranges over `Key` as heed accepts them (`RangeBounds<Key>`)
pub trait KeyRange { spec fn sel(&self) -> Sel; }
impl KeyRange for core::ops::Range<Key> { open spec fn sel(&self) -> Sel { Sel::Rng(Bound::Incl(self.start.a()), Bound::Excl(self.end.a())) } }
impl KeyRange for core::ops::RangeInclusive<Key> { open spec fn sel(&self) -> Sel { Sel::Rng(Bound::Incl(self@.start.a()), Bound::Incl(self@.end.a())) } }
impl KeyRange for core::ops::RangeFrom<Key> { open spec fn sel(&self) -> Sel { Sel::Rng(Bound::Incl(self.start.a()), Bound::Unbounded) } }
impl KeyRange for core::ops::RangeTo<Key> { open spec fn sel(&self) -> Sel { Sel::Rng(Bound::Unbounded, Bound::Excl(self.end.a())) } }
impl KeyRange for core::ops::RangeToInclusive<Key> { open spec fn sel(&self) -> Sel { Sel::Rng(Bound::Unbounded, Bound::Incl(self.end.a())) } }
impl KeyRange for core::ops::RangeFull { open spec fn sel(&self) -> Sel { Sel::Rng(Bound::Unbounded, Bound::Unbounded) } }

/// `keys` is exactly the listing (ascending, or descending when `rev`) of the keys of `v` selected by `s`
pub open spec fn is_listing_dir(v: DbView, s: Sel, keys: Seq<AKey>, rev: bool) -> bool {
    (forall|i: int, j: int| 0 <= i < j < keys.len() ==> if rev { akey_lt(keys[j], keys[i]) } else { akey_lt(keys[i], keys[j]) })
    && (forall|i: int| 0 <= i < keys.len() ==> v.contains_key(#[trigger] keys[i]) && s.has(keys[i]))
    && (forall|k: AKey| #[trigger] v.contains_key(k) && s.has(k) ==> keys.contains(k))
}
pub open spec fn is_listing(v: DbView, p: Prefix, keys: Seq<AKey>) -> bool { is_listing_dir(v, Sel::Pre(p), keys, false) }

pub struct PutFlags { pub append: bool }
impl PutFlags {
    pub const APPEND: PutFlags = PutFlags { append: true };
    pub fn empty() -> (r: PutFlags) ensures !r.append { PutFlags { append: false } }
}

pub struct Metadata { pub dimensions: u32, pub items: RoaringBitmap, pub roots: ItemIds, pub distance: Name }
impl Metadata {
    pub open spec fn mv(&self) -> MetaV { MetaV { dimensions: self.dimensions, items: self.items@, roots: self.roots@, distance: self.distance } }
}
pub struct Version { pub major: u32, pub minor: u32, pub patch: u32 }

#[verifier::external_body]
pub struct ItemIds { x: Vec<u32> }
impl View for ItemIds { type V = Seq<u32>; uninterp spec fn view(&self) -> Seq<u32>; }
impl ItemIds {
    #[verifier::external_body]
    pub fn from_slice(slice: &[u32]) -> (r: ItemIds) ensures r@ == slice@ { unimplemented!() }
    #[verifier::external_body]
    pub fn len(&self) -> (r: usize) ensures r == self@.len(), r <= usize::MAX / 4 { unimplemented!() }
    /// rule R7: `roots.iter().collect()`
    #[verifier::external_body]
    pub fn to_vec_(&self) -> (r: Vec<u32>) ensures r@ == self@ { unimplemented!() }
}

/// Encoded bytes of a tree node or leaf (what TmpNodes stage and what the frozen readers map)
#[verifier::external_body]
pub struct NodeBytes { x: Vec<u8> }
impl NodeBytes {
    pub uninterp spec fn aval(&self) -> AVal;
    /// encoded length (used by ImmutableLeafs::new: all leaves of an index have the same length)
    pub uninterp spec fn blen(&self) -> usize;
}

// ---- heed type-state: data codecs (key codecs carry no information here: every key is a `Key`) ----
pub trait DataCodec {
    type EItem;
    type DItem;
    spec fn enc_val(e: &Self::EItem) -> AVal;
    spec fn dec_ok(d: &Self::DItem, a: AVal) -> bool;
}
pub struct Unit {}
pub struct DecodeIgnore {}
pub struct Bytes {}
pub struct MetadataCodec {}
pub struct VersionCodec {}
pub struct NodeCodec {}
pub struct KeyCodec {}
pub struct PrefixCodec {}
impl DataCodec for Unit { type EItem = (); type DItem = ();
    open spec fn enc_val(e: &()) -> AVal { AVal::Unit } open spec fn dec_ok(d: &(), a: AVal) -> bool { true } }
impl DataCodec for DecodeIgnore { type EItem = (); type DItem = ();
    open spec fn enc_val(e: &()) -> AVal { AVal::Unit } open spec fn dec_ok(d: &(), a: AVal) -> bool { true } }
impl DataCodec for Bytes { type EItem = NodeBytes; type DItem = NodeBytes;
    open spec fn enc_val(e: &NodeBytes) -> AVal { e.aval() } open spec fn dec_ok(d: &NodeBytes, a: AVal) -> bool { d.aval() == a } }
impl DataCodec for MetadataCodec { type EItem = Metadata; type DItem = Metadata;
    open spec fn enc_val(e: &Metadata) -> AVal { AVal::Meta(e.mv()) } open spec fn dec_ok(d: &Metadata, a: AVal) -> bool { a == AVal::Meta(d.mv()) } }
impl DataCodec for VersionCodec { type EItem = Version; type DItem = Version;
    open spec fn enc_val(e: &Version) -> AVal { AVal::Version(e.major, e.minor, e.patch) } open spec fn dec_ok(d: &Version, a: AVal) -> bool { a == AVal::Version(d.major, d.minor, d.patch) } }
impl DataCodec for NodeCodec { type EItem = Node; type DItem = Node;
    open spec fn enc_val(e: &Node) -> AVal { e.aval() } open spec fn dec_ok(d: &Node, a: AVal) -> bool { d.aval() == a } }

pub struct DatabaseG<DC> { pub x: u8, pub _m: core::marker::PhantomData<DC> }
impl<DC> Clone for DatabaseG<DC> { fn clone(&self) -> Self { DatabaseG { x: self.x, _m: core::marker::PhantomData } } }
impl<DC> Copy for DatabaseG<DC> {}
pub type Database = DatabaseG<NodeCodec>;

pub open spec fn put_post<T>(r: heed::Result<T>, old: DbView, new: DbView, k: AKey, v: AVal) -> bool {
    is_heed(r) && match r { Ok(_) => new == old.insert(k, v), Err(_) => new == old }
}

impl<DC: DataCodec> DatabaseG<DC> {
    pub fn remap_data_type<DC2: DataCodec>(&self) -> (r: DatabaseG<DC2>) { DatabaseG { x: self.x, _m: core::marker::PhantomData } }
    pub fn remap_key_type<KC>(&self) -> (r: DatabaseG<DC>) { DatabaseG { x: self.x, _m: core::marker::PhantomData } }
    pub fn remap_types<KC, DC2: DataCodec>(&self) -> (r: DatabaseG<DC2>) { DatabaseG { x: self.x, _m: core::marker::PhantomData } }
    // -- point reads / writes
    #[verifier::external_body]
    pub fn get(&self, rtxn: &Txn, key: &Key) -> (r: heed::Result<Option<DC::DItem>>)
        ensures is_heed(r), match r {
            Ok(Some(n)) => rtxn.view().contains_key(key.a()) && DC::dec_ok(&n, rtxn.view()[key.a()]),
            Ok(None) => !rtxn.view().contains_key(key.a()),
            Err(_) => true }
    { unimplemented!() }
    /// the entry with the least key >= `key` (heed: MDB_SET_RANGE)
    #[verifier::external_body]
    pub fn get_greater_than_or_equal_to(&self, rtxn: &Txn, key: &Key) -> (r: heed::Result<Option<(Key, DC::DItem)>>)
        ensures is_heed(r), match r {
            Ok(Some((k, n))) => rtxn.view().contains_key(k.a()) && k._padding == 0 && akey_le(key.a(), k.a()) && DC::dec_ok(&n, rtxn.view()[k.a()])
                && (forall|o: AKey| #![trigger rtxn.view().contains_key(o)] rtxn.view().contains_key(o) && akey_le(key.a(), o) ==> akey_le(k.a(), o)),
            Ok(None) => forall|o: AKey| #![trigger rtxn.view().contains_key(o)] rtxn.view().contains_key(o) ==> !akey_le(key.a(), o),
            Err(_) => true }
    { unimplemented!() }
    /// the entry with the least key > `key`
    #[verifier::external_body]
    pub fn get_greater_than(&self, rtxn: &Txn, key: &Key) -> (r: heed::Result<Option<(Key, DC::DItem)>>)
        ensures is_heed(r), match r {
            Ok(Some((k, n))) => rtxn.view().contains_key(k.a()) && k._padding == 0 && akey_lt(key.a(), k.a()) && DC::dec_ok(&n, rtxn.view()[k.a()])
                && (forall|o: AKey| #![trigger rtxn.view().contains_key(o)] rtxn.view().contains_key(o) && akey_lt(key.a(), o) ==> akey_le(k.a(), o)),
            Ok(None) => forall|o: AKey| #![trigger rtxn.view().contains_key(o)] rtxn.view().contains_key(o) ==> !akey_lt(key.a(), o),
            Err(_) => true }
    { unimplemented!() }
    /// the entry with the greatest key <= `key`
    #[verifier::external_body]
    pub fn get_lower_than_or_equal_to(&self, rtxn: &Txn, key: &Key) -> (r: heed::Result<Option<(Key, DC::DItem)>>)
        ensures is_heed(r), match r {
            Ok(Some((k, n))) => rtxn.view().contains_key(k.a()) && k._padding == 0 && akey_le(k.a(), key.a()) && DC::dec_ok(&n, rtxn.view()[k.a()])
                && (forall|o: AKey| #![trigger rtxn.view().contains_key(o)] rtxn.view().contains_key(o) && akey_le(o, key.a()) ==> akey_le(o, k.a())),
            Ok(None) => forall|o: AKey| #![trigger rtxn.view().contains_key(o)] rtxn.view().contains_key(o) ==> !akey_le(o, key.a()),
            Err(_) => true }
    { unimplemented!() }
    /// the entry with the greatest key < `key`
    #[verifier::external_body]
    pub fn get_lower_than(&self, rtxn: &Txn, key: &Key) -> (r: heed::Result<Option<(Key, DC::DItem)>>)
        ensures is_heed(r), match r {
            Ok(Some((k, n))) => rtxn.view().contains_key(k.a()) && k._padding == 0 && akey_lt(k.a(), key.a()) && DC::dec_ok(&n, rtxn.view()[k.a()])
                && (forall|o: AKey| #![trigger rtxn.view().contains_key(o)] rtxn.view().contains_key(o) && akey_lt(o, key.a()) ==> akey_le(o, k.a())),
            Ok(None) => forall|o: AKey| #![trigger rtxn.view().contains_key(o)] rtxn.view().contains_key(o) ==> !akey_lt(o, key.a()),
            Err(_) => true }
    { unimplemented!() }
    #[verifier::external_body]
    pub fn put(&self, wtxn: &mut Txn, key: &Key, v: &DC::EItem) -> (r: heed::Result<()>)
        ensures put_post(r, old(wtxn).view(), final(wtxn).view(), key.a(), DC::enc_val(v))
    { unimplemented!() }
    /// MDB_APPEND: fails with KeyExist iff the key is not greater than every key of the database
    #[verifier::external_body]
    pub fn put_with_flags(&self, wtxn: &mut Txn, flags: PutFlags, key: &Key, v: &DC::EItem) -> (r: heed::Result<()>)
        ensures is_heed(r),
            match r { Ok(_) => final(wtxn).view() == old(wtxn).view().insert(key.a(), DC::enc_val(v)), Err(_) => final(wtxn).view() == old(wtxn).view() },
            flags.append ==> ((r matches Err(Error::Heed(HeedError::Mdb(MdbError::KeyExist))))
                <==> exists|k: AKey| old(wtxn).view().contains_key(k) && !akey_lt(k, key.a())),
            !flags.append ==> !(r matches Err(Error::Heed(HeedError::Mdb(MdbError::KeyExist)))),
    { unimplemented!() }
    #[verifier::external_body]
    pub fn delete(&self, wtxn: &mut Txn, key: &Key) -> (r: heed::Result<bool>)
        ensures is_heed(r), match r {
            Ok(b) => b == old(wtxn).view().contains_key(key.a()) && final(wtxn).view() == old(wtxn).view().remove(key.a()),
            Err(_) => final(wtxn).view() == old(wtxn).view() }
    { unimplemented!() }
    #[verifier::external_body]
    pub fn delete_range<R: KeyRange>(&self, wtxn: &mut Txn, range: &R) -> (r: heed::Result<usize>)
        ensures is_heed(r), match r {
            Ok(_) => forall|k: AKey| (#[trigger] final(wtxn).view().contains_key(k) ==
                    (old(wtxn).view().contains_key(k) && !range.sel().has(k)))
                && (final(wtxn).view().contains_key(k) ==> final(wtxn).view()[k] == old(wtxn).view()[k]),
            Err(_) => final(wtxn).view() == old(wtxn).view() }
    { unimplemented!() }
    #[verifier::external_body]
    pub fn clear(&self, wtxn: &mut Txn) -> (r: heed::Result<()>)
        ensures is_heed(r), r is Ok ==> final(wtxn).view() == Map::<AKey, AVal>::empty(), r is Err ==> final(wtxn).view() == old(wtxn).view()
    { unimplemented!() }
    #[verifier::external_body]
    pub fn len(&self, rtxn: &Txn) -> (r: heed::Result<u64>)
        ensures is_heed(r), r matches Ok(n) ==> n == rtxn.view().dom().len()
    { unimplemented!() }
    #[verifier::external_body]
    pub fn is_empty(&self, rtxn: &Txn) -> (r: heed::Result<bool>)
        ensures is_heed(r), r matches Ok(b) ==> b == (rtxn.view().dom().len() == 0)
    { unimplemented!() }
    /// the entry with the least key of the whole database
    #[verifier::external_body]
    pub fn first(&self, rtxn: &Txn) -> (r: heed::Result<Option<(Key, DC::DItem)>>)
        ensures is_heed(r), match r {
            Ok(Some((k, n))) => rtxn.view().contains_key(k.a()) && k._padding == 0 && DC::dec_ok(&n, rtxn.view()[k.a()])
                && (forall|o: AKey| #![trigger rtxn.view().contains_key(o)] rtxn.view().contains_key(o) ==> akey_le(k.a(), o)),
            Ok(None) => forall|o: AKey| #![trigger rtxn.view().contains_key(o)] !rtxn.view().contains_key(o),
            Err(_) => true }
    { unimplemented!() }
    /// the entry with the greatest key of the whole database
    #[verifier::external_body]
    pub fn last(&self, rtxn: &Txn) -> (r: heed::Result<Option<(Key, DC::DItem)>>)
        ensures is_heed(r), match r {
            Ok(Some((k, n))) => rtxn.view().contains_key(k.a()) && k._padding == 0 && DC::dec_ok(&n, rtxn.view()[k.a()])
                && (forall|o: AKey| #![trigger rtxn.view().contains_key(o)] rtxn.view().contains_key(o) ==> akey_le(o, k.a())),
            Ok(None) => forall|o: AKey| #![trigger rtxn.view().contains_key(o)] !rtxn.view().contains_key(o),
            Err(_) => true }
    { unimplemented!() }
    // -- scans (read only)
    #[verifier::external_body]
    pub fn rev_prefix_iter(&self, rtxn: &Txn, p: &Prefix) -> (r: heed::Result<RoIter<DC>>)
        ensures is_heed(r), r matches Ok(it) ==> it.wf_sel(rtxn.view(), Sel::Pre(*p), true) && it.pos@ == 0 && it.faulty@ == rtxn.read_faulty()
    { unimplemented!() }
    #[verifier::external_body]
    pub fn rev_iter(&self, rtxn: &Txn) -> (r: heed::Result<RoIter<DC>>)
        ensures is_heed(r), r matches Ok(it) ==> it.wf_sel(rtxn.view(), Sel::Rng(Bound::Unbounded, Bound::Unbounded), true) && it.pos@ == 0 && it.faulty@ == rtxn.read_faulty()
    { unimplemented!() }
    #[verifier::external_body]
    pub fn prefix_iter(&self, rtxn: &Txn, p: &Prefix) -> (r: heed::Result<RoIter<DC>>)
        ensures is_heed(r), r matches Ok(it) ==> it.wf(rtxn.view(), *p) && it.pos@ == 0 && it.faulty@ == rtxn.read_faulty()
    { unimplemented!() }
    #[verifier::external_body]
    pub fn range<R: KeyRange>(&self, rtxn: &Txn, range: &R) -> (r: heed::Result<RoIter<DC>>)
        ensures is_heed(r), r matches Ok(it) ==> it.wf_sel(rtxn.view(), range.sel(), false) && it.pos@ == 0 && it.faulty@ == rtxn.read_faulty()
    { unimplemented!() }
    #[verifier::external_body]
    pub fn rev_range<R: KeyRange>(&self, rtxn: &Txn, range: &R) -> (r: heed::Result<RoIter<DC>>)
        ensures is_heed(r), r matches Ok(it) ==> it.wf_sel(rtxn.view(), range.sel(), true) && it.pos@ == 0 && it.faulty@ == rtxn.read_faulty()
    { unimplemented!() }
    #[verifier::external_body]
    pub fn iter(&self, rtxn: &Txn) -> (r: heed::Result<RoIter<DC>>)
        ensures is_heed(r), r matches Ok(it) ==> it.wf_sel(rtxn.view(), Sel::Rng(Bound::Unbounded, Bound::Unbounded), false) && it.pos@ == 0 && it.faulty@ == rtxn.read_faulty()
    { unimplemented!() }
    // -- scans with a mutable cursor (rule R9: the borrowed txn is passed at each cursor call)
    #[verifier::external_body]
    pub fn prefix_iter_mut(&self, wtxn: &mut Txn, p: &Prefix) -> (r: heed::Result<RwCursor<DC>>)
        ensures is_heed(r), final(wtxn).view() == old(wtxn).view(), r matches Ok(it) ==> it.fresh(old(wtxn).view(), Sel::Pre(*p), false)
    { unimplemented!() }
    #[verifier::external_body]
    pub fn range_mut<R: KeyRange>(&self, wtxn: &mut Txn, range: &R) -> (r: heed::Result<RwCursor<DC>>)
        ensures is_heed(r), final(wtxn).view() == old(wtxn).view(), r matches Ok(it) ==> it.fresh(old(wtxn).view(), range.sel(), false)
    { unimplemented!() }
    #[verifier::external_body]
    pub fn rev_range_mut<R: KeyRange>(&self, wtxn: &mut Txn, range: &R) -> (r: heed::Result<RwCursor<DC>>)
        ensures is_heed(r), final(wtxn).view() == old(wtxn).view(), r matches Ok(it) ==> it.fresh(old(wtxn).view(), range.sel(), true)
    { unimplemented!() }
}

pub struct RoIter<DC> { pub keys: Ghost<Seq<AKey>>, pub pos: Ghost<int>, pub snap: Ghost<DbView>, pub sel: Ghost<Sel>, pub rev: Ghost<bool>, pub faulty: Ghost<bool>, pub _v: core::marker::PhantomData<DC> }
impl<DC: DataCodec> RoIter<DC> {
    pub open spec fn wf_sel(&self, v: DbView, s: Sel, rev: bool) -> bool {
        self.snap@ == v && self.sel@ == s && self.rev@ == rev && is_listing_dir(v, s, self.keys@, rev) && 0 <= self.pos@ <= self.keys@.len()
    }
    pub open spec fn wf(&self, v: DbView, p: Prefix) -> bool { self.wf_sel(v, Sel::Pre(p), false) }
    pub fn remap_key_type<KC>(self) -> (r: RoIter<DC>) ensures r == self { self }
    pub fn remap_data_type<DC2: DataCodec>(self) -> (r: RoIter<DC2>)
        ensures r.keys == self.keys, r.pos == self.pos, r.snap == self.snap, r.sel == self.sel, r.rev == self.rev, r.faulty == self.faulty
    { RoIter { keys: self.keys, pos: self.pos, snap: self.snap, sel: self.sel, rev: self.rev, faulty: self.faulty, _v: core::marker::PhantomData } }
    pub fn remap_types<KC, DC2: DataCodec>(self) -> (r: RoIter<DC2>)
        ensures r.keys == self.keys, r.pos == self.pos, r.snap == self.snap, r.sel == self.sel, r.rev == self.rev, r.faulty == self.faulty
    { RoIter { keys: self.keys, pos: self.pos, snap: self.snap, sel: self.sel, rev: self.rev, faulty: self.faulty, _v: core::marker::PhantomData } }
    /// None = end of the listing; Some(Err) = read error (possible only on a `read_faulty` transaction)
    #[verifier::external_body]
    pub fn next(&mut self) -> (r: Option<heed::Result<(Key, DC::DItem)>>)
        requires 0 <= old(self).pos@ <= old(self).keys@.len()
        ensures
            final(self).keys == old(self).keys, final(self).snap == old(self).snap, final(self).sel == old(self).sel,
            final(self).rev == old(self).rev, final(self).faulty == old(self).faulty,
            match r {
                None => old(self).pos@ == old(self).keys@.len() && final(self).pos == old(self).pos,
                Some(Ok((k, v))) => old(self).pos@ < old(self).keys@.len() && k.a() == old(self).keys@[old(self).pos@]
                    && k._padding == 0
                    // consequence of is_listing, stated for convenience
                    && (is_listing_dir(old(self).snap@, old(self).sel@, old(self).keys@, old(self).rev@) ==>
                        old(self).snap@.contains_key(k.a()) && old(self).sel@.has(k.a()))
                    && DC::dec_ok(&v, old(self).snap@[k.a()]) && final(self).pos@ == old(self).pos@ + 1,
                Some(Err(e)) => e is Heed && final(self).pos == old(self).pos && old(self).faulty@,
            },
    { unimplemented!() }
}

/// Mutable cursor. `cur` is the view the cursor expects the transaction to have (all mutation
/// while the cursor lives goes through the cursor: enforced by the borrow checker on the real code,
/// by `requires wtxn.view() == self.cur@` here).
pub struct RwCursor<DC> { pub keys: Ghost<Seq<AKey>>, pub pos: Ghost<int>, pub cur: Ghost<DbView>, pub init: Ghost<DbView>, pub sel: Ghost<Sel>, pub rev: Ghost<bool>, pub live: Ghost<bool>, pub _v: core::marker::PhantomData<DC> }
impl<DC: DataCodec> RwCursor<DC> {
    pub open spec fn fresh(&self, v: DbView, s: Sel, rev: bool) -> bool {
        self.cur@ == v && self.init@ == v && self.sel@ == s && self.rev@ == rev && is_listing_dir(v, s, self.keys@, rev) && self.pos@ == 0 && !self.live@
    }
    pub fn remap_key_type<KC>(self) -> (r: RwCursor<DC>) ensures r == self { self }
    pub fn remap_data_type<DC2: DataCodec>(self) -> (r: RwCursor<DC2>)
        ensures r.keys == self.keys, r.pos == self.pos, r.cur == self.cur, r.live == self.live, r.init == self.init, r.sel == self.sel, r.rev == self.rev
    { RwCursor { keys: self.keys, pos: self.pos, cur: self.cur, init: self.init, sel: self.sel, rev: self.rev, live: self.live, _v: core::marker::PhantomData } }
    pub fn remap_types<KC, DC2: DataCodec>(self) -> (r: RwCursor<DC2>)
        ensures r.keys == self.keys, r.pos == self.pos, r.cur == self.cur, r.live == self.live, r.init == self.init, r.sel == self.sel, r.rev == self.rev
    { RwCursor { keys: self.keys, pos: self.pos, cur: self.cur, init: self.init, sel: self.sel, rev: self.rev, live: self.live, _v: core::marker::PhantomData } }
    #[verifier::external_body]
    pub fn next(&mut self, wtxn: &mut Txn) -> (r: Option<heed::Result<(Key, DC::DItem)>>)
        requires old(wtxn).view() == old(self).cur@, 0 <= old(self).pos@ <= old(self).keys@.len()
        ensures
            final(wtxn).view() == old(wtxn).view(),
            final(self).keys == old(self).keys, final(self).cur == old(self).cur,
            final(self).init == old(self).init, final(self).sel == old(self).sel, final(self).rev == old(self).rev,
            match r {
                None => old(self).pos@ == old(self).keys@.len() && final(self).pos == old(self).pos && !final(self).live@,
                Some(Ok((k, v))) => old(self).pos@ < old(self).keys@.len() && k.a() == old(self).keys@[old(self).pos@]
                    && k._padding == 0
                    && DC::dec_ok(&v, old(wtxn).view()[k.a()]) && final(self).pos@ == old(self).pos@ + 1 && final(self).live@,
                Some(Err(e)) => e is Heed && final(self).pos == old(self).pos && !final(self).live@,
            }
    { unimplemented!() }
    #[verifier::external_body]
    pub fn del_current(&mut self, wtxn: &mut Txn) -> (r: heed::Result<bool>)
        requires old(wtxn).view() == old(self).cur@, old(self).live@, 0 < old(self).pos@ <= old(self).keys@.len()
        ensures is_heed(r),
            final(self).keys == old(self).keys, final(self).pos == old(self).pos, final(self).cur@ == final(wtxn).view(),
            final(self).init == old(self).init, final(self).sel == old(self).sel, final(self).rev == old(self).rev,
            !final(self).live@,
            match r {
                Ok(_) => final(wtxn).view() == old(wtxn).view().remove(old(self).keys@[old(self).pos@ - 1]),
                Err(_) => final(wtxn).view() == old(wtxn).view() }
    { unimplemented!() }
    #[verifier::external_body]
    pub fn put_current(&mut self, wtxn: &mut Txn, key: &Key, v: &DC::EItem) -> (r: heed::Result<bool>)
        requires old(wtxn).view() == old(self).cur@, old(self).live@, 0 < old(self).pos@ <= old(self).keys@.len(),
            key.a() == old(self).keys@[old(self).pos@ - 1]
        ensures is_heed(r),
            final(self).keys == old(self).keys, final(self).pos == old(self).pos, final(self).cur@ == final(wtxn).view(),
            final(self).init == old(self).init, final(self).sel == old(self).sel, final(self).rev == old(self).rev,
            final(self).live@,
            match r {
                Ok(_) => final(wtxn).view() == old(wtxn).view().insert(key.a(), DC::enc_val(v)),
                Err(_) => final(wtxn).view() == old(wtxn).view() }
    { unimplemented!() }
    #[verifier::external_body]
    pub fn put_current_with_options<DC2: DataCodec>(&mut self, wtxn: &mut Txn, flags: PutFlags, key: &Key, v: &DC2::EItem) -> (r: heed::Result<()>)
        requires old(wtxn).view() == old(self).cur@, old(self).live@, 0 < old(self).pos@ <= old(self).keys@.len(),
            key.a() == old(self).keys@[old(self).pos@ - 1], !flags.append
        ensures is_heed(r),
            final(self).keys == old(self).keys, final(self).pos == old(self).pos, final(self).cur@ == final(wtxn).view(),
            final(self).init == old(self).init, final(self).sel == old(self).sel, final(self).rev == old(self).rev,
            final(self).live@,
            match r {
                Ok(_) => final(wtxn).view() == old(wtxn).view().insert(key.a(), DC2::enc_val(v)),
                Err(_) => final(wtxn).view() == old(wtxn).view() }
    { unimplemented!() }
}

// ---- build options -----------------------------------------------------------------------------
pub struct BuildOption { pub n_trees: Option<usize>, pub split_after: Option<usize>, pub available_memory: Option<usize>, pub x: u8 }
impl BuildOption {
    /// the user's cancellation callback: any answer at any poll
    #[verifier::external_body]
    pub fn cancelled(&self) -> (r: Result<(), Error>)
        ensures r matches Err(e) ==> e == Error::BuildCancelled
    { unimplemented!() }
    /// rule R5d target: a direct poll `(opt.cancel)()` of the user's callback: any answer
    #[verifier::external_body]
    pub fn cancel_poll_(&self) -> (r: bool) { unimplemented!() }
}

pub struct PathBuf { pub x: u8 }
pub struct Writer { pub database: Database, pub index: u16, pub dimensions: usize, pub tmpdir: Option<PathBuf> }

// ---- reader side ---------------------------------------------------------------------------------
pub mod marker { pub use core::marker::PhantomData; }
pub struct Reader { pub database: Database, pub index: u16, pub roots: ItemIds, pub dimensions: usize, pub items: RoaringBitmap, pub _marker: core::marker::PhantomData<Dist> }

pub trait TryIntoUnwrap<T>: Sized {
    spec fn tiu_ok(self) -> bool;
    spec fn tiu_val(self) -> T;
    fn try_into_unwrap_(self) -> (r: T) requires self.tiu_ok() ensures r == self.tiu_val();
}
impl TryIntoUnwrap<usize> for u32 {
    open spec fn tiu_ok(self) -> bool { true }
    open spec fn tiu_val(self) -> usize { self as usize }
    fn try_into_unwrap_(self) -> (r: usize) { self as usize }
}
impl TryIntoUnwrap<u32> for usize {
    open spec fn tiu_ok(self) -> bool { self <= u32::MAX }
    open spec fn tiu_val(self) -> u32 { self as u32 }
    fn try_into_unwrap_(self) -> (r: u32) { self as u32 }
}
pub trait MapSome<T, E>: Sized {
    spec fn map_some_spec(self) -> core::result::Result<Option<T>, E>;
    fn map_some_(self) -> (r: core::result::Result<Option<T>, E>) ensures r == self.map_some_spec();
}
impl<T, E> MapSome<T, E> for core::result::Result<T, E> {
    open spec fn map_some_spec(self) -> core::result::Result<Option<T>, E> { match self { Ok(v) => Ok(Some(v)), Err(e) => Err(e) } }
    fn map_some_(self) -> (r: core::result::Result<Option<T>, E>) { match self { Ok(v) => Ok(Some(v)), Err(e) => Err(e) } }
}
pub struct ItemIter { pub inner: RoIter<NodeCodec>, pub dimensions: usize }
/// Vec::truncate as specified by vstd (n <= len: prefix of length n; else unchanged)
pub open spec fn trunc(s: Seq<f32>, n: int) -> Seq<f32> { if n <= s.len() { s.subrange(0, n) } else { s } }

// ---- rule R6b: `for x in coll` over a Vec<u32> (by value) or a &RoaringBitmap (ascending ids) as an index loop ----
pub trait IdxIter {
    spec fn seq_(&self) -> Seq<u32>;
    fn count_(&self) -> (r: usize) ensures r == self.seq_().len();
    fn nth_(&self, i: usize) -> (r: u32) requires i < self.seq_().len() ensures r == self.seq_()[i as int];
}
impl IdxIter for Vec<u32> {
    open spec fn seq_(&self) -> Seq<u32> { self@ }
    fn count_(&self) -> (r: usize) { self.len() }
    fn nth_(&self, i: usize) -> (r: u32) { self[i] }
}
/// a bitmap iterates its members in ascending order, each once
pub uninterp spec fn bm_seq(s: Set<u32>) -> Seq<u32>;
#[verifier::allow(broadcast_without_trigger)]
pub broadcast proof fn axiom_bm_seq(s: Set<u32>)
    ensures
        (forall|i: int, j: int| 0 <= i < j < (#[trigger] bm_seq(s)).len() ==> bm_seq(s)[i] < bm_seq(s)[j]),
        (forall|i: int| 0 <= i < bm_seq(s).len() ==> s.contains(#[trigger] bm_seq(s)[i])),
        (forall|x: u32| s.contains(x) ==> bm_seq(s).contains(x)),
        bm_seq(s).len() == s.len(),
{ admit(); }
impl IdxIter for RoaringBitmap {
    open spec fn seq_(&self) -> Seq<u32> { bm_seq(self@) }
    #[verifier::external_body]
    fn count_(&self) -> (r: usize) { unimplemented!() }
    #[verifier::external_body]
    fn nth_(&self, i: usize) -> (r: u32) { unimplemented!() }
}
impl IdxIter for &RoaringBitmap {
    open spec fn seq_(&self) -> Seq<u32> { bm_seq((**self)@) }
    #[verifier::external_body]
    fn count_(&self) -> (r: usize) { unimplemented!() }
    #[verifier::external_body]
    fn nth_(&self, i: usize) -> (r: u32) { unimplemented!() }
}
