// ---- key / node-id / prefix constructors: extracted from src/node_id.rs and src/key.rs ---------------
impl NodeId {
//@extract src/node_id.rs | impl NodeId | metadata
//@spec
    ensures r.mode == NodeMode::Metadata, r.item == 0
//@end
//@extract src/node_id.rs | impl NodeId | version
//@spec
    ensures r.mode == NodeMode::Metadata, r.item == 1
//@end
//@extract src/node_id.rs | impl NodeId | updated
//@spec
    ensures r.mode == NodeMode::Updated, r.item == item
//@end
//@extract src/node_id.rs | impl NodeId | tree
//@spec
    ensures r.mode == NodeMode::Tree, r.item == item
//@end
//@extract src/node_id.rs | impl NodeId | item
//@spec
    ensures r.mode == NodeMode::Item, r.item == item
//@end
}
impl Key {
//@extract src/key.rs | impl Key | new
//@spec
    ensures r.a() == akey(index, node.mode, node.item), r.index == index, r.node == node, r._padding == 0
//@end
//@extract src/key.rs | impl Key | metadata
//@spec
    ensures r.a() == akey(index, NodeMode::Metadata, 0), r._padding == 0
//@end
//@extract src/key.rs | impl Key | version
//@spec
    ensures r.a() == akey(index, NodeMode::Metadata, 1), r._padding == 0
//@end
//@extract src/key.rs | impl Key | updated
//@spec
    ensures r.a() == akey(index, NodeMode::Updated, item), r._padding == 0
//@end
//@extract src/key.rs | impl Key | item
//@spec
    ensures r.a() == akey(index, NodeMode::Item, item), r._padding == 0
//@end
//@extract src/key.rs | impl Key | tree
//@spec
    ensures r.a() == akey(index, NodeMode::Tree, item), r._padding == 0
//@end
}
impl Prefix {
//@extract-optional src/key.rs | impl Prefix | all
//@spec
    ensures r.index == index, r.mode is None
//@end
//@extract-optional src/key.rs | impl Prefix | item
//@spec
    ensures r.index == index, r.mode == Some(NodeMode::Item)
//@end
//@extract-optional src/key.rs | impl Prefix | tree
//@spec
    ensures r.index == index, r.mode == Some(NodeMode::Tree)
//@end
//@extract-optional src/key.rs | impl Prefix | updated
//@spec
    ensures r.index == index, r.mode == Some(NodeMode::Updated)
//@end
}
