// ---- what the reader needs from the forest (precondition of C02; established by Writer::build, see lemma_built_searchable) ----
/// the forest invariant of C01 as the reader needs it: every root's tree is well formed and covers exactly the stored items
pub open spec fn search_forest_ok(v: DbView, i: u16, roots: Seq<u32>, items: Set<u32>) -> bool {
    let m = tmap(v, i);
    &&& (forall|k: int| 0 <= k < roots.len() ==> tree(m, tn(#[trigger] roots[k])) && titems(m, tn(roots[k])) == items)
    &&& (forall|id: u32| #![trigger items.contains(id)] items.contains(id) <==> v.contains_key(ikey(i, id)))
    &&& (items.len() > 0 ==> roots.len() > 0)
}
