// ---- contract of Writer::insert_items_in_file -----------------------------------------------------------------------
/// discipline on the staging area: puts go to existing nodes or to freshly allocated ids; allocated ids are unused; removals hit existing nodes
pub open spec fn tmp_inv(m: TM, used0: Set<u32>, t: TmpV, alloc: Set<u32>) -> bool {
    &&& (forall|k: u32| #![trigger t.puts.contains_key(k)] t.puts.contains_key(k) ==> m.contains_key(k) || alloc.contains(k))
    &&& (forall|k: u32| #![trigger alloc.contains(k)] alloc.contains(k) ==> !used0.contains(k))
    &&& (forall|k: u32| #![trigger m.contains_key(k)] m.contains_key(k) ==> used0.contains(k))
    &&& (forall|k: u32| #![trigger t.deleted.contains(k)] t.deleted.contains(k) ==> m.contains_key(k))
}

pub open spec fn ins_post(m: TM, used0: Set<u32>, cur: NodeId, t0: TmpV, t1: TmpV, a0: Set<u32>, a1: Set<u32>, ins: Set<u32>, cap: u64,
                          large0: Set<u32>, large1: Set<u32>, new: NodeId, leafs: &ImmutableLeafs) -> bool {
    let s = tnodes(m, cur);
    let fresh = a1.difference(a0);
    let m1 = apply(m, t1);
    &&& t1.deleted == t0.deleted && a0.subset_of(a1) && tmp_inv(m, used0, t1, a1)
    &&& tmp_same_outside(t0, t1, s.union(fresh))
    // C01: the returned reference is the root of a well-formed subtree over the old items plus the inserted ones
    &&& tree(m1, new) && titems(m1, new) == titems(m, cur).union(ins) && tnodes(m1, new).subset_of(s.union(fresh))
    // the reference keeps its kind unless a single item grew into a new bucket with a fresh tree id
    &&& (cur.mode == NodeMode::Tree ==> new == cur)
    &&& (cur.mode == NodeMode::Item ==> (new == cur && ins.subset_of(set![cur.item])) || (new.mode == NodeMode::Tree && fresh.contains(new.item) && m1[new.item] is Desc))
    // C15: a bucket written by this call that exceeds the capacity is queued for splitting under ITS tree id; only buckets are queued
    &&& large0.subset_of(large1)
    &&& (forall|x: u32| #![trigger large1.contains(x)] large1.contains(x) && !large0.contains(x) ==> s.union(fresh).contains(x) && m1.contains_key(x) && m1[x] is Desc)
    &&& (forall|x: u32| #![trigger large1.contains(x)] #![trigger t1.puts.contains_key(x)] s.union(fresh).contains(x) && t1.puts.contains_key(x) && over_cap(m1[x], cap) ==> large1.contains(x))
    // nothing is dropped: the old nodes are all still part of the tree, and a bucket stays a bucket
    &&& s.subset_of(tnodes(m1, new)) && fresh.subset_of(tnodes(m1, new))
    &&& (forall|x: u32| #![trigger s.contains(x)] s.contains(x) && m[x] is Desc ==> m1[x] is Desc)
    // C04: a rewritten split keeps its plane and each side keeps its items; new items go to the side `side()` chose
    &&& (cur.mode == NodeMode::Tree && m[cur.item] is Split ==> ({
            let l = m[cur.item]->Split_0; let r = m[cur.item]->Split_1; let nrm = m[cur.item]->Split_2;
            &&& m1[cur.item] is Split && m1[cur.item]->Split_2 == nrm
            &&& titems(m, l).subset_of(titems(m1, m1[cur.item]->Split_0)) && titems(m, r).subset_of(titems(m1, m1[cur.item]->Split_1))
            &&& (!Dist::vzero(nrm) ==> forall|x: u32| #![trigger ins.contains(x)] ins.contains(x) ==>
                    (Dist::margin_sign(nrm, leafs.lv(x)) > 0 ==> titems(m1, m1[cur.item]->Split_1).contains(x))
                    && (Dist::margin_sign(nrm, leafs.lv(x)) < 0 ==> titems(m1, m1[cur.item]->Split_0).contains(x)))
        }))
}

// ---- proof of insert_items_in_file: one lemma per arm -------------------------------------------------------------
pub open spec fn ins_pre(m: TM, used0: Set<u32>, cur: NodeId, t0: TmpV, a0: Set<u32>, ins: Set<u32>, cap: u64) -> bool {
    &&& tree(m, cur) && ins.disjoint(titems(m, cur)) && cap >= 1
    &&& tmp_untouched(t0, tnodes(m, cur)) && tmp_inv(m, used0, t0, a0)
}

/// arm 1a: the node is a single item and something is inserted next to it: a fresh bucket is created
pub proof fn lemma_ins_item_new(m: TM, used0: Set<u32>, cur: NodeId, t0: TmpV, t1: TmpV, a0: Set<u32>, a1: Set<u32>, ins: Set<u32>, cap: u64,
                                large0: Set<u32>, large1: Set<u32>, id: u32, leafs: &ImmutableLeafs)
    requires
        ins_pre(m, used0, cur, t0, a0, ins, cap), cur.mode == NodeMode::Item,
        id != u32::MAX, !used0.contains(id), !a0.contains(id), a1 == a0.insert(id),
        t1.deleted == t0.deleted, t1.puts == t0.puts.insert(id, TNode::Desc(set![cur.item].union(ins))),
        large1 == large0 || large1 == large0.insert(id),
        set![cur.item].union(ins).len() > cap ==> large1.contains(id),
    ensures ins_post(m, used0, cur, t0, t1, a0, a1, ins, cap, large0, large1, tn(id), leafs)
{
    let m1 = apply(m, t1);
    lemma_item(m, cur.item);
    assert(cur == itn(cur.item));
    assert(!t1.deleted.contains(id)) by { if t0.deleted.contains(id) { assert(m.contains_key(id)); assert(used0.contains(id)); } }
    assert(m1.contains_key(id) && m1[id] == TNode::Desc(set![cur.item].union(ins)));
    lemma_fold_desc(m1, id);
    let fresh = a1.difference(a0);
    assert(fresh.contains(id));
    assert(tnodes(m, cur) =~= Set::<u32>::empty());
    assert(tmp_same_outside(t0, t1, tnodes(m, cur).union(fresh))) by {
        assert forall|x: u32| !tnodes(m, cur).union(fresh).contains(x) implies (t1.puts.contains_key(x) == t0.puts.contains_key(x)
            && (t1.puts.contains_key(x) ==> t1.puts[x] == t0.puts[x]) && t1.deleted.contains(x) == t0.deleted.contains(x)) by { assert(x != id); }
    }
    assert(tmp_inv(m, used0, t1, a1));
    assert(titems(m1, tn(id)) =~= titems(m, cur).union(ins));
}
/// arm 1b: nothing new next to the single item
pub proof fn lemma_ins_item_same(m: TM, used0: Set<u32>, cur: NodeId, t0: TmpV, a0: Set<u32>, ins: Set<u32>, cap: u64, large0: Set<u32>, leafs: &ImmutableLeafs)
    requires ins_pre(m, used0, cur, t0, a0, ins, cap), cur.mode == NodeMode::Item, set![cur.item].union(ins).len() <= 1,
    ensures ins_post(m, used0, cur, t0, t0, a0, a0, ins, cap, large0, large0, cur, leafs)
{
    let m1 = apply(m, t0);
    lemma_item(m, cur.item); lemma_item(m1, cur.item);
    assert(cur == itn(cur.item));
    let a = set![cur.item]; let b = a.union(ins);
    vstd::set_lib::lemma_len_subset(a, b);
    vstd::set_lib::lemma_subset_equality(a, b);
    assert(ins.subset_of(a)) by { assert forall|x: u32| ins.contains(x) implies a.contains(x) by { assert(b.contains(x)); } }
    assert(titems(m1, cur) =~= titems(m, cur).union(ins));
    assert(tnodes(m1, cur).subset_of(tnodes(m, cur).union(a0.difference(a0))));
}
/// arm 2: the node is a bucket: the ids are added to it (rewritten iff it grew), queued if it is now too large
pub proof fn lemma_ins_desc(m: TM, used0: Set<u32>, cur: NodeId, t0: TmpV, t1: TmpV, a0: Set<u32>, ins: Set<u32>, cap: u64,
                            large0: Set<u32>, large1: Set<u32>, leafs: &ImmutableLeafs)
    requires
        ins_pre(m, used0, cur, t0, a0, ins, cap), cur.mode == NodeMode::Tree, m.contains_key(cur.item), m[cur.item] is Desc,
        t1.deleted == t0.deleted,
        t1.puts == t0.puts.insert(cur.item, TNode::Desc(m[cur.item]->Desc_0.union(ins))) || (t1 == t0 && m[cur.item]->Desc_0.union(ins).len() == m[cur.item]->Desc_0.len()),
        large1 == large0 || large1 == large0.insert(cur.item),
        m[cur.item]->Desc_0.union(ins).len() > cap ==> large1.contains(cur.item),
    ensures ins_post(m, used0, cur, t0, t1, a0, a0, ins, cap, large0, large1, cur, leafs)
{
    let x = cur.item; let d0 = m[x]->Desc_0; let nd = d0.union(ins);
    let m1 = apply(m, t1);
    assert(cur == tn(x));
    lemma_unfold(m, x);
    assert(tnodes(m, cur).contains(x));
    assert(!t0.puts.contains_key(x) && !t0.deleted.contains(x));
    if t1 == t0 { vstd::set_lib::lemma_subset_equality(d0, nd); }
    assert(m1.contains_key(x) && m1[x] == TNode::Desc(nd));
    lemma_fold_desc(m1, x);
    assert(tmp_same_outside(t0, t1, tnodes(m, cur).union(a0.difference(a0)))) by {
        assert forall|y: u32| !tnodes(m, cur).union(a0.difference(a0)).contains(y) implies (t1.puts.contains_key(y) == t0.puts.contains_key(y)
            && (t1.puts.contains_key(y) ==> t1.puts[y] == t0.puts[y]) && t1.deleted.contains(y) == t0.deleted.contains(y)) by { assert(y != x); }
    }
    assert(tmp_inv(m, used0, t1, a0));
    assert(titems(m1, cur) =~= titems(m, cur).union(ins));
}

/// arm 3: the node is a split: the ids are distributed over the two children (recursively), the split is rewritten iff a child reference changed
pub proof fn lemma_ins_split(m: TM, used0: Set<u32>, cur: NodeId, t0: TmpV, tl: TmpV, tr: TmpV, tf: TmpV, a0: Set<u32>, al: Set<u32>, ar: Set<u32>,
                             ins: Set<u32>, lset: Set<u32>, rset: Set<u32>, cap: u64, lg0: Set<u32>, lgl: Set<u32>, lgr: Set<u32>, nl: NodeId, nr: NodeId, leafs: &ImmutableLeafs)
    requires
        ins_pre(m, used0, cur, t0, a0, ins, cap), cur.mode == NodeMode::Tree, m.contains_key(cur.item), m[cur.item] is Split,
        lset.union(rset) == ins, lset.disjoint(rset),
        !Dist::vzero(m[cur.item]->Split_2) ==> (forall|x: u32| #![trigger lset.contains(x)] lset.contains(x) ==> !(Dist::margin_sign(m[cur.item]->Split_2, leafs.lv(x)) > 0))
            && (forall|x: u32| #![trigger rset.contains(x)] rset.contains(x) ==> !(Dist::margin_sign(m[cur.item]->Split_2, leafs.lv(x)) < 0)),
        ins_post(m, used0, m[cur.item]->Split_0, t0, tl, a0, al, lset, cap, lg0, lgl, nl, leafs),
        ins_post(m, used0, m[cur.item]->Split_1, tl, tr, al, ar, rset, cap, lgl, lgr, nr, leafs),
        tf.deleted == tr.deleted,
        tf.puts == tr.puts.insert(cur.item, TNode::Split(nl, nr, m[cur.item]->Split_2)) || (tf == tr && nl == m[cur.item]->Split_0 && nr == m[cur.item]->Split_1),
    ensures ins_post(m, used0, cur, t0, tf, a0, ar, ins, cap, lg0, lgr, cur, leafs)
{
    let x = cur.item; let l = m[x]->Split_0; let r = m[x]->Split_1; let nrm = m[x]->Split_2;
    let s = tnodes(m, cur); let sl = tnodes(m, l); let sr = tnodes(m, r);
    let fl = al.difference(a0); let fr = ar.difference(al); let fresh = ar.difference(a0);
    let a = apply(m, tl); let b = apply(m, tr); let c = apply(m, tf);
    assert(cur == tn(x));
    lemma_unfold(m, x);
    lemma_nodes_exist(m, cur); lemma_nodes_exist(m, l); lemma_nodes_exist(m, r);
    assert(s.contains(x));
    assert(!t0.puts.contains_key(x) && !t0.deleted.contains(x));
    // x is an old node: not fresh, not in the children's node sets
    assert(used0.contains(x));
    assert(!fresh.contains(x)) by { if ar.contains(x) { assert(!used0.contains(x)); } }
    // the staging area at x is untouched by both recursive calls
    assert(!sl.union(fl).contains(x) && !sr.union(fr).contains(x)) by { if al.contains(x) { assert(ar.contains(x)); } }
    assert(!tr.puts.contains_key(x) && !tr.deleted.contains(x));
    assert(c.contains_key(x) && c[x] == TNode::Split(nl, nr, nrm));
    // fresh ids of the left call are disjoint from the right subtree's nodes and from the right call's fresh ids
    assert forall|id: u32| #[trigger] tnodes(a, nl).contains(id) implies b.contains_key(id) && b[id] == a[id] && c.contains_key(id) && c[id] == a[id] by {
        assert(sl.union(fl).contains(id));
        if sl.contains(id) { assert(!sr.contains(id)); assert(used0.contains(id)); if ar.contains(id) { assert(!used0.contains(id)); } }
        else { assert(al.contains(id)); assert(!used0.contains(id)); if sr.contains(id) { assert(used0.contains(id)); } }
        assert(!sr.union(fr).contains(id));
        assert(id != x);
        lemma_nodes_exist(a, nl);
    }
    lemma_frame(a, b, nl);
    lemma_frame(a, c, nl);
    assert forall|id: u32| #[trigger] tnodes(b, nr).contains(id) implies c.contains_key(id) && c[id] == b[id] by {
        assert(sr.union(fr).contains(id)); assert(id != x);
        lemma_nodes_exist(b, nr);
    }
    lemma_frame(b, c, nr);
    // disjointness for the fold
    assert(titems(c, nl).disjoint(titems(c, nr))) by {
        assert forall|i: u32| titems(c, nl).contains(i) && titems(c, nr).contains(i) implies false by {
            if lset.contains(i) { assert(ins.contains(i)); assert(!rset.contains(i)); assert(!titems(m, cur).contains(i)); }
            else { assert(titems(m, l).contains(i)); if rset.contains(i) { assert(ins.contains(i)); assert(!titems(m, cur).contains(i)); } }
        }
    }
    assert(tnodes(c, nl).disjoint(tnodes(c, nr))) by {
        assert forall|id: u32| tnodes(c, nl).contains(id) && tnodes(c, nr).contains(id) implies false by {
            assert(sl.union(fl).contains(id) && sr.union(fr).contains(id));
            if sl.contains(id) { assert(used0.contains(id)); if ar.contains(id) { assert(!used0.contains(id)); } }
            else { assert(al.contains(id)); if sr.contains(id) { assert(used0.contains(id)); assert(!used0.contains(id)); } }
        }
    }
    assert(!tnodes(c, nl).contains(x) && !tnodes(c, nr).contains(x));
    lemma_fold_split(c, x);
    assert(titems(c, cur) =~= titems(m, cur).union(ins));
    assert(tnodes(c, cur).subset_of(s.union(fresh))) by {
        assert forall|id: u32| tnodes(c, cur).contains(id) implies s.union(fresh).contains(id) by {
            if id == x {} else if tnodes(c, nl).contains(id) { assert(sl.union(fl).contains(id)); if fl.contains(id) { assert(ar.contains(id)); } }
            else { assert(sr.union(fr).contains(id)); }
        }
    }
    assert(tmp_same_outside(t0, tf, s.union(fresh))) by {
        assert forall|y: u32| !s.union(fresh).contains(y) implies (tf.puts.contains_key(y) == t0.puts.contains_key(y)
            && (tf.puts.contains_key(y) ==> tf.puts[y] == t0.puts[y]) && tf.deleted.contains(y) == t0.deleted.contains(y)) by {
            assert(y != x);
            assert(!sl.union(fl).contains(y)) by { if al.contains(y) && !a0.contains(y) { assert(ar.contains(y)); } }
            assert(!sr.union(fr).contains(y));
        }
    }
    assert(tmp_inv(m, used0, tf, ar));
    assert forall|y: u32| #![trigger lgr.contains(y)] lgr.contains(y) && !lg0.contains(y) implies s.union(fresh).contains(y) && c.contains_key(y) && c[y] is Desc by {
        if lgl.contains(y) {
            assert(sl.union(fl).contains(y) && a.contains_key(y) && a[y] is Desc);
            if fl.contains(y) { assert(ar.contains(y)); }
            // y is a node written or kept by the left call; it is untouched afterwards
            assert(y != x);
            assert(!sr.union(fr).contains(y)) by {
                if sl.contains(y) { assert(used0.contains(y)); if ar.contains(y) { assert(!used0.contains(y)); } }
                else { assert(al.contains(y)); if sr.contains(y) { assert(used0.contains(y)); assert(!used0.contains(y)); } }
            }
        } else {
            assert(sr.union(fr).contains(y) && b.contains_key(y) && b[y] is Desc);
            assert(y != x);
        }
    }
    // placement
    assert(titems(m, l).subset_of(titems(c, nl)) && titems(m, r).subset_of(titems(c, nr)));
}
