// ---- frozen views as built by the drivers (ASSUMED contracts, drift-guarded) ---------------------------------------
impl ImmutableTrees {
    /// ghost: the tree ids of the index present in the database when this view was frozen
    pub uninterp spec fn db_has(&self, id: u32) -> bool;
}
/// a staging area created during a pass avoids every tree id the frozen view saw in the database (rule R14 with //@tmpctx)
impl<'a> FreshCtx for FrozzenReader<'a> { open spec fn has_tree(&self, i: u16, id: u32) -> bool { self.trees.db_has(id) } }
impl ImmutableLeafs {
    /// parallel.rs::ImmutableLeafs::new: the contract PROVED in unit `leafs_new` (lib/contracts/immutable_leafs_new.spec),
    /// restated over the abstract `ids()` of this stand-in
    #[verifier::external_body]
    pub fn new(rtxn: &Txn, database: Database, index: u16, candidates: &mut RoaringBitmap, memory: usize, min_items: usize) -> (r: heed::Result<(ImmutableLeafs, RoaringBitmap)>)
        requires
            forall|id: u32| old(candidates)@.contains(id) ==> rtxn.view().contains_key(ikey(index, id)),
            leaves_same_len(rtxn.view(), index),
        ensures
            r matches Ok((leafs, selected)) ==> ({
                &&& selected@.union(final(candidates)@) == old(candidates)@
                &&& selected@.disjoint(final(candidates)@)
                &&& selected@.len() + final(candidates)@.len() == old(candidates)@.len()
                &&& leafs.ids() == selected@
                &&& (old(candidates)@.len() > 0 && min_items >= 1 ==> selected@.len() > 0)
                // the memory budget never stops the selection before `min_items` items
                &&& (final(candidates)@ == Set::<u32>::empty() || selected@.len() >= min_items)
                &&& (forall|a: u32, b: u32| selected@.contains(a) && final(candidates)@.contains(b) ==> a < b)
            }),
            r matches Err(e) ==> e is Heed,
    { unimplemented!() }
}
/// rule R7e target: `(memory as f64 * 2.0 / 3.0).floor() as usize` (floating point): some usize
#[verifier::external_body]
pub fn two_thirds_(memory: usize) -> (r: usize) { unimplemented!() }
