// Unit `incr_driver`: Writer::incremental_index_large_descendants — splitting the queued oversized buckets (C01, C15, C07)
#![allow(non_snake_case, unused, deprecated)]
use vstd::prelude::*;
verus! {
//@include lib/prelude.rs
//@include lib/keys.rs
//@include lib/specs_store.rs
//@include lib/bitmap_select.rs
//@include lib/forest.rs
//@include lib/forest_delete.rs
//@include lib/frozen.rs
//@include lib/forest_insert.rs
//@include lib/forest_make.rs
//@include lib/forest_drivers.rs
//@include lib/writeback.rs
//@include lib/forest_iict.rs
//@include lib/forest_incr.rs
//@include lib/frozen_build.rs
pub open spec fn cap_of(opt: &BuildOption, dimensions: usize) -> u64 {
    (match opt.split_after { Some(s) => s, None => dimensions }) as u64
}

impl ImmutableTrees {
//@extract src/parallel.rs | impl<'t, D: Distance> ImmutableTrees<'t, D> | empty
//@stub
//@specfile lib/contracts/immutable_trees_empty.spec
//@spec
        forall|id: u32| !r.db_has(id),
//@end
}

impl Writer {
//@extract src/writer.rs | impl<D: Distance> Writer<D> | make_tree_in_file
//@stub
//@specfile lib/contracts/make_tree_in_file.spec
//@end

//@extract src/writer.rs | impl<D: Distance> Writer<D> | insert_items_in_current_trees
//@stub
//@specfile lib/contracts/insert_items_in_current_trees.spec
//@end

//@extract src/writer.rs | impl<D: Distance> Writer<D> | incremental_index_large_descendants
//@attr #[verifier::exec_allows_no_decreases_clause]
//@ghostparam Ghost(rs): Ghost<Seq<u32>>
//@hint start <<<>>>
        let ghost v0 = wtxn.view(); let ghost i = self.index; let ghost m0 = tmap(v0, i); let ghost cap = cap_of(options, self.dimensions);
//@loop 0
        invariant
            i == self.index, cap == cap_of(options, self.dimensions), cap >= 1, v0 == old(wtxn).view(), m0 == tmap(v0, i),
            concurrent_node_ids.covers(self.index), leaves_same_len(v0, i),
            same_except(v0, wtxn.view(), i, true, false, false, false), tree_keys_ok(wtxn.view(), i),
            incr_inv(m0, tmap(wtxn.view(), i), rs, large_descendants@, cap),
            forall|k: int, id: u32| #![trigger titems(m0, tn(rs[k])).contains(id)] 0 <= k < rs.len() && titems(m0, tn(rs[k])).contains(id) ==> v0.contains_key(ikey(i, id)),
        ensures
            large_descendants@ =~= Set::<u32>::empty(),
//@loopstart 0
            let ghost va = wtxn.view(); let ghost ma = tmap(va, i); let ghost lq = large_descendants@; let ghost d = descendant_id;
            let ghost jd = 0int;
            proof {
                assert(lq.contains(d));
                jd = lemma_bucket_in_forest(ma, rs, d);
                assert(va.contains_key(tkey(i, d)) && va[tkey(i, d)] == AVal::Tree(ma[d]));
            }
//@hint before <<<let (leafs, to_insert) = ImmutableLeafs::new(>>>
            let ghost its = descendants@;
            proof {
                assert(its == ma[d]->Desc_0);
                assert(leaves_same_len(va, i)) by {
                    assert forall|a: u32, b: u32, x: NodeBytes, y: NodeBytes| #![trigger x.aval(), y.aval(), ikey(i, a), ikey(i, b)]
                        va.contains_key(ikey(i, a)) && va.contains_key(ikey(i, b)) && x.aval() == va[ikey(i, a)] && y.aval() == va[ikey(i, b)] implies x.blen() == y.blen() by {
                        assert(v0.contains_key(ikey(i, a)) && v0[ikey(i, a)] == va[ikey(i, a)]);
                        assert(v0.contains_key(ikey(i, b)) && v0[ikey(i, b)] == va[ikey(i, b)]);
                    }
                }
                assert forall|id: u32| its.contains(id) implies va.contains_key(ikey(i, id)) by {
                    assert(titems(ma, tn(rs[jd])).contains(id)); assert(titems(m0, tn(rs[jd])).contains(id)); assert(v0.contains_key(ikey(i, id)));
                }
            }
//@hint before <<<let frozen_reader = FrozzenReader {>>>
            let ghost sel = to_insert@; let ghost rest = descendants@;
            // C14 / C20 (progress; defect F8): the batch the new sub-tree is made of is larger than one bucket unless it is the whole
            // descendant -- otherwise the sub-tree is one bucket again, the rest is put back into it and the same bucket is queued forever
            proof { assert(rest =~= Set::<u32>::empty() || sel.len() > cap || cap == usize::MAX); }
//@hint before <<<let (root_id, nb_new_tree_nodes) =>>>
            let ghost tk = (tmp_nodes.taken())(i);
            proof {
                assert(frozen_reader.trees.snap() == IMap::<u32, TNode>::empty());
                assert(tmp_nodes.tv() == empty_tv());
            }
//@hint afterstmt <<<tmp_nodes.remap(root_id.item, descendant_id);>>>
            let ghost t = tmp_nodes.tv(); let ghost al = tmp_nodes.allocated(); let ghost rm = rm1(root_id.item, d);
            proof {
                assert(tmp_nodes.rm() == rm);
                assert(mk_fresh(ma, t, tk, al, sel, cap, root_id, nb_new_tree_nodes, frozen_reader.leafs)) by {
                    assert forall|x: u32| #![trigger ma.contains_key(x)] ma.contains_key(x) implies tk.contains(x) by { assert(va.contains_key(tkey(i, x))); assert(wtxn.has_tree(i, x)); }
                }
                lemma_remap_ok(ma, t, tk, al, sel, cap, root_id, nb_new_tree_nodes, d, frozen_reader.leafs);
            }
//@loop 1
            invariant
                i == self.index, 0 <= iter__0.pos@ <= iter__0.seq@.len(),
                wb_put(va, wtxn.view(), i, iter__0.seq@, iter__0.pos@),
                v0 == old(wtxn).view(), same_except(v0, va, i, true, false, false, false), same_except(v0, wtxn.view(), i, true, false, false, false),
                tmp_nodes.tv() == t, tmp_nodes.rm() == rm,
                remap_ok(t, rm) ==> (forall|m: TM| #![trigger fold_puts(m, iter__0.seq@)] fold_puts(m, iter__0.seq@) == overlay(m, t, rm)),
            ensures
                iter__0.pos@ == iter__0.seq@.len(),
//@loopstart 1
                let ghost vx = wtxn.view(); let ghost q2 = iter__0.pos@ - 1;
//@loopend 1
                proof {
                    lemma_wb_put_step(va, vx, wtxn.view(), i, iter__0.seq@, q2, item_id, item_bytes.aval());
                    let vd = wtxn.view();
                    assert(same_except(v0, vd, i, true, false, false, false)) by {
                        assert forall|k: AKey| !(k.index == i && k.kind == NodeMode::Tree) implies (#[trigger] v0.contains_key(k) == vd.contains_key(k) && (v0.contains_key(k) ==> v0[k] == vd[k])) by { assert(v0.contains_key(k) == va.contains_key(k)); }
                    }
                }
//@hint before <<<self.insert_items_in_current_trees(>>>
            let ghost vb = wtxn.view(); let ghost mb = tmap(vb, i);
            proof {
                assert(iter__0.seq@.take(iter__0.seq@.len() as int) =~= iter__0.seq@);
                assert(mb == overlay(ma, t, rm));
                assert(al.difference(Set::<u32>::empty()) =~= al);
                if root_id.mode == NodeMode::Tree {
                    lemma_remap_tree(ma, mb, t, tk, al, sel, cap, root_id, nb_new_tree_nodes, d, frozen_reader.leafs);
                } else {
                    // a single id was selected: nothing was staged, the bucket is that id alone
                    assert(root_id.mode == NodeMode::Item);
                    assert(sel == set![root_id.item]);
                    assert(al =~= Set::<u32>::empty()) by { lemma_item(apply(IMap::<u32, TNode>::empty(), t), root_id.item); assert(root_id == itn(root_id.item)); }
                    assert forall|k2: u32| !has_src(t, rm, k2) by { if has_src(t, rm, k2) { let k = choose|k: u32| src_of(t, rm, k2, k); assert(t.puts.contains_key(k)); assert(al.contains(k)); } }
                    assert(mb =~= ma);
                    assert(sel.len() == 1);
                    assert(rest =~= Set::<u32>::empty());
                    assert(its =~= sel);
                    lemma_fold_desc(ma, d);
                    assert(!over_cap(ma[d], cap));
                }
                assert(leaves_same_len(vb, i)) by {
                    assert forall|a: u32, b: u32, x: NodeBytes, y: NodeBytes| #![trigger x.aval(), y.aval(), ikey(i, a), ikey(i, b)]
                        vb.contains_key(ikey(i, a)) && vb.contains_key(ikey(i, b)) && x.aval() == vb[ikey(i, a)] && y.aval() == vb[ikey(i, b)] implies x.blen() == y.blen() by {
                        assert(v0.contains_key(ikey(i, a)) && v0[ikey(i, a)] == vb[ikey(i, a)]);
                        assert(v0.contains_key(ikey(i, b)) && v0[ikey(i, b)] == vb[ikey(i, b)]);
                    }
                }
                assert forall|id: u32| rest.contains(id) implies vb.contains_key(ikey(i, id)) by { assert(its.contains(id)); assert(va.contains_key(ikey(i, id))); assert(v0.contains_key(ikey(i, id))); }
            }
//@loopend 0
            // (stated over the state at the end of the iteration only: no local of the body is named, so the script survives edits of the queue update)
            proof {
                let vc = wtxn.view(); let mc = tmap(vc, i);
                let (r1, lg) = choose|r1: Seq<u32>, lg: Set<u32>| r1.len() == 1 && r1[0] == d && #[trigger] iict_inv(mb, mc, r1, rest, lg, cap) && large_descendants@ == lq.remove(d).union(lg);
                assert(r1 =~= seq![d]);
                lemma_incr_iter(ma, mb, mc, al, d, sel, rest, lg, cap);
                lemma_incr_step(m0, ma, mc, rs, lq, lq.remove(d).union(lg), cap, d, tnodes(mc, tn(d)).remove(d), lg);
                assert(same_except(v0, vc, i, true, false, false, false)) by {
                    assert forall|k: AKey| !(k.index == i && k.kind == NodeMode::Tree) implies (#[trigger] v0.contains_key(k) == vc.contains_key(k) && (v0.contains_key(k) ==> v0[k] == vc[k])) by { assert(v0.contains_key(k) == vb.contains_key(k)); }
                }
            }
//@hint before#2 <<<Ok(())>>>
        proof { assert(large_descendants@ == Set::<u32>::empty()); }
//@specfile lib/contracts/incremental_index_large_descendants.spec
//@end
}
} // verus!
fn main() {}
