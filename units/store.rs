// Unit `store`: item-store mutators and queries of the Writer (C05, C06, C07, C19)
#![allow(non_snake_case, unused, deprecated)]
use vstd::prelude::*;
verus! {
//@include lib/prelude.rs
//@include lib/keys.rs

//@include lib/specs_store.rs

impl Writer {
//@extract src/writer.rs | impl<D: Distance> Writer<D> | add_item
//@spec
    ensures
        other_indexes_unchanged(old(wtxn).view(), final(wtxn).view(), self.index),
        // C19: a wrong length is rejected with both lengths and changes nothing
        vector@.len() != self.dimensions ==>
            r == Err::<(), Error>(Error::InvalidVecDimension { expected: self.dimensions, received: vector@.len() as usize })
            && final(wtxn).view() == old(wtxn).view(),
        // C05 / C06: on success exactly the leaf and the updated mark are written
        r is Ok ==> vector@.len() == self.dimensions && final(wtxn).view() ==
            old(wtxn).view().insert(ikey(self.index, item), new_leaf(vector@)).insert(ukey(self.index, item), AVal::Unit),
        r matches Err(e) ==> (vector@.len() == self.dimensions ==> e is Heed),
//@end

//@extract src/writer.rs | impl<D: Distance> Writer<D> | append_item
//@spec
    ensures
        other_indexes_unchanged(old(wtxn).view(), final(wtxn).view(), self.index),
        vector@.len() != self.dimensions ==>
            r == Err::<(), Error>(Error::InvalidVecDimension { expected: self.dimensions, received: vector@.len() as usize })
            && final(wtxn).view() == old(wtxn).view(),
        // C19: append error iff some key of the whole database is not smaller than the new key
        vector@.len() == self.dimensions ==> (
            (r matches Err(Error::InvalidItemAppend)) <==>
                exists|k: AKey| old(wtxn).view().contains_key(k) && !akey_lt(k, ikey(self.index, item))),
        (r matches Err(Error::InvalidItemAppend)) ==> final(wtxn).view() == old(wtxn).view(),
        // ... and then behaves exactly like add_item
        r is Ok ==> vector@.len() == self.dimensions && final(wtxn).view() ==
            old(wtxn).view().insert(ikey(self.index, item), new_leaf(vector@)).insert(ukey(self.index, item), AVal::Unit),
        r matches Err(e) ==> e is Heed || e is InvalidItemAppend || e is InvalidVecDimension,
//@end

//@extract src/writer.rs | impl<D: Distance> Writer<D> | del_item
//@spec
    ensures
        other_indexes_unchanged(old(wtxn).view(), final(wtxn).view(), self.index),
        match r {
            // C05: reports whether the item existed; C06: marks iff something was deleted
            Ok(true) => old(wtxn).view().contains_key(ikey(self.index, item))
                && final(wtxn).view() == old(wtxn).view().remove(ikey(self.index, item)).insert(ukey(self.index, item), AVal::Unit),
            // C19: deleting an absent item changes nothing
            Ok(false) => !old(wtxn).view().contains_key(ikey(self.index, item)) && final(wtxn).view() == old(wtxn).view(),
            Err(e) => e is Heed,
        }
//@end

//@extract src/writer.rs | impl<D: Distance> Writer<D> | contains_item
//@subst count=opt
<<<
.map(|opt| opt.is_some())
===
.map(|opt: Option<()>| -> (b: bool) ensures b == (opt is Some) { opt.is_some() })
>>>
//@specfile lib/contracts/contains_item.spec
//@end

//@extract src/writer.rs | impl<D: Distance> Writer<D> | item_vector
//@subst count=opt
<<<
.map(|leaf| {
===
.map(|leaf: Leaf| -> (vec: Vec<f32>) ensures vec@ =~= trunc(Dist::dec(leaf.vector.vv()), self.dimensions as int) {
>>>
//@spec
    ensures
        // C05: present iff the item key exists; the vector is what the codec decodes, cut to the declared dimension
        r matches Ok(o) ==> match o {
            Some(v) => rtxn.view().contains_key(ikey(self.index, item)) && (rtxn.view()[ikey(self.index, item)] matches AVal::Leaf(l)
                && v@ == trunc(Dist::dec(l.vector), self.dimensions as int)),
            None => !(rtxn.view().contains_key(ikey(self.index, item)) && rtxn.view()[ikey(self.index, item)] is Leaf),
        }
//@end

//@extract src/writer.rs | impl<D: Distance> Writer<D> | iter
//@spec
    ensures
        r matches Ok(it) ==> it.inner.wf(rtxn.view(), Prefix { index: self.index, mode: Some(NodeMode::Item) }) && it.inner.pos@ == 0
            && it.dimensions == self.dimensions && it.inner.faulty@ == rtxn.read_faulty(),
        r matches Err(e) ==> e is Heed,
//@end

//@extract src/writer.rs | impl<D: Distance> Writer<D> | is_empty
//@subst count=opt
<<<
.map(|mut iter| iter.next().is_none())
===
.map(|mut iter: ItemIter| -> (b: bool)
            requires iter.inner.wf(rtxn.view(), Prefix { index: self.index, mode: Some(NodeMode::Item) }) && iter.inner.pos@ == 0 && iter.inner.faulty@ == rtxn.read_faulty()
            ensures items_are_leaves(rtxn.view(), self.index) ==> (b == !has_item(rtxn.view(), self.index) || (!b && rtxn.read_faulty()))
            { iter.next().is_none() })
>>>
//@spec
    ensures
        // C05: emptiness agrees with the set of stored items
        r matches Ok(b) ==> (items_are_leaves(rtxn.view(), self.index) ==> (b == !has_item(rtxn.view(), self.index) || (!b && rtxn.read_faulty()))),
//@end

//@extract src/writer.rs | impl<D: Distance> Writer<D> | need_build
//@spec
    ensures r matches Ok(b) ==> (b == stale(rtxn.view(), self.index) || (b && rtxn.read_faulty()))
//@end

//@extract src/writer.rs | impl<D: Distance> Writer<D> | clear
//@attr #[verifier::exec_allows_no_decreases_clause]
//@spec
    ensures
        other_indexes_unchanged(old(wtxn).view(), final(wtxn).view(), self.index),
        // C05/C06: on success nothing of this index is left (items, marks, trees, metadata, version)
        r is Ok ==> forall|k: AKey| k.index == self.index ==> !final(wtxn).view().contains_key(k),
        // nothing is ever added
        forall|k: AKey| #[trigger] final(wtxn).view().contains_key(k) ==> old(wtxn).view().contains_key(k) && final(wtxn).view()[k] == old(wtxn).view()[k],
//@loop 0
        invariant
            wtxn.view() == cursor.cur@,
            cursor.live@ ==> false,
            is_listing(old(wtxn).view(), Prefix { index: self.index, mode: None }, cursor.keys@),
            0 <= cursor.pos@ <= cursor.keys@.len(),
            !cursor.live@,
            forall|k: AKey| #[trigger] wtxn.view().contains_key(k) ==> old(wtxn).view().contains_key(k) && wtxn.view()[k] == old(wtxn).view()[k],
            forall|k: AKey| k.index != self.index && #[trigger] old(wtxn).view().contains_key(k) ==> wtxn.view().contains_key(k),
            forall|j: int| 0 <= j < cursor.pos@ ==> !wtxn.view().contains_key(cursor.keys@[j]),
        ensures
            cursor.pos@ == cursor.keys@.len(),
//@end
}

//@include lib/item_read.rs
} // verus!
fn main() {}
