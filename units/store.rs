// Unit `store`: item-store mutators and queries of the Writer (C05, C06, C07, C19)
#![allow(non_snake_case, unused, deprecated)]
use vstd::prelude::*;
verus! {
//@include lib/prelude.rs
//@include lib/keys.rs

//@include lib/specs_store.rs
//@include lib/forest.rs
//@include lib/forest_delete.rs
//@include lib/forest_drivers.rs
//@include lib/inv_specs.rs
//@include lib/inv_store.rs

impl Writer {
//@extract src/writer.rs | impl<D: Distance> Writer<D> | add_item
//@hint before#1 <<<Ok(())>>>
        proof {
            let v0 = old(wtxn).view(); let v1 = wtxn.view(); let i = self.index;
            assert forall|cap: u64| #![trigger index_inv(v1, i, cap)] index_inv(v0, i, cap) && leaves_same_len(v1, i) implies index_inv(v1, i, cap) by {
                lemma_inv_add(v0, v1, i, cap, item, v1[ikey(i, item)]);
            }
        }
//@spec
    ensures
        other_indexes_unchanged(old(wtxn).view(), final(wtxn).view(), self.index),
        // C19: a wrong length is rejected with both lengths and changes nothing
        vector@.len() != self.dimensions ==>
            r == Err::<(), Error>(Error::InvalidVecDimension { expected: self.dimensions, received: vector@.len() as usize })
            && final(wtxn).view() == old(wtxn).view(),
        // C05 / C06: on success exactly the leaf and the updated mark are written
        r is Ok ==> vector@.len() == self.dimensions && final(wtxn).view() ==
            old(wtxn).view().insert(ikey(self.index, item), new_leaf(vector@)).insert(ukey(self.index, item), AVal::Unit),
        r matches Err(e) ==> (vector@.len() == self.dimensions ==> e is Heed),
        // C01 (history induction): a successful call preserves the representation invariant that Writer::build requires and re-establishes
        // (hypothesis: the new leaf has the common encoded length — a codec fact, C16)
        r is Ok ==> forall|cap: u64| #![trigger index_inv(final(wtxn).view(), self.index, cap)] index_inv(old(wtxn).view(), self.index, cap) && leaves_same_len(final(wtxn).view(), self.index)
            ==> index_inv(final(wtxn).view(), self.index, cap),
//@end

//@extract src/writer.rs | impl<D: Distance> Writer<D> | append_item
//@hint before#2 <<<Ok(())>>>
        proof {
            let v0 = old(wtxn).view(); let v1 = wtxn.view(); let i = self.index;
            assert forall|cap: u64| #![trigger index_inv(v1, i, cap)] index_inv(v0, i, cap) && leaves_same_len(v1, i) implies index_inv(v1, i, cap) by {
                lemma_inv_add(v0, v1, i, cap, item, v1[ikey(i, item)]);
            }
        }
//@spec
    ensures
        other_indexes_unchanged(old(wtxn).view(), final(wtxn).view(), self.index),
        vector@.len() != self.dimensions ==>
            r == Err::<(), Error>(Error::InvalidVecDimension { expected: self.dimensions, received: vector@.len() as usize })
            && final(wtxn).view() == old(wtxn).view(),
        // C19: append error iff some key of the whole database is not smaller than the new key
        vector@.len() == self.dimensions ==> (
            (r matches Err(Error::InvalidItemAppend)) <==>
                exists|k: AKey| old(wtxn).view().contains_key(k) && !akey_lt(k, ikey(self.index, item))),
        (r matches Err(Error::InvalidItemAppend)) ==> final(wtxn).view() == old(wtxn).view(),
        // ... and then behaves exactly like add_item
        r is Ok ==> vector@.len() == self.dimensions && final(wtxn).view() ==
            old(wtxn).view().insert(ikey(self.index, item), new_leaf(vector@)).insert(ukey(self.index, item), AVal::Unit),
        r matches Err(e) ==> e is Heed || e is InvalidItemAppend || e is InvalidVecDimension,
        // C01 (history induction): a successful call preserves the representation invariant that Writer::build requires and re-establishes
        // (hypothesis: the new leaf has the common encoded length — a codec fact, C16)
        r is Ok ==> forall|cap: u64| #![trigger index_inv(final(wtxn).view(), self.index, cap)] index_inv(old(wtxn).view(), self.index, cap) && leaves_same_len(final(wtxn).view(), self.index)
            ==> index_inv(final(wtxn).view(), self.index, cap),
//@end

//@extract src/writer.rs | impl<D: Distance> Writer<D> | del_item
//@hint before <<<Ok(true)>>>
            proof {
                let v0 = old(wtxn).view(); let v1 = wtxn.view(); let i = self.index;
                assert forall|cap: u64| #![trigger index_inv(v1, i, cap)] index_inv(v0, i, cap) implies index_inv(v1, i, cap) by { lemma_inv_del(v0, v1, i, cap, item); }
            }
//@hint before <<<Ok(false)>>>
            proof {
                let v0 = old(wtxn).view(); let v1 = wtxn.view(); let i = self.index;
                assert(v1 == v0);
                assert forall|cap: u64| #![trigger index_inv(v1, i, cap)] index_inv(v0, i, cap) implies index_inv(v1, i, cap) by { }
            }
//@spec
    ensures
        other_indexes_unchanged(old(wtxn).view(), final(wtxn).view(), self.index),
        match r {
            // C05: reports whether the item existed; C06: marks iff something was deleted
            Ok(true) => old(wtxn).view().contains_key(ikey(self.index, item))
                && final(wtxn).view() == old(wtxn).view().remove(ikey(self.index, item)).insert(ukey(self.index, item), AVal::Unit),
            // C19: deleting an absent item changes nothing
            Ok(false) => !old(wtxn).view().contains_key(ikey(self.index, item)) && final(wtxn).view() == old(wtxn).view(),
            Err(e) => e is Heed,
        },
        // C01 (history induction): the representation invariant that Writer::build requires is preserved
        r is Ok ==> forall|cap: u64| #![trigger index_inv(final(wtxn).view(), self.index, cap)] index_inv(old(wtxn).view(), self.index, cap) ==> index_inv(final(wtxn).view(), self.index, cap),
//@end

//@extract src/writer.rs | impl<D: Distance> Writer<D> | contains_item
//@subst
<<<
.map(|opt| opt.is_some())
===
.map(|opt: Option<()>| -> (b: bool) ensures b == (opt is Some) { opt.is_some() })
>>>
//@specfile lib/contracts/contains_item.spec
//@end

//@extract src/writer.rs | impl<D: Distance> Writer<D> | item_vector
//@subst
<<<
.map(|leaf| {
===
.map(|leaf: Leaf| -> (vec: Vec<f32>) ensures vec@ =~= trunc(Dist::dec(leaf.vector.vv()), self.dimensions as int) {
>>>
//@spec
    ensures
        // C05: present iff the item key exists; the vector is what the codec decodes, cut to the declared dimension
        r matches Ok(o) ==> match o {
            Some(v) => rtxn.view().contains_key(ikey(self.index, item)) && (rtxn.view()[ikey(self.index, item)] matches AVal::Leaf(l)
                && v@ == trunc(Dist::dec(l.vector), self.dimensions as int)),
            None => !(rtxn.view().contains_key(ikey(self.index, item)) && rtxn.view()[ikey(self.index, item)] is Leaf),
        }
//@end

//@extract src/writer.rs | impl<D: Distance> Writer<D> | iter
//@spec
    ensures
        r matches Ok(it) ==> it.inner.wf(rtxn.view(), Prefix { index: self.index, mode: Some(NodeMode::Item) }) && it.inner.pos@ == 0
            && it.dimensions == self.dimensions && it.inner.faulty@ == rtxn.read_faulty(),
        r matches Err(e) ==> e is Heed,
//@end

//@extract src/writer.rs | impl<D: Distance> Writer<D> | is_empty
//@subst
<<<
.map(|mut iter| iter.next().is_none())
===
.map(|mut iter: ItemIter| -> (b: bool)
            requires iter.inner.wf(rtxn.view(), Prefix { index: self.index, mode: Some(NodeMode::Item) }) && iter.inner.pos@ == 0 && iter.inner.faulty@ == rtxn.read_faulty()
            ensures items_are_leaves(rtxn.view(), self.index) ==> (b == !has_item(rtxn.view(), self.index) || (!b && rtxn.read_faulty()))
            { iter.next().is_none() })
>>>
//@spec
    ensures
        // C05: emptiness agrees with the set of stored items
        r matches Ok(b) ==> (items_are_leaves(rtxn.view(), self.index) ==> (b == !has_item(rtxn.view(), self.index) || (!b && rtxn.read_faulty()))),
//@end

//@extract src/writer.rs | impl<D: Distance> Writer<D> | need_build
//@spec
    ensures r matches Ok(b) ==> (b == stale(rtxn.view(), self.index) || (b && rtxn.read_faulty()))
//@end

//@extract src/writer.rs | impl<D: Distance> Writer<D> | clear
//@attr #[verifier::exec_allows_no_decreases_clause]
//@hint before#2 <<<Ok(())>>>
        proof {
            let v1 = wtxn.view(); let i = self.index;
            assert forall|k: AKey| k.index == i implies !v1.contains_key(k) by {
                if v1.contains_key(k) {
                    assert(old(wtxn).view().contains_key(k));
                }
            }
            assert forall|cap: u64| #![trigger index_inv(v1, i, cap)] index_inv(v1, i, cap) by {
                assert(!v1.contains_key(mkey(i)));
                assert forall|x: u32| !v1.contains_key(tkey(i, x)) by { }
                assert(leaves_same_len(v1, i)) by {
                    assert forall|a: u32, b: u32, x: NodeBytes, y: NodeBytes| #![trigger x.aval(), y.aval(), ikey(i, a), ikey(i, b)]
                        v1.contains_key(ikey(i, a)) && v1.contains_key(ikey(i, b)) && x.aval() == v1[ikey(i, a)] && y.aval() == v1[ikey(i, b)] implies x.blen() == y.blen() by { }
                }
                lemma_inv_no_forest(v1, i, cap);
            }
        }
//@spec
    ensures
        other_indexes_unchanged(old(wtxn).view(), final(wtxn).view(), self.index),
        // C05/C06: on success nothing of this index is left (items, marks, trees, metadata, version)
        r is Ok ==> forall|k: AKey| k.index == self.index ==> !final(wtxn).view().contains_key(k),
        // nothing is ever added
        forall|k: AKey| #[trigger] final(wtxn).view().contains_key(k) ==> old(wtxn).view().contains_key(k) && final(wtxn).view()[k] == old(wtxn).view()[k],
        // C01 (history induction): a cleared index satisfies the representation invariant (its "no metadata" branch)
        r is Ok ==> forall|cap: u64| #![trigger index_inv(final(wtxn).view(), self.index, cap)] index_inv(final(wtxn).view(), self.index, cap),
//@loop 0
        invariant
            wtxn.view() == cursor.cur@,
            cursor.live@ ==> false,
            is_listing(old(wtxn).view(), Prefix { index: self.index, mode: None }, cursor.keys@),
            0 <= cursor.pos@ <= cursor.keys@.len(),
            !cursor.live@,
            forall|k: AKey| #[trigger] wtxn.view().contains_key(k) ==> old(wtxn).view().contains_key(k) && wtxn.view()[k] == old(wtxn).view()[k],
            forall|k: AKey| k.index != self.index && #[trigger] old(wtxn).view().contains_key(k) ==> wtxn.view().contains_key(k),
            forall|j: int| 0 <= j < cursor.pos@ ==> !wtxn.view().contains_key(cursor.keys@[j]),
        ensures
            cursor.pos@ == cursor.keys@.len(),
//@end
}

//@include lib/item_read.rs
} // verus!
fn main() {}
