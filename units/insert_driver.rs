// Unit `insert_driver`: Writer::insert_items_in_current_trees — the multi-pass, multi-tree insertion driver (C01, C07, C13, C15)
#![allow(non_snake_case, unused, deprecated)]
use vstd::prelude::*;
verus! {
//@include lib/prelude.rs
//@include lib/keys.rs
//@include lib/specs_store.rs
//@include lib/forest.rs
//@include lib/forest_delete.rs
//@include lib/frozen.rs
//@include lib/forest_insert.rs
//@include lib/forest_drivers.rs
//@include lib/writeback.rs
//@include lib/forest_iict.rs
//@include lib/frozen_build.rs
pub open spec fn cap_of(opt: &BuildOption, dimensions: usize) -> u64 {
    (match opt.split_after { Some(s) => s, None => dimensions }) as u64
}

impl ImmutableTrees {
// the snap clauses are the contracts PROVED in unit `trees_new`; the db_has clause only NAMES (ghost) the tree ids the database held when the view was frozen
//@extract src/parallel.rs | impl<'t, D: Distance> ImmutableTrees<'t, D> | new
//@stub
//@specfile lib/contracts/immutable_trees_new.spec
//@spec
        r matches Ok(t) ==> (forall|id: u32| #![trigger t.db_has(id)] t.db_has(id) <==> rtxn.view().contains_key(tkey(index, id))),
//@end
//@extract src/parallel.rs | impl<'t, D: Distance> ImmutableTrees<'t, D> | sub_tree_from_id
//@stub
//@specfile lib/contracts/immutable_trees_sub_tree.spec
//@spec
        r matches Ok(t) ==> (forall|id: u32| #![trigger t.db_has(id)] t.db_has(id) <==> rtxn.view().contains_key(tkey(index, id))),
//@end
}

impl Writer {
//@extract src/writer.rs | impl<D: Distance> Writer<D> | insert_items_in_tree
//@stub
//@specfile lib/contracts/insert_items_in_tree.spec
//@end

//@extract src/writer.rs | impl<D: Distance> Writer<D> | insert_items_in_current_trees
//@veciter tmp_descendant_to_write
//@attr #[verifier::exec_allows_no_decreases_clause]
//@hint start <<<>>>
        let ghost v0 = wtxn.view(); let ghost i = self.index; let ghost m0 = tmap(v0, i); let ghost ins0 = to_insert@;
        let ghost cap = cap_of(options, self.dimensions); let ghost rs = roots@;
        let ghost mut done = Set::<u32>::empty();
        proof { lemma_iict_init(m0, rs, cap); }
//@loop 0
        invariant
            i == self.index, rs == roots@, rs.len() > 0, cap == cap_of(options, self.dimensions), cap >= 1, m0 == tmap(v0, i), v0 == old(wtxn).view(),
            concurrent_node_ids.covers(self.index),
            same_except(v0, wtxn.view(), i, true, false, false, false), tree_keys_ok(wtxn.view(), i), leaves_same_len(v0, i),
            iict_inv(m0, tmap(wtxn.view(), i), rs, done, large_descendants@, cap),
            forall|x: u32| #![trigger ins0.contains(x)] ins0.contains(x) <==> done.contains(x) || to_insert@.contains(x),
            forall|x: u32| #![trigger done.contains(x)] !(done.contains(x) && to_insert@.contains(x)),
            forall|id: u32| ins0.contains(id) ==> v0.contains_key(ikey(i, id)),
            forall|k: int| 0 <= k < rs.len() ==> ins0.disjoint(titems(m0, tn(#[trigger] rs[k]))),
        // C14: every pass strictly shrinks the set of ids still to insert (ImmutableLeafs::new selects at least one id): the batching loop
        // ends after at most |to_insert| passes, whatever the memory hint (assuming the calls it makes return)
        decreases to_insert@.len(),
//@loopstart 0
            let ghost va = wtxn.view(); let ghost ma = tmap(va, i); let ghost pend = to_insert@; let ghost lg0 = large_descendants@;
            proof {
                assert(tree(ma, tn(rs[0])));
                assert(leaves_same_len(va, i)) by {
                    assert forall|a: u32, b: u32, x: NodeBytes, y: NodeBytes| #![trigger x.aval(), y.aval(), ikey(i, a), ikey(i, b)]
                        va.contains_key(ikey(i, a)) && va.contains_key(ikey(i, b)) && x.aval() == va[ikey(i, a)] && y.aval() == va[ikey(i, b)] implies x.blen() == y.blen() by {
                        assert(v0.contains_key(ikey(i, a)) && v0[ikey(i, a)] == va[ikey(i, a)]);
                        assert(v0.contains_key(ikey(i, b)) && v0[ikey(i, b)] == va[ikey(i, b)]);
                    }
                }
                assert forall|id: u32| pend.contains(id) implies va.contains_key(ikey(i, id)) by { assert(ins0.contains(id)); assert(v0.contains_key(ikey(i, id))); }
            }
//@hint before <<<let frozzen_reader =>>>
            let ghost s = immutable_tree_nodes.snap(); let ghost sel = to_insert@;
            proof {
                assert(sel.subset_of(pend));
                // the snapshot is the tree map restricted to what the pass needs
                assert(snap_ok(s, ma, rs)) by {
                    if rs.len() == 1 {
                        lemma_nodes_exist(ma, tn(rs[0]));
                        assert forall|id: u32| #[trigger] tnodes(ma, tn(rs[0])).contains(id) implies s.contains_key(id) && s[id] == ma[id] by {
                            assert(s.contains_key(id) <==> tnodes(ma, tn(rs[0])).contains(id));
                        }
                        lemma_frame(ma, s, tn(rs[0]));
                        assert forall|k: int| 0 <= k < rs.len() implies tree(s, tn(#[trigger] rs[k])) by { assert(k == 0); }
                    } else {
                        assert forall|k: int| 0 <= k < rs.len() implies tree(s, tn(#[trigger] rs[k])) by {}
                    }
                }
                assert forall|k: int| 0 <= k < rs.len() implies tree(s, tn(#[trigger] rs[k])) && sel.disjoint(titems(s, tn(rs[k]))) by {
                    lemma_snap_trees(s, ma, rs, k);
                    assert(titems(ma, tn(rs[k])) == titems(m0, tn(rs[k])).union(done));
                    assert(ins0.disjoint(titems(m0, tn(rs[k]))));
                    assert forall|x: u32| sel.contains(x) implies !titems(s, tn(rs[k])).contains(x) by { assert(pend.contains(x)); assert(ins0.contains(x)); assert(!done.contains(x)); }
                }
                assert forall|id: u32| #![trigger s.contains_key(id)] s.contains_key(id) implies immutable_tree_nodes.db_has(id) by { assert(ma.contains_key(id)); assert(va.contains_key(tkey(i, id))); }
            }
//@hint before <<<let mut idx__0: usize = 0;>>>
            let ghost res = prs(tmp_descendant_to_write@, i);
            proof {
                axiom_distinct_staging(tmp_descendant_to_write@, i);
                lemma_pass_init(ma, rs, res, sel, cap);
                assert(fresh_ok(ma, res)) by {
                    assert forall|j: int, x: u32| #![trigger res[j].al.contains(x)] 0 <= j < res.len() && res[j].al.contains(x) implies !ma.contains_key(x) by {
                        assert(glue_one(s, res[j], rs[j], sel, cap, frozzen_reader.leafs));
                        lemma_glue_fresh(s, res[j], rs[j], sel, cap, frozzen_reader.leafs);
                        assert(tmp_descendant_to_write@[j].0.rm() == Map::<u32, u32>::empty());
                        if ma.contains_key(x) { assert(va.contains_key(tkey(i, x))); assert(immutable_tree_nodes.db_has(x)); assert(res[j].tk.contains(x)); }
                    }
                }
            }
//@loop 1
            invariant
                i == self.index, rs == roots@, res == prs(tmp_descendant_to_write@, i), res.len() == rs.len(), 0 <= idx__0 <= tmp_descendant_to_write.len(),
                ma == tmap(va, i), m0 == tmap(v0, i), v0 == old(wtxn).view(),
                forest(ma, rs), snap_ok(s, ma, rs), glue_post(s, res, rs, sel, cap, frozzen_reader.leafs), fresh_ok(ma, res),
                forall|k: int| 0 <= k < tmp_descendant_to_write@.len() ==> (#[trigger] tmp_descendant_to_write@[k]).0.rm() == Map::<u32, u32>::empty(),
                pass_inv(ma, tmap(wtxn.view(), i), rs, res, idx__0 as int, sel, cap),
                same_except(v0, wtxn.view(), i, true, false, false, false), tree_keys_ok(wtxn.view(), i),
                large_descendants@ == lg0.union(union_lg(res, idx__0 as int)),
//@hint before <<<let mut iter__1 = tmp_node.to_delete();>>>
                let ghost vk = wtxn.view(); let ghost k0 = idx__0 as int - 1; let ghost t = tmp_node.tv();
                proof {
                    assert(res[k0] == pr_of(&tmp_descendant_to_write@[k0].0, tmp_descendant_to_write@[k0].1@, i));
                    assert(glue_one(s, res[k0], rs[k0], sel, cap, frozzen_reader.leafs));
                    reveal(glue_one);
                    assert(t.deleted =~= Set::<u32>::empty());
                    axiom_bm_seq(t.deleted);
                }
//@loop 2
                invariant iter__1.pos@ == 0, iter__1.seq@.len() == 0, wtxn.view() == vk,
//@hint before <<<let mut iter__2 = tmp_node.to_insert();>>>
                proof { lemma_overlay_is_apply(tmap(vk, i), t); }
//@loop 3
                invariant
                    i == self.index, 0 <= iter__2.pos@ <= iter__2.seq@.len(),
                    wb_put(vk, wtxn.view(), i, iter__2.seq@, iter__2.pos@),
                    v0 == old(wtxn).view(), same_except(v0, vk, i, true, false, false, false), same_except(v0, wtxn.view(), i, true, false, false, false),
                    tmp_node.tv() == t, tmp_node.rm() == Map::<u32, u32>::empty(),
                    remap_ok(t, Map::<u32, u32>::empty()) ==> (forall|m: TM| #![trigger fold_puts(m, iter__2.seq@)] fold_puts(m, iter__2.seq@) == overlay(m, t, Map::<u32, u32>::empty())),
                ensures
                    iter__2.pos@ == iter__2.seq@.len(),
//@loopstart 3
                    let ghost vc = wtxn.view(); let ghost q2 = iter__2.pos@ - 1;
//@loopend 3
                    proof {
                        lemma_wb_put_step(vk, vc, wtxn.view(), i, iter__2.seq@, q2, item_id, item_bytes.aval());
                        let vd = wtxn.view();
                        assert(same_except(v0, vd, i, true, false, false, false)) by {
                            assert forall|k: AKey| !(k.index == i && k.kind == NodeMode::Tree) implies (#[trigger] v0.contains_key(k) == vd.contains_key(k) && (v0.contains_key(k) ==> v0[k] == vd[k])) by { assert(v0.contains_key(k) == vk.contains_key(k)); }
                        }
                    }
//@loopend 1
                proof {
                    let v2 = wtxn.view();
                    assert(iter__2.seq@.take(iter__2.seq@.len() as int) =~= iter__2.seq@);
                    assert(minus(tmap(vk, i), t.deleted) =~= tmap(vk, i));
                    assert(fold_puts(tmap(vk, i), iter__2.seq@) == overlay(tmap(vk, i), t, Map::<u32, u32>::empty()));
                    assert(tmap(v2, i) == apply(tmap(vk, i), res[k0].tv));
                    lemma_pass_step(s, ma, tmap(vk, i), tmap(v2, i), rs, res, k0, sel, cap, frozzen_reader.leafs);
                    assert(same_except(v0, v2, i, true, false, false, false)) by {
                        assert forall|k: AKey| !(k.index == i && k.kind == NodeMode::Tree) implies (#[trigger] v0.contains_key(k) == v2.contains_key(k) && (v0.contains_key(k) ==> v0[k] == v2[k])) by { assert(v0.contains_key(k) == vk.contains_key(k)); }
                    }
                    assert(union_lg(res, k0 + 1) == union_lg(res, k0).union(res[k0].lg));
                    assert(lg0.union(union_lg(res, k0)).union(res[k0].lg) =~= lg0.union(union_lg(res, k0 + 1)));
                }
//@loopend 0
            proof {
                assert(tmp_descendant_to_write@.len() == res.len());
                lemma_iict_pass(m0, ma, tmap(wtxn.view(), i), rs, res, done, sel, lg0, large_descendants@, cap);
                done = done.union(sel);
            }
//@hint before#2 <<<Ok(large_descendants)>>>
        proof { assert(done =~= ins0); }
//@specfile lib/contracts/insert_items_in_current_trees.spec
//@end
}
} // verus!
fn main() {}
