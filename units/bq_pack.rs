// Unit `bq_pack`: binary quantisation for EVERY length (C12): the packing loop `from_slice_non_optimized`, the plain unpacking
// iterator `BinaryQuantizedIterator::next`, `BinaryQuantized::{iter, len}` and `to_vec_non_optimized`'s source of values.
// Floats occur only through their sign (`is_sign_positive`, uninterpreted predicate `sign_pos`) and through the value the iterator
// produces from one bit (`bit as f32 * 2.0 - 1.0`, stand-in `pm_one_`: the arithmetic itself is decided by Kani unit bq_codec).
#![allow(non_snake_case, non_camel_case_types, unused, deprecated)]
use vstd::prelude::*;
verus! {
global size_of usize == 8;

pub type QuantizedWord = u64;
// the three constants of src/unaligned_vector/binary_quantized.rs (their text is pinned by the static guard `bq_word_constants`)
pub const QUANTIZED_WORD_BITS: usize = 64;
pub const QUANTIZED_WORD_BYTES: usize = 8;

// ---- bits of words, words of bytes ------------------------------------------------------------------------------------------
pub open spec fn bit(w: u64, j: int) -> bool { (w >> (j as u64)) & 1 == 1 }
/// native-endian byte image of a word (uninterpreted: the proofs never depend on the byte order), with its inverse
pub uninterp spec fn ne_bytes(w: u64) -> Seq<u8>;
pub uninterp spec fn ne_word(b: Seq<u8>) -> u64;
#[verifier::external_body]
pub broadcast proof fn axiom_ne_bytes(w: u64)
    ensures #[trigger] ne_bytes(w).len() == 8, ne_word(ne_bytes(w)) == w
{ }
/// the k-th word of a byte string
pub open spec fn word_at(b: Seq<u8>, k: int) -> u64 { ne_word(b.subrange(8 * k, 8 * k + 8)) }
/// the sign bits a byte string holds: 64 per complete word, lowest bit first
pub open spec fn bits_of(b: Seq<u8>) -> Seq<bool> { Seq::new(((b.len() / 8) * 64) as nat, |i: int| bit(word_at(b, i / 64), i % 64)) }
/// what quantising `s` must store: the sign of every component, then `false` up to the next multiple of 64
pub open spec fn padded_len(n: int) -> int { ((n + 63) / 64) * 64 }
pub uninterp spec fn sign_pos(x: f32) -> bool;
pub open spec fn signs_of(s: Seq<f32>) -> Seq<bool> { Seq::new(padded_len(s.len() as int) as nat, |i: int| i < s.len() && sign_pos(s[i])) }

pub assume_specification[f32::is_sign_positive](x: f32) -> (r: bool) ensures r == sign_pos(x);
/// `word.to_ne_bytes()` (Verus cannot name the array length constant of the std signature)
#[verifier::external_body]
pub fn to_ne_bytes_(x: u64) -> (r: [u8; 8]) ensures r@ == ne_bytes(x) { x.to_ne_bytes() }

/// `b as QuantizedWord` for a bool
pub fn bool_word_(b: bool) -> (r: u64) ensures r == (if b { 1u64 } else { 0u64 }) { if b { 1 } else { 0 } }

// ---- std iterators used by the two functions (trusted stand-ins: std semantics of chunks / iter().rev() / chunks_exact) -----
pub struct ChunksIt<'a> { pub s: &'a [f32], pub pos: usize, pub n: usize }
pub fn chunks_<'a>(s: &'a [f32], n: usize) -> (r: ChunksIt<'a>) requires n > 0 ensures r.s@ == s@, r.pos == 0, r.n == n { ChunksIt { s, pos: 0, n } }
impl<'a> ChunksIt<'a> {
    #[verifier::external_body]
    pub fn next(&mut self) -> (r: Option<&'a [f32]>)
        requires old(self).n > 0, old(self).pos <= old(self).s@.len()
        ensures final(self).s@ == old(self).s@, final(self).n == old(self).n,
            old(self).pos >= old(self).s@.len() ==> r is None && final(self).pos == old(self).pos,
            old(self).pos < old(self).s@.len() ==> r is Some
                && final(self).pos == (if old(self).pos + old(self).n <= old(self).s@.len() { old(self).pos + old(self).n } else { old(self).s@.len() as int })
                && r->0@ == old(self).s@.subrange(old(self).pos as int, final(self).pos as int),
    { unimplemented!() }
}
pub struct RevIt<'a> { pub s: &'a [f32], pub k: usize }
pub fn rev_iter_<'a>(s: &'a [f32]) -> (r: RevIt<'a>) ensures r.s@ == s@, r.k == s@.len() { RevIt { s, k: s.len() } }
impl<'a> RevIt<'a> {
    pub fn next(&mut self) -> (r: Option<&'a f32>)
        requires old(self).k <= old(self).s@.len()
        ensures final(self).s@ == old(self).s@,
            old(self).k == 0 ==> r is None && final(self).k == 0,
            old(self).k > 0 ==> r is Some && final(self).k == old(self).k - 1 && *r->0 == old(self).s@[old(self).k - 1],
    { if self.k == 0 { None } else { self.k = self.k - 1; Some(&self.s[self.k]) } }
}
/// `bytes.chunks_exact(8)`: the complete 8-byte groups in order, the incomplete tail is never yielded
pub struct ChunksExact<'a> { pub rest: Ghost<Seq<u8>>, pub _p: core::marker::PhantomData<&'a u8> }
pub fn chunks_exact_<'a>(b: &'a [u8], n: usize) -> (r: ChunksExact<'a>) requires n == 8 ensures r.rest@ == b@ { ChunksExact { rest: Ghost(b@), _p: core::marker::PhantomData } }
impl<'a> ChunksExact<'a> {
    #[verifier::external_body]
    pub fn next(&mut self) -> (r: Option<&'a [u8]>)
        ensures old(self).rest@.len() < 8 ==> r is None && final(self).rest@ == old(self).rest@,
            old(self).rest@.len() >= 8 ==> r is Some && r->0@ == old(self).rest@.subrange(0, 8) && final(self).rest@ == old(self).rest@.skip(8),
    { unimplemented!() }
}
/// `QuantizedWord::from_ne_bytes(bytes.try_into().unwrap())`: the conversion cannot fail on 8 bytes
#[verifier::external_body]
pub fn word_from_ne_(b: &[u8]) -> (r: u64) requires b@.len() == 8 ensures r == ne_word(b@) { unimplemented!() }
/// `bit as f32 * 2.0 - 1.0` for bit in {0, 1}: +1.0 / -1.0 (the float arithmetic is proved by Kani: bq_codec)
pub uninterp spec fn is_plus_one(x: f32) -> bool;
#[verifier::external_body]
pub fn pm_one_(bit: u64) -> (r: f32) requires bit <= 1 ensures is_plus_one(r) == (bit == 1) { unimplemented!() }

pub struct UnalignedVector { pub vector: Vec<u8> }

// ---- bit-vector facts ---------------------------------------------------------------------------------------------------------
pub proof fn lemma_push_bit(w: u64, b: u64)
    requires b <= 1
    ensures (w << 1) <= 0xffff_ffff_ffff_fffeu64,
        // `+`, `|` and `^` of the new low bit are the same word (so a rewrite of `word += bit` as `word |= bit` stays proved)
        ((w << 1) | b) == ((w << 1) + b) as u64, ((w << 1) ^ b) == ((w << 1) + b) as u64,
        bit(((w << 1) + b) as u64, 0) == (b == 1),
        forall|j: int| 1 <= j < 64 ==> #[trigger] bit(((w << 1) + b) as u64, j) == bit(w, j - 1),
{
    assert((w << 1) <= 0xffff_ffff_ffff_fffeu64) by(bit_vector);
    let x = ((w << 1) + b) as u64;
    assert(x == (w << 1) | b) by(bit_vector) requires b <= 1, x == add(w << 1, b);
    assert(((w << 1) ^ b) == ((w << 1) | b)) by(bit_vector) requires b <= 1;
    assert(((((w << 1) | b) >> 0u64) & 1 == 1) == (b == 1)) by(bit_vector) requires b <= 1;
    assert forall|j: int| 1 <= j < 64 implies #[trigger] bit(x, j) == bit(w, j - 1) by {
        let ju = j as u64;
        assert((((w << 1) | b) >> ju) & 1 == (w >> ((ju - 1) as u64)) & 1) by(bit_vector) requires b <= 1, 1 <= ju < 64;
    }
}
pub proof fn lemma_zero_bits()
    ensures forall|j: int| 0 <= j < 64 ==> !#[trigger] bit(0u64, j)
{
    assert forall|j: int| 0 <= j < 64 implies !#[trigger] bit(0u64, j) by {
        let ju = j as u64;
        assert((0u64 >> ju) & 1 == 0) by(bit_vector) requires ju < 64;
    }
}
pub proof fn lemma_shift_bits(e: u64)
    ensures forall|j: int| 0 <= j < 63 ==> #[trigger] bit(e >> 1, j) == bit(e, j + 1),
        (e & 1) <= 1, (e & 1 == 1) == bit(e, 0),
        // the arithmetic spellings of the same step
        e / 2 == e >> 1, e % 2 == e & 1,
{
    assert(e / 2 == e >> 1) by(bit_vector);
    assert(e % 2 == e & 1) by(bit_vector);
    assert((e & 1) <= 1) by(bit_vector);
    assert((e & 1) == ((e >> 0u64) & 1)) by(bit_vector);
    assert forall|j: int| 0 <= j < 63 implies #[trigger] bit(e >> 1, j) == bit(e, j + 1) by {
        let ju = j as u64;
        assert(((e >> 1) >> ju) & 1 == (e >> ((ju + 1) as u64)) & 1) by(bit_vector) requires ju < 63;
    }
}
/// two byte strings with the same words hold the same bits
pub proof fn lemma_bits_ext(b: Seq<u8>, want: Seq<bool>)
    requires b.len() % 8 == 0, want.len() == (b.len() / 8) * 64,
        forall|k: int, j: int| 0 <= k < b.len() / 8 && 0 <= j < 64 ==> #[trigger] bit(word_at(b, k), j) == want[64 * k + j],
    ensures bits_of(b) =~= want
{
    assert forall|i: int| 0 <= i < want.len() implies bits_of(b)[i] == want[i] by {
        let k = i / 64; let j = i % 64;
        assert(0 <= k < b.len() / 8 && 0 <= j < 64 && i == 64 * k + j);
        assert(bit(word_at(b, k), j) == want[64 * k + j]);
    }
}

// ---- packing ------------------------------------------------------------------------------------------------------------------
/// after `w` complete passes of the outer loop the output holds exactly the first `w` words of the wanted pattern
pub open spec fn packed_upto(out: Seq<u8>, s: Seq<f32>, w: int) -> bool {
    out.len() == 8 * w
    && forall|k: int, j: int| 0 <= k < w && 0 <= j < 64 ==> #[trigger] bit(word_at(out, k), j) == (64 * k + j < s.len() && sign_pos(s[64 * k + j]))
}
pub proof fn lemma_packed_append(out: Seq<u8>, s: Seq<f32>, w: int, word: u64)
    requires packed_upto(out, s, w), w >= 0,
        forall|j: int| 0 <= j < 64 ==> #[trigger] bit(word, j) == (64 * w + j < s.len() && sign_pos(s[64 * w + j])),
    ensures packed_upto(out + ne_bytes(word), s, w + 1)
{
    broadcast use axiom_ne_bytes;
    let o2 = out + ne_bytes(word);
    assert forall|k: int, j: int| 0 <= k < w + 1 && 0 <= j < 64 implies #[trigger] bit(word_at(o2, k), j) == (64 * k + j < s.len() && sign_pos(s[64 * k + j])) by {
        if k < w {
            assert(o2.subrange(8 * k, 8 * k + 8) =~= out.subrange(8 * k, 8 * k + 8));
            assert(bit(word_at(out, k), j) == (64 * k + j < s.len() && sign_pos(s[64 * k + j])));
        } else {
            assert(o2.subrange(8 * k, 8 * k + 8) =~= ne_bytes(word));
        }
    }
}

//@extract src/unaligned_vector/binary_quantized.rs | - | from_slice_non_optimized
//@subst
<<<
pub(super) fn
===
pub fn
>>>
//@subst
<<<
slice.chunks(QUANTIZED_WORD_BITS)
===
chunks_(slice, QUANTIZED_WORD_BITS)
>>>
//@subst
<<<
chunk.iter().rev()
===
rev_iter_(chunk)
>>>
//@subst
<<<
word.to_ne_bytes()
===
to_ne_bytes_(word)
>>>
//@spec
    ensures
        // C12: the stored bits are exactly the sign pattern, `false` (read back as -1) in the padding, 8 bytes per 64 components
        r@.len() == 8 * ((slice@.len() + 63) / 64),
        bits_of(r@) =~= signs_of(slice@),
//@loop 0
        invariant
            iter__0.n == 64, iter__0.s@ == slice@, iter__0.pos <= slice@.len(),
            iter__0.pos % 64 == 0 || iter__0.pos == slice@.len(),
            packed_upto(output@, slice@, (iter__0.pos + 63) / 64),
        ensures iter__0.pos == slice@.len(),
//@loop 1
        invariant
            iter__1.s@ == chunk@, iter__1.k <= chunk@.len(), chunk@.len() <= 64,
            forall|j: int| 0 <= j < chunk@.len() - iter__1.k ==> #[trigger] bit(word, j) == sign_pos(chunk@[iter__1.k + j]),
            forall|j: int| chunk@.len() - iter__1.k <= j < 64 ==> !#[trigger] bit(word, j),
        ensures iter__1.k == 0,
//@hint before <<<let mut iter__1>>>
        proof { lemma_zero_bits(); }
//@loopstart 1
        proof { lemma_push_bit(word, if sign_pos(*scalar) { 1u64 } else { 0u64 }); }
//@hint before <<<output.extend_from_slice>>>
        proof {
            let p0 = (iter__0.pos - chunk@.len()) as int;
            assert(p0 % 64 == 0 && p0 >= 0);
            let w = p0 / 64;
            assert((p0 + 63) / 64 == w);
            assert forall|j: int| 0 <= j < 64 implies #[trigger] bit(word, j) == (64 * w + j < slice@.len() && sign_pos(slice@[64 * w + j])) by {
                if j < chunk@.len() { assert(chunk@[j] == slice@[p0 + j]); }
            }
            lemma_packed_append(output@, slice@, w, word);
            assert((iter__0.pos + 63) / 64 == w + 1);
        }
        let ghost o0__ = output@;
//@hint afterstmt <<<output.extend_from_slice>>>
        proof { assert(output@ =~= o0__ + ne_bytes(word)); }
//@hint before#2 <<<    output>>>
        proof {
            assert(iter__0.pos == slice@.len());
            lemma_bits_ext(output@, signs_of(slice@));
        }
//@end

// ---- unpacking ----------------------------------------------------------------------------------------------------------------
/// the bits still to come from the word being consumed (already shifted right `it` times)
pub open spec fn cur_bits(e: u64, it: int) -> Seq<bool> { Seq::new((if it < 64 { 64 - it } else { 0 }) as nat, |j: int| bit(e, j)) }
pub proof fn lemma_bits_unfold(b: Seq<u8>)
    requires b.len() >= 8
    ensures bits_of(b) =~= cur_bits(word_at(b, 0), 0) + bits_of(b.skip(8))
{
    let rhs = cur_bits(word_at(b, 0), 0) + bits_of(b.skip(8));
    assert(b.skip(8).len() == b.len() - 8);
    assert((b.len() / 8) * 64 == 64 + ((b.len() - 8) / 8) * 64);
    assert forall|i: int| 0 <= i < bits_of(b).len() implies bits_of(b)[i] == rhs[i] by {
        if i >= 64 {
            let k = i / 64;
            assert((i - 64) / 64 == k - 1 && (i - 64) % 64 == i % 64);
            assert(b.skip(8).subrange(8 * (k - 1), 8 * (k - 1) + 8) =~= b.subrange(8 * k, 8 * k + 8));
        }
    }
}
pub proof fn lemma_take_bit(e: u64, it: int, tail: Seq<bool>)
    requires 0 <= it < 64
    ensures (cur_bits(e, it) + tail)[0] == bit(e, 0), (cur_bits(e, it) + tail).skip(1) =~= cur_bits(e >> 1, it + 1) + tail
{
    lemma_shift_bits(e);
}
pub proof fn lemma_short_tail(b: Seq<u8>)
    requires b.len() < 8
    ensures bits_of(b).len() == 0
{ }

pub struct BinaryQuantizedIterator<'a> { pub current_element: QuantizedWord, pub current_iteration: usize, pub iter: ChunksExact<'a> }
impl<'a> BinaryQuantizedIterator<'a> {
    /// the sign bits the iterator has not produced yet
    pub open spec fn view(&self) -> Seq<bool> { cur_bits(self.current_element, self.current_iteration as int) + bits_of(self.iter.rest@) }
//@extract src/unaligned_vector/binary_quantized.rs | impl Iterator for BinaryQuantizedIterator<'_> | next
//@subst
<<<
Option<Self::Item>
===
Option<f32>
>>>
//@subst
<<<
fn next(
===
pub fn next(
>>>
//@subst
<<<
QuantizedWord::from_ne_bytes(bytes.try_into_unwrap_())
===
word_from_ne_(bytes)
>>>
//@subst
<<<
Some(bit as f32 * 2.0 - 1.0)
===
Some(pm_one_(bit))
>>>
//@spec
    requires old(self).current_iteration <= 64
    ensures
        final(self).current_iteration <= 64,
        // C12: the plain iterator yields the stored bits in order, +1 for a set bit and -1 otherwise, and nothing else
        old(self)@.len() == 0 ==> r is None && final(self)@ =~= old(self)@,
        old(self)@.len() > 0 ==> r is Some && is_plus_one(r->0) == old(self)@[0] && final(self)@ =~= old(self)@.skip(1),
//@hint start <<<>>>
        proof { if self.iter.rest@.len() >= 8 { lemma_bits_unfold(self.iter.rest@); } else { lemma_short_tail(self.iter.rest@); } }
//@hint before <<<let bit = >>>
        proof { lemma_take_bit(self.current_element, self.current_iteration as int, bits_of(self.iter.rest@)); lemma_shift_bits(self.current_element); }
//@end
}

pub struct BinaryQuantized;
impl BinaryQuantized {
//@extract src/unaligned_vector/binary_quantized.rs | impl UnalignedVectorCodec for BinaryQuantized | iter
//@subst
<<<
fn iter(vec: &UnalignedVector<Self>) -> impl ExactSizeIterator<Item = f32> + '_
===
pub fn iter(vec: &UnalignedVector) -> BinaryQuantizedIterator<'_>
>>>
//@subst
<<<
vec.vector.chunks_exact(QUANTIZED_WORD_BYTES)
===
chunks_exact_(vec.vector.as_slice(), QUANTIZED_WORD_BYTES)
>>>
//@spec
    ensures r@ =~= bits_of(vec.vector@), r.current_iteration <= 64,
//@end
//@extract src/unaligned_vector/binary_quantized.rs | impl UnalignedVectorCodec for BinaryQuantized | len
//@subst
<<<
fn len(vec: &UnalignedVector<Self>)
===
pub fn len(vec: &UnalignedVector)
>>>
//@spec
    requires vec.vector@.len() <= usize::MAX / 8
    // the dimension a quantised vector reports is the number of stored bits (a multiple of 64: the padding counts)
    ensures r == bits_of(vec.vector@).len(),
//@end
}

pub struct SizeMismatch { pub vector_codec: &'static str, pub rem: usize }
/// `transmute::<&[u8], &UnalignedVector<Self>>(bytes)`: `UnalignedVector` is a transparent wrapper of the bytes (the unsafe
/// reinterpretation itself is in the trusted base)
#[verifier::external_body]
pub fn uv_from_bytes_(bytes: &[u8]) -> (r: UnalignedVector) ensures r.vector@ == bytes@ { unimplemented!() }
impl BinaryQuantized {
//@extract src/unaligned_vector/binary_quantized.rs | impl UnalignedVectorCodec for BinaryQuantized | from_bytes
//@subst
<<<
fn from_bytes(bytes: &[u8]) -> Result<Cow<UnalignedVector<Self>>, SizeMismatch>
===
pub fn from_bytes(bytes: &[u8]) -> Result<UnalignedVector, SizeMismatch>
>>>
//@subst
<<<
Ok(cow_borrowed({ transmute::<&[u8], &UnalignedVector<Self>>(bytes) }))
===
Ok(uv_from_bytes_(bytes))
>>>
//@spec
    ensures
        // a quantised vector is accepted iff it consists of complete 64-bit words, and then it is exactly those bytes
        bytes@.len() % 8 == 0 ==> r is Ok && r->Ok_0.vector@ == bytes@,
        bytes@.len() % 8 != 0 ==> r is Err && r->Err_0.rem == bytes@.len() % 8,
//@end
}

// ---- the plain f32 codec: size check and length for every byte length (C16 / C05 cross-check of the Kani harness at <= 12 bytes) ----
pub struct UnalignedVectorF32 { pub vector: Vec<u8> }
#[verifier::external_body]
pub fn uvf_from_bytes_(bytes: &[u8]) -> (r: UnalignedVectorF32) ensures r.vector@ == bytes@ { unimplemented!() }
/// `size_of::<f32>()`
pub fn size_of_f32_() -> (r: usize) ensures r == 4 { 4 }
pub struct F32Codec;
impl F32Codec {
//@extract src/unaligned_vector/f32.rs | impl UnalignedVectorCodec for f32 | from_bytes
//@subst
<<<
fn from_bytes(bytes: &[u8]) -> Result<Cow<UnalignedVector<Self>>, SizeMismatch>
===
pub fn from_bytes(bytes: &[u8]) -> Result<UnalignedVectorF32, SizeMismatch>
>>>
//@subst
<<<
size_of::<f32>()
===
size_of_f32_()
>>>
//@subst
<<<
Ok(cow_borrowed({ transmute::<&[u8], &UnalignedVector<f32>>(bytes) }))
===
Ok(uvf_from_bytes_(bytes))
>>>
//@spec
    ensures
        bytes@.len() % 4 == 0 ==> r is Ok && r->Ok_0.vector@ == bytes@,
        bytes@.len() % 4 != 0 ==> r is Err && r->Err_0.rem == bytes@.len() % 4,
//@end
//@extract src/unaligned_vector/f32.rs | impl UnalignedVectorCodec for f32 | len
//@subst
<<<
fn len(vec: &UnalignedVector<Self>)
===
pub fn len(vec: &UnalignedVectorF32)
>>>
//@subst
<<<
size_of::<f32>()
===
size_of_f32_()
>>>
//@spec
    ensures r == vec.vector@.len() / 4,
//@end
}

/// C12, read-back: what `iter` yields from the bytes `from_slice_non_optimized` stored is, position by position, the sign of the
/// input component, and -1 (bit false) in the padding up to the next multiple of 64
pub proof fn lemma_read_back(s: Seq<f32>, stored: Seq<u8>, it: BinaryQuantizedIterator)
    requires bits_of(stored) =~= signs_of(s), it@ =~= bits_of(stored)
    ensures it@.len() == padded_len(s.len() as int),
        forall|i: int| 0 <= i < s.len() ==> it@[i] == sign_pos(s[i]),
        forall|i: int| s.len() <= i < it@.len() ==> !it@[i],
{ }


} // verus!
fn main() {}
