// Unit `used_nodes`: Writer::used_tree_node (the ids the node-id generator must avoid: C13 / C01 freshness, C10 error reporting)
#![allow(non_snake_case, unused, deprecated)]
use vstd::prelude::*;
verus! {
//@include lib/prelude.rs
//@include lib/keys.rs
//@include lib/specs_store.rs

/// what `Iterator::try_fold` hands to the closure at position `j` of the listing
pub open spec fn fold_item<DC: DataCodec>(it: RoIter<DC>, j: int, x: heed::Result<(Key, DC::DItem)>) -> bool {
    match x {
        Ok((k, v)) => 0 <= j < it.keys@.len() && k.a() == it.keys@[j] && k._padding == 0 && it.snap@.contains_key(k.a()) && it.sel@.has(k.a())
            && DC::dec_ok(&v, it.snap@[k.a()]),
        Err(e) => e is Heed && it.faulty@,
    }
}
impl<DC: DataCodec> RoIter<DC> {
    /// `Iterator::try_fold` on a read-only listing (trusted stand-in; `inv` is the ghost fold invariant
    /// supplied by rule //@ghostarg): the closure is applied to the entries in order, its first `Err`
    /// is the result, otherwise the last accumulator.  A closure that turns a read error into `Ok`
    /// is outside this stand-in (precondition).
    #[verifier::external_body]
    pub fn try_fold<B, F: Fn(B, heed::Result<(Key, DC::DItem)>) -> Result<B>>(self, init: B, f: F, Ghost(inv): Ghost<spec_fn(Seq<AKey>, int, B) -> bool>) -> (r: Result<B>)
        requires
            self.pos@ == 0,
            is_listing_dir(self.snap@, self.sel@, self.keys@, self.rev@),
            inv(self.keys@, 0, init),
            forall|acc: B, x: heed::Result<(Key, DC::DItem)>| is_heed(x) ==> #[trigger] f.requires((acc, x)),
            forall|j: int, acc: B, x: heed::Result<(Key, DC::DItem)>, out: B| #![trigger inv(self.keys@, j, acc), f.ensures((acc, x), Ok(out))] inv(self.keys@, j, acc) && fold_item(self, j, x) && f.ensures((acc, x), Ok(out))
                ==> x is Ok && inv(self.keys@, j + 1, out),
        ensures
            r matches Ok(b) ==> inv(self.keys@, self.keys@.len() as int, b),
            r matches Err(e) ==> exists|acc: B, x: heed::Result<(Key, DC::DItem)>| #[trigger] f.ensures((acc, x), Err(e)),
    { unimplemented!() }
}

/// `Result::unwrap_or_default` (the value of the `Err` case is left unspecified) and the default of a bitmap: present so that
/// code which turns an error of the scan into a default value is refuted, not rejected as unsupported
pub assume_specification<T: core::default::Default, E>[core::result::Result::<T, E>::unwrap_or_default](res: core::result::Result<T, E>) -> (out: T)
    ensures res matches Ok(v) ==> out == v;
impl core::default::Default for RoaringBitmap {
    #[verifier::external_body]
    fn default() -> (r: RoaringBitmap) ensures r@ == Set::<u32>::empty() { unimplemented!() }
}

impl Writer {
//@extract src/writer.rs | impl<D: Distance> Writer<D> | used_tree_node
//@specfile lib/contracts/used_tree_node.spec
//@subst
<<<
|mut bitmap, used| -> Result<RoaringBitmap> {
===
|bitmap__: RoaringBitmap, used: heed::Result<(Key, ())>| -> (rr: Result<RoaringBitmap>)
                requires is_heed(used),
                ensures rr matches Ok(b) ==> used matches Ok((k, u)) && b@ == bitmap__@.insert(k.node.item),
                        rr matches Err(e) ==> build_err(e),
            { let mut bitmap = bitmap__;
>>>
//@ghostarg try_fold <<<Ghost(|ks: Seq<AKey>, j: int, b: RoaringBitmap| forall|id: u32| b@.contains(id) <==> (exists|n: int| 0 <= n < j && #[trigger] ks[n] == tkey(self.index, id)))>>>
//@end
}
} // verus!
fn main() {}
