// Unit `search_lib`: C03 budget monotonicity from the contract of nns_by_leaf (no extracted code)
#![allow(non_snake_case, unused, deprecated)]
use vstd::prelude::*;
use vstd::multiset::Multiset;
verus! {
//@include lib/prelude.rs
//@include lib/keys.rs
//@include lib/specs_store.rs
//@include lib/forest.rs
//@include lib/reader_types.rs
//@include lib/search_trace.rs
//@include lib/search_mono.rs
} // verus!
fn main() {}
