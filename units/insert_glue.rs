// Unit `insert_glue`: Writer::insert_items_in_tree — the per-root map around insert_items_in_file (C01, C10, C13)
#![allow(non_snake_case, unused, deprecated)]
use vstd::prelude::*;
verus! {
//@include lib/prelude.rs
//@include lib/keys.rs
//@include lib/specs_store.rs
//@include lib/forest.rs
//@include lib/forest_delete.rs
//@include lib/frozen.rs
//@include lib/forest_insert.rs
//@include lib/forest_drivers.rs
//@include lib/writeback.rs
//@include lib/forest_iict.rs
//@include lib/frozen_build.rs
pub open spec fn cap_of(opt: &BuildOption, dimensions: usize) -> u64 {
    (match opt.split_after { Some(s) => s, None => dimensions }) as u64
}

impl Writer {
//@extract src/writer.rs | impl<D: Distance> Writer<D> | insert_items_in_file
//@stub
//@specfile lib/contracts/insert_items_in_file.spec
//@end

//@extract src/writer.rs | impl<D: Distance> Writer<D> | insert_items_in_tree
//@attr #[verifier::exec_allows_no_decreases_clause]
//@tmpctx frozen_reader
//@specfile lib/contracts/insert_items_in_tree.spec
//@hint start <<<>>>
            let ghost s = frozen_reader.trees.snap(); let ghost idx = self.index; let ghost cap = cap_of(opt, self.dimensions); let ghost ins = to_insert@;
//@loop 0
            invariant
                s == frozen_reader.trees.snap(), idx == self.index, cap == cap_of(opt, self.dimensions), cap >= 1, ins == to_insert@,
                frozen_reader.concurrent_node_ids.covers(self.index), ins.subset_of(frozen_reader.leafs.ids()),
                forall|k: int| 0 <= k < roots@.len() ==> tree(s, tn(#[trigger] roots@[k])) && ins.disjoint(titems(s, tn(roots@[k]))),
                forall|id: u32| #![trigger s.contains_key(id)] s.contains_key(id) ==> frozen_reader.trees.db_has(id),
                0 <= par__ <= roots@.len(), out__@.len() == par__,
                forall|k: int| 0 <= k < par__ ==> glue_one(s, pr_of(&(#[trigger] out__@[k]).0, out__@[k].1@, idx), roots@[k], ins, cap, frozen_reader.leafs)
                    && out__@[k].0.rm() == Map::<u32, u32>::empty()
                    && (forall|id: u32| #![trigger frozen_reader.trees.db_has(id)] frozen_reader.trees.db_has(id) ==> ((out__@[k]).0.taken())(idx).contains(id)),
//@loopstart 0
                let ghost k0 = par__ as int; let ghost o0 = out__@;
//@hint before <<<let root_node = NodeId::tree(*root);>>>
                let ghost tk = (tmp_descendant.taken())(idx);
                proof {
                    assert(tmp_descendant.tv() == empty_tv());
                    assert forall|id: u32| #![trigger frozen_reader.trees.db_has(id)] frozen_reader.trees.db_has(id) implies tk.contains(id) by { assert(frozen_reader.has_tree(idx, id)); }
                    assert forall|k: u32| #![trigger s.contains_key(k)] s.contains_key(k) implies tk.contains(k) by { assert(frozen_reader.trees.db_has(k)); }
                    assert(tree(s, tn(roots@[k0])) && ins.disjoint(titems(s, tn(roots@[k0]))));
                    lemma_nodes_exist(s, tn(roots@[k0]));
                }
//@loopend 0
                proof {
                    reveal(glue_one);
                    let rd = out__@[k0].0; let lg = out__@[k0].1@;
                    assert(out__@ == o0.push(out__@[k0]));
                    assert forall|k: int| 0 <= k < k0 + 1 implies glue_one(s, pr_of(&(#[trigger] out__@[k]).0, out__@[k].1@, idx), roots@[k], ins, cap, frozen_reader.leafs)
                        && out__@[k].0.rm() == Map::<u32, u32>::empty()
                        && (forall|id: u32| #![trigger frozen_reader.trees.db_has(id)] frozen_reader.trees.db_has(id) ==> ((out__@[k]).0.taken())(idx).contains(id)) by {
                        if k < k0 { assert(out__@[k] == o0[k]); }
                        else {
                            assert(rd.tv() == tmp_descendant.tv() && rd.allocated() == tmp_descendant.allocated() && rd.taken() == tmp_descendant.taken() && rd.rm() == tmp_descendant.rm());
                            assert((rd.taken())(idx) == tk);
                            assert(pr_of(&rd, lg, idx) == (PR { tv: tmp_descendant.tv(), al: tmp_descendant.allocated(), tk: tk, lg: large_descendants@ }));
                        }
                    }
                }
//@hint before#2 <<<Ok(out__)>>>
            proof {
                let res = prs(out__@, idx);
                assert forall|k: int| 0 <= k < roots@.len() implies glue_one(s, #[trigger] res[k], roots@[k], ins, cap, frozen_reader.leafs) by {
                    assert(res[k] == pr_of(&out__@[k].0, out__@[k].1@, idx));
                }
            }
//@end
}
} // verus!
fn main() {}
