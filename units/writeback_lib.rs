// Unit `writeback_lib`: lemmas about writing staged tree edits back (no extracted code)
#![allow(non_snake_case, unused, deprecated)]
use vstd::prelude::*;
verus! {
//@include lib/prelude.rs
//@include lib/specs_store.rs
//@include lib/forest.rs
//@include lib/forest_delete.rs
//@include lib/frozen.rs
//@include lib/forest_drivers.rs
//@include lib/writeback.rs
} // verus!
fn main() {}
