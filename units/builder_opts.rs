// Unit `builder_opts`: the public ArroyBuilder — its option setters and build() — the entry point users call (C15, C14, C01)
#![allow(non_snake_case, unused, deprecated)]
use vstd::prelude::*;
verus! {
//@include lib/prelude.rs
//@include lib/keys.rs
//@include lib/specs_store.rs
//@include lib/forest.rs
//@include lib/forest_delete.rs
//@include lib/frozen.rs
//@include lib/forest_insert.rs
//@include lib/forest_make.rs
//@include lib/forest_drivers.rs
//@include lib/writeback.rs
//@include lib/forest_iict.rs
//@include lib/forest_incr.rs
//@include lib/inv_specs.rs
//@include lib/build_specs.rs
pub open spec fn cap_of(opt: &BuildOption, dimensions: usize) -> u64 {
    (match opt.split_after { Some(s) => s, None => dimensions }) as u64
}
pub struct ArroyBuilder<'a, R> { pub writer: &'a Writer, pub rng: &'a mut R, pub inner: BuildOption }

impl BuildOption {
    /// `impl Default for BuildOption`: no option set (the two boxed callbacks are not modelled: any callback)
//@extract src/writer.rs | impl Default for BuildOption<'_> | default
//@subst count=any
<<<
            cancel: Box::new(|| false),
            progress: Box::new(|_| ()),
===
            x: 0,
>>>
//@spec
    ensures r.n_trees is None, r.split_after is None, r.available_memory is None
//@end
}
impl Writer {
//@extract src/writer.rs | impl<D: Distance> Writer<D> | build
//@stub
//@specfile lib/contracts/build.spec
//@end
//@extract src/writer.rs | impl<D: Distance> Writer<D> | builder
//@noglobal R1d R1e R1f R1g
//@subst count=any
<<<
ArroyBuilder<'a, D, R>
===
ArroyBuilder<'a, R>
>>>
//@spec
    ensures r.writer == self, r.inner.n_trees is None, r.inner.split_after is None, r.inner.available_memory is None
//@end
}

impl<'a, R: Rng> ArroyBuilder<'a, R> {
//@extract src/writer.rs | impl<'a, D: Distance, R: Rng + SeedableRng> ArroyBuilder<'a, D, R> | n_trees
//@spec
    ensures r.inner.n_trees == Some(n_trees), r.inner.split_after == old(self).inner.split_after, r.inner.available_memory == old(self).inner.available_memory,
        r.writer == old(self).writer, *final(r) == *final(self),
//@end
//@extract src/writer.rs | impl<'a, D: Distance, R: Rng + SeedableRng> ArroyBuilder<'a, D, R> | split_after
//@spec
    ensures r.inner.split_after == Some(split_after), r.inner.n_trees == old(self).inner.n_trees, r.inner.available_memory == old(self).inner.available_memory,
        r.writer == old(self).writer, *final(r) == *final(self),
//@end
//@extract src/writer.rs | impl<'a, D: Distance, R: Rng + SeedableRng> ArroyBuilder<'a, D, R> | available_memory
//@spec
    ensures r.inner.available_memory == Some(memory), r.inner.n_trees == old(self).inner.n_trees, r.inner.split_after == old(self).inner.split_after,
        r.writer == old(self).writer, *final(r) == *final(self),
//@end
//@extract src/writer.rs | impl<'a, D: Distance, R: Rng + SeedableRng> ArroyBuilder<'a, D, R> | build
//@spec
    requires
        index_inv(old(wtxn).view(), old(self).writer.index, cap_of(&old(self).inner, old(self).writer.dimensions)),
        cap_of(&old(self).inner, old(self).writer.dimensions) >= 1, 1 <= old(self).writer.dimensions <= u32::MAX,
    ensures
        // the options the user set are the ones the build honours (C15: tree count, capacity; C14: any memory hint)
        r is Ok ==> built(old(wtxn).view(), final(wtxn).view(), old(self).writer.index, cap_of(&old(self).inner, old(self).writer.dimensions),
                          old(self).writer.dimensions as u32, old(self).inner.n_trees),
        r matches Err(e) ==> build_err(e),
        same_except(old(wtxn).view(), final(wtxn).view(), old(self).writer.index, true, true, true, true),
//@end
}
} // verus!
fn main() {}
