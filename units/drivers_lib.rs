// Unit `drivers_lib`: lemmas for the loop drivers (no extracted code)
#![allow(non_snake_case, unused, deprecated)]
use vstd::prelude::*;
verus! {
//@include lib/prelude.rs
//@include lib/specs_store.rs
//@include lib/forest.rs
//@include lib/forest_delete.rs
//@include lib/forest_drivers.rs
} // verus!
fn main() {}
