// Unit `upgrade`: upgrade::from_0_5_to_0_6 (C17, second sentence)
#![allow(non_snake_case, unused, deprecated)]
use vstd::prelude::*;
verus! {
//@include lib/prelude.rs
//@include lib/keys.rs
//@include lib/specs_store.rs

#[verifier::external_body] pub fn pkg_version_major_() -> (r: u32) ensures r == pkg_version().0 { unimplemented!() }
#[verifier::external_body] pub fn pkg_version_minor_() -> (r: u32) ensures r == pkg_version().1 { unimplemented!() }
#[verifier::external_body] pub fn pkg_version_patch_() -> (r: u32) ensures r == pkg_version().2 { unimplemented!() }
pub uninterp spec fn pkg_version() -> (u32, u32, u32);
pub open spec fn version_val() -> AVal { AVal::Version(pkg_version().0, pkg_version().1, pkg_version().2) }

/// what from_0_5_to_0_6 must have written after the indexes below `n` were processed
pub open spec fn stamped(r: DbView, w0: DbView, w: DbView, n: int) -> bool {
    forall|k: AKey| #![trigger w.contains_key(k)] #![trigger w0.contains_key(k)]
        if k.kind == NodeMode::Metadata && k.id == 1 && k.index < n && r.contains_key(mkey(k.index)) {
            w.contains_key(k) && w[k] == version_val()
        } else {
            w.contains_key(k) == w0.contains_key(k) && (w.contains_key(k) ==> w[k] == w0[k])
        }
}

//@extract src/upgrade.rs | - | from_0_5_to_0_6
//@attr #[verifier::exec_allows_no_decreases_clause]
//@subst
<<<
from_0_5_to_0_6<C: Distance>(
===
from_0_5_to_0_6(
>>>
//@subst count=2
<<<
Database<C>
===
Database
>>>
//@subst
<<<
env!("CARGO_PKG_VERSION_MAJOR").parse().unwrap()
===
pkg_version_major_()
>>>
//@subst
<<<
env!("CARGO_PKG_VERSION_MINOR").parse().unwrap()
===
pkg_version_minor_()
>>>
//@subst
<<<
env!("CARGO_PKG_VERSION_PATCH").parse().unwrap()
===
pkg_version_patch_()
>>>
//@spec
    ensures
        // C17: a version record is added to exactly the indexes that have metadata (all 65536 index numbers), nothing else changes
        r is Ok ==> stamped(rtxn.view(), old(wtxn).view(), final(wtxn).view(), 65536),
        r matches Err(e) ==> e is Heed,
//@loop 0
        invariant
            0 <= cnti__ <= 65536,
            stamped(rtxn.view(), old(wtxn).view(), wtxn.view(), cnti__ as int),
            version.major == pkg_version().0 && version.minor == pkg_version().1 && version.patch == pkg_version().2,
//@end

} // verus!
fn main() {}
