use vstd::prelude::*;
verus! {

#[verifier::external_body]
pub struct Bm { inner: Vec<u32> }
impl View for Bm { type V = Set<u32>; uninterp spec fn view(&self) -> Set<u32>; }

impl core::ops::SubAssign<&Bm> for Bm {
    #[verifier::external_body]
    fn sub_assign(&mut self, other: &Bm)
        ensures final(self)@ == old(self)@.difference(other@)
    { unimplemented!() }
}

impl<'a> core::ops::BitOr<&'a Bm> for &'a Bm {
    type Output = Bm;
    #[verifier::external_body]
    fn bitor(self, other: &'a Bm) -> (r: Bm)
        ensures r@ == self@.union(other@)
    { unimplemented!() }
}

fn t1(a: &mut Bm, b: &Bm) ensures final(a)@ == old(a)@.difference(b@) {
    *a -= b;
}


fn t3(dot: f32) -> (r: u8) {
    if dot > 0.0 { 1 } else if dot < 0.0 { 2 } else { 3 }
}

pub enum E1 { A }
pub enum E2 { B(E1) }
impl From<E1> for E2 { fn from(e: E1) -> E2 { E2::B(e) } }
#[verifier::external_body]
fn g() -> Result<u8, E1> { unimplemented!() }
fn t4() -> Result<u8, E2> {
    let x = g()?;
    Ok(x)
}

fn t5(n: u32) -> (r: u32) ensures r == n {
    let mut c: u32 = 0;
    for i in 0..n
        invariant c == i
    {
        c += 1;
    }
    c
}

fn t6(v: &mut Vec<u32>) {
    while let Some(x) = v.pop()
        decreases v.len()
    {
    }
}

} // verus!
fn main() {}
