use std::borrow::Cow;

use rand::{Error as RandError, RngCore};

use crate::distance::{Distance, NodeHeaderEuclidean};
use crate::internals::{Leaf, Side};
use crate::parallel::ImmutableSubsetLeafs;
use crate::unaligned_vector::{binary_quantized_probe, UnalignedVector};

struct KRng;
impl RngCore for KRng {
    fn next_u32(&mut self) -> u32 { kani::any() }
    fn next_u64(&mut self) -> u64 { kani::any() }
    fn fill_bytes(&mut self, dest: &mut [u8]) { for b in dest.iter_mut() { *b = kani::any(); } }
    fn try_fill_bytes(&mut self, dest: &mut [u8]) -> Result<(), RandError> { self.fill_bytes(dest); Ok(()) }
}

static mut MARGIN: f32 = 0.0;

#[derive(Debug, Clone)]
enum KDist {}
impl Distance for KDist {
    type Header = NodeHeaderEuclidean;
    type VectorCodec = f32;
    fn name() -> &'static str { "k" }
    fn new_header(_v: &UnalignedVector<f32>) -> Self::Header { bytemuck::Zeroable::zeroed() }
    fn built_distance(_p: &Leaf<Self>, _q: &Leaf<Self>) -> f32 { 0.0 }
    fn norm_no_header(_v: &UnalignedVector<f32>) -> f32 { 0.0 }
    fn init(_n: &mut Leaf<Self>) {}
    fn create_split<'a, R: rand::Rng>(_c: &'a ImmutableSubsetLeafs<Self>, _r: &mut R) -> heed::Result<Cow<'a, UnalignedVector<f32>>> { unimplemented!() }
    fn margin_no_header(_p: &UnalignedVector<f32>, _q: &UnalignedVector<f32>) -> f32 { unsafe { MARGIN } }
}

#[kani::proof]
#[kani::unwind(6)]
fn side_follows_margin_sign() {
    let m: f32 = kani::any();
    unsafe { MARGIN = m; }
    let bytes = [0u8; 4];
    let v: &UnalignedVector<f32> = UnalignedVector::from_bytes_unchecked(&bytes);
    let leaf: Leaf<KDist> = Leaf { header: bytemuck::Zeroable::zeroed(), vector: Cow::Borrowed(v) };
    let mut rng = KRng;
    let s = KDist::side(v, &leaf, &mut rng);
    if m > 0.0 { assert!(matches!(s, Side::Right)); }
    if m < 0.0 { assert!(matches!(s, Side::Left)); }
}

#[kani::proof]
#[kani::unwind(70)]
fn bq_from_slice_65() {
    let v: [f32; 65] = kani::any();
    let out = binary_quantized_probe(&v);
    assert!(out.len() == 16);
    let i: usize = kani::any();
    kani::assume(i < 65);
    let w = i / 64; let b = i % 64;
    let mut word = [0u8; 8];
    word.copy_from_slice(&out[w * 8..w * 8 + 8]);
    let word = u64::from_ne_bytes(word);
    assert!(((word >> b) & 1 == 1) == v[i].is_sign_positive());
    // padding bits are zero
    let j: usize = kani::any();
    kani::assume(j >= 65 && j < 128);
    let mut word2 = [0u8; 8];
    word2.copy_from_slice(&out[8..16]);
    assert!((u64::from_ne_bytes(word2) >> (j - 64)) & 1 == 0);
}
