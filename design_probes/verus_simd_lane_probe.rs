use vstd::prelude::*;
use vstd::multiset::Multiset;
verus! {

// ghost term algebra: we only track, per lane, the multiset of indices that contributed
pub struct Lanes4 { pub c: Ghost<Seq<Multiset<int>>> }   // 4 lanes

pub struct FPtr { pub vec_len: Ghost<int>, pub off: usize }

impl FPtr {
    #[verifier::external_body]
    pub fn add(&self, k: usize) -> (r: FPtr)
        requires self.off + k <= usize::MAX
        ensures r.off == self.off + k, r.vec_len == self.vec_len
    { unimplemented!() }
}

pub open spec fn lane_ok(l: Lanes4) -> bool { l.c@.len() == 4 }

#[verifier::external_body]
pub fn _mm_setzero_ps() -> (r: Lanes4)
    ensures lane_ok(r), forall|j: int| 0 <= j < 4 ==> r.c@[j] == Multiset::<int>::empty()
{ unimplemented!() }

// product of two loads at the same offset: lanes carry {off+j}
#[verifier::external_body]
pub fn mul_loads(p1: &FPtr, p2: &FPtr) -> (r: Lanes4)
    requires p1.off + 4 <= p1.vec_len@, p2.off + 4 <= p2.vec_len@, p1.off == p2.off
    ensures lane_ok(r), forall|j: int| 0 <= j < 4 ==> r.c@[j] == Multiset::<int>::singleton(p1.off as int + j)
{ unimplemented!() }

#[verifier::external_body]
pub fn _mm_add_ps(a: Lanes4, b: Lanes4) -> (r: Lanes4)
    requires lane_ok(a), lane_ok(b)
    ensures lane_ok(r), forall|j: int| 0 <= j < 4 ==> r.c@[j] == a.c@[j].add(b.c@[j])
{ unimplemented!() }

pub open spec fn range_ms(lo: int, hi: int) -> Multiset<int>
    decreases hi - lo
{
    if hi <= lo { Multiset::empty() } else { range_ms(lo, hi - 1).insert(hi - 1) }
}

// lanes of accumulator k (k-th group of 4 in each 16 block) after processing [0, i)
pub open spec fn acc_lane(i: int, k: int, j: int) -> Multiset<int>
    decreases (if i > 0 { i } else { 0 })
{
    if i <= 0 { Multiset::empty() } else { acc_lane(i - 16, k, j).insert(i - 16 + 4 * k + j) }
}

fn kernel(n: usize, p1: FPtr, p2: FPtr) -> (r: (Lanes4, Lanes4))
    requires p1.off == 0, p2.off == 0, p1.vec_len@ == n, p2.vec_len@ == n,
    ensures
        forall|j: int| 0 <= j < 4 ==> r.0.c@[j] == acc_lane((n - n % 16) as int, 0, j),
        forall|j: int| 0 <= j < 4 ==> r.1.c@[j] == acc_lane((n - n % 16) as int, 1, j),
{
    let m = n - (n % 16);
    let mut ptr1 = p1;
    let mut ptr2 = p2;
    let mut sum128_1 = _mm_setzero_ps();
    let mut sum128_2 = _mm_setzero_ps();
    let mut i: usize = 0;
    while i < m
        invariant
            m == n - n % 16, i <= m, i % 16 == 0, ptr1.off == i, ptr2.off == i,
            ptr1.vec_len@ == n, ptr2.vec_len@ == n,
            lane_ok(sum128_1), lane_ok(sum128_2),
            forall|j: int| 0 <= j < 4 ==> sum128_1.c@[j] == acc_lane(i as int, 0, j),
            forall|j: int| 0 <= j < 4 ==> sum128_2.c@[j] == acc_lane(i as int, 1, j),
        decreases m - i
    {
        sum128_1 = _mm_add_ps(mul_loads(&ptr1, &ptr2), sum128_1);
        sum128_2 = _mm_add_ps(mul_loads(&ptr1.add(4), &ptr2.add(4)), sum128_2);
        ptr1 = ptr1.add(16);
        ptr2 = ptr2.add(16);
        i += 16;
        assert forall|j: int| 0 <= j < 4 implies sum128_1.c@[j] == acc_lane(i as int, 0, j) by {
            assert(acc_lane(i as int, 0, j) == acc_lane(i as int - 16, 0, j).insert(i as int - 16 + j));
            assert(sum128_1.c@[j] =~= acc_lane(i as int - 16, 0, j).insert(i as int - 16 + j));
        }
        assert forall|j: int| 0 <= j < 4 implies sum128_2.c@[j] == acc_lane(i as int, 1, j) by {
            assert(acc_lane(i as int, 1, j) == acc_lane(i as int - 16, 1, j).insert(i as int - 16 + 4 + j));
            assert(sum128_2.c@[j] =~= acc_lane(i as int - 16, 1, j).insert(i as int - 16 + 4 + j));
        }
    }
    (sum128_1, sum128_2)
}

} // verus!
fn main() {}
