use vstd::prelude::*;
verus! {

// ---------- abstract DB
#[derive(Copy, Clone, PartialEq, Eq, Structural)]
pub enum Kind { Metadata, Updated, Tree, Item }
pub struct AKey { pub index: u16, pub kind: Kind, pub id: u32 }
pub enum AVal { Unit, Leaf(Seq<u8>, Seq<u8>), Other }

#[verifier::external_body]
pub struct RwTxn { x: u8 }
impl RwTxn { pub uninterp spec fn view(&self) -> Map<AKey, AVal>; }

pub struct Key { pub index: u16, pub node_kind: Kind, pub item: u32 }
impl Key {
    pub open spec fn a(&self) -> AKey { AKey { index: self.index, kind: self.node_kind, id: self.item } }
    pub const fn item(index: u16, item: u32) -> (r: Self) ensures r.a() == (AKey { index, kind: Kind::Item, id: item }) { Key { index, node_kind: Kind::Item, item } }
    pub const fn updated(index: u16, item: u32) -> (r: Self) ensures r.a() == (AKey { index, kind: Kind::Updated, id: item }) { Key { index, node_kind: Kind::Updated, item } }
}

pub enum Error { Heed, InvalidVecDimension { expected: usize, received: usize } }
pub type Result<T> = core::result::Result<T, Error>;

pub trait DbVal { spec fn aval(&self) -> AVal; }
impl DbVal for () { open spec fn aval(&self) -> AVal { AVal::Unit } }
pub struct Leaf { pub header: Ghost<Seq<u8>>, pub vector: Ghost<Seq<u8>> }
pub enum Node { Leaf(Leaf) }
impl DbVal for Node { open spec fn aval(&self) -> AVal { match self { Node::Leaf(l) => AVal::Leaf(l.header@, l.vector@) } } }

pub struct Database { pub x: u8 }
impl Database {
    #[verifier::external_body]
    pub fn put<V: DbVal>(&self, wtxn: &mut RwTxn, key: &Key, v: &V) -> (r: Result<()>)
        ensures match r { Ok(_) => final(wtxn).view() == old(wtxn).view().insert(key.a(), v.aval()), Err(_) => final(wtxn).view() == old(wtxn).view() }
    { unimplemented!() }
    #[verifier::external_body]
    pub fn delete(&self, wtxn: &mut RwTxn, key: &Key) -> (r: Result<bool>)
        ensures match r { Ok(b) => b == old(wtxn).view().contains_key(key.a()) && final(wtxn).view() == old(wtxn).view().remove(key.a()), Err(_) => final(wtxn).view() == old(wtxn).view() }
    { unimplemented!() }
}

pub struct Writer { pub database: Database, pub index: u16, pub dimensions: usize }

pub open spec fn others_unchanged(a: Map<AKey, AVal>, b: Map<AKey, AVal>, i: u16) -> bool {
    forall|k: AKey| k.index != i ==> (a.contains_key(k) == b.contains_key(k) && (a.contains_key(k) ==> a[k] == b[k]))
}

#[verifier::external_body]
fn mk_leaf(vector: &[f32]) -> (l: Leaf) { unimplemented!() }

impl Writer {
    // near-verbatim del_item (R2 applied: remap_data_type::<Unit>() dropped)
    pub fn del_item(&self, wtxn: &mut RwTxn, item: u32) -> (r: Result<bool>)
        ensures
            others_unchanged(old(wtxn).view(), final(wtxn).view(), self.index),
            match r {
                Ok(true) => old(wtxn).view().contains_key(AKey { index: self.index, kind: Kind::Item, id: item })
                    && final(wtxn).view() == old(wtxn).view().remove(AKey { index: self.index, kind: Kind::Item, id: item }).insert(AKey { index: self.index, kind: Kind::Updated, id: item }, AVal::Unit),
                Ok(false) => !old(wtxn).view().contains_key(AKey { index: self.index, kind: Kind::Item, id: item }) && final(wtxn).view() == old(wtxn).view(),
                Err(_) => true,
            }
    {
        if self.database.delete(wtxn, &Key::item(self.index, item))? {
            self.database.put(
                wtxn,
                &Key::updated(self.index, item),
                &(),
            )?;

            Ok(true)
        } else {
            Ok(false)
        }
    }
}

// ---------- C13 issued-ticket stand-ins
#[verifier::external_body]
pub struct AtomicU32 { x: u8 }
impl AtomicU32 {
    pub uninterp spec fn issued(&self, v: u32) -> bool;
    #[verifier::external_body]
    pub fn fetch_add(&self, val: u32, order: Ordering) -> (v: u32) ensures self.issued(v) { unimplemented!() }
    #[verifier::external_body]
    pub fn load(&self, order: Ordering) -> (v: u32) { unimplemented!() }
    #[verifier::external_body]
    pub fn store(&self, v: u32, order: Ordering) { unimplemented!() }
}
#[verifier::external_body]
pub struct AtomicU64 { x: u8 }
impl AtomicU64 {
    #[verifier::external_body]
    pub fn fetch_add(&self, val: u64, order: Ordering) -> (v: u64) { unimplemented!() }
}
#[verifier::external_body]
pub struct AtomicBool { x: u8 }
impl AtomicBool {
    #[verifier::external_body]
    pub fn load(&self, order: Ordering) -> (v: bool) { unimplemented!() }
    #[verifier::external_body]
    pub fn store(&self, v: bool, order: Ordering) { unimplemented!() }
}
pub enum Ordering { Relaxed }
pub enum Err2 { DatabaseFull }

#[verifier::external_body]
pub struct Bm { x: u8 }
impl Bm {
    pub uninterp spec fn view(&self) -> Set<u32>;
    pub uninterp spec fn nth(&self, n: u32) -> Option<u32>;
    #[verifier::external_body]
    pub fn select(&self, n: u32) -> (r: Option<u32>) ensures r == self.nth(n), r is Some ==> self.view().contains(r->0) { unimplemented!() }
}

pub struct ConcurrentNodeIds {
    pub current: AtomicU32,
    pub used: AtomicU64,
    pub available: Bm,
    pub select_in_bitmap: AtomicU32,
    pub look_into_bitmap: AtomicBool,
}

impl ConcurrentNodeIds {
    pub fn next(&self) -> (r: core::result::Result<u32, Err2>)
        ensures match r {
            Ok(id) => (exists|s: u32| self.select_in_bitmap.issued(s) && self.available.nth(s) == Some(id)) || self.current.issued(id),
            Err(_) => true,
        }
    {
        if self.used.fetch_add(1, Ordering::Relaxed) > u32::MAX as u64 {
            Err(Err2::DatabaseFull)
        } else if self.look_into_bitmap.load(Ordering::Relaxed) {
            let current = self.select_in_bitmap.fetch_add(1, Ordering::Relaxed);
            match self.available.select(current) {
                Some(id) => Ok(id),
                None => {
                    self.look_into_bitmap.store(false, Ordering::Relaxed);
                    Ok(self.current.fetch_add(1, Ordering::Relaxed))
                }
            }
        } else {
            Ok(self.current.fetch_add(1, Ordering::Relaxed))
        }
    }
}

} // verus!
fn main() {}
