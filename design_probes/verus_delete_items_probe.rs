use vstd::prelude::*;
verus! {

pub type ItemId = u32;

#[derive(Copy, Clone, PartialEq, Eq, Structural)]
pub enum NodeMode { Metadata, Updated, Tree, Item }

#[derive(Copy, Clone, PartialEq, Eq, Structural)]
pub struct NodeId { pub mode: NodeMode, pub item: ItemId }

impl NodeId {
    pub const fn tree(item: u32) -> (r: Self) ensures r.mode == NodeMode::Tree, r.item == item { Self { mode: NodeMode::Tree, item } }
    pub const fn item(item: u32) -> (r: Self) ensures r.mode == NodeMode::Item, r.item == item { Self { mode: NodeMode::Item, item } }
}

// ---- stand-in for roaring::RoaringBitmap: assumed contract, view = Set<u32>
#[verifier::external_body]
pub struct RoaringBitmap { inner: Vec<u32> }

impl View for RoaringBitmap {
    type V = Set<u32>;
    uninterp spec fn view(&self) -> Set<u32>;
}

impl RoaringBitmap {
    #[verifier::external_body]
    pub fn new() -> (r: Self) ensures r@ == Set::<u32>::empty() { unimplemented!() }
    #[verifier::external_body]
    pub fn len(&self) -> (r: u64) ensures r == self@.len() { unimplemented!() }
    #[verifier::external_body]
    pub fn contains(&self, x: u32) -> (r: bool) ensures r == self@.contains(x) { unimplemented!() }
    #[verifier::external_body]
    pub fn is_empty(&self) -> (r: bool) ensures r == (self@ == Set::<u32>::empty()) { unimplemented!() }
    #[verifier::external_body]
    pub fn sub_assign(&mut self, other: &RoaringBitmap) ensures final(self)@ == old(self)@.difference(other@) { unimplemented!() }
    #[verifier::external_body]
    pub fn bitor(a: &RoaringBitmap, b: &RoaringBitmap) -> (r: RoaringBitmap) ensures r@ == a@.union(b@) { unimplemented!() }
    #[verifier::external_body]
    pub fn singleton(x: u32) -> (r: RoaringBitmap) ensures r@ == set![x] { unimplemented!() }
    #[verifier::external_body]
    pub fn clone(&self) -> (r: RoaringBitmap) ensures r@ == self@ { unimplemented!() }
}

pub struct Descendants { pub descendants: RoaringBitmap }
#[verifier::external_body]
pub struct Normal { x: Vec<u8> }
pub struct SplitPlaneNormal { pub left: NodeId, pub right: NodeId, pub normal: Normal }
pub struct Leaf { pub x: u8 }
pub enum Node { Leaf(Leaf), Descendants(Descendants), SplitPlaneNormal(SplitPlaneNormal) }

pub enum Error { Heed, Io, BuildCancelled, DatabaseFull, MissingKey }
pub type Result<T> = core::result::Result<T, Error>;

pub struct BuildOption { pub split_after: Option<usize>, pub n_trees: Option<usize>, pub available_memory: Option<usize> }
impl BuildOption {
    #[verifier::external_body]
    pub fn cancelled(&self) -> (r: Result<()>) { unimplemented!() }
}

// abstract tree node
pub enum TNode { Desc(Set<u32>), Split(NodeId, NodeId) }

#[verifier::external_body]
pub struct Database { x: u8 }
#[verifier::external_body]
pub struct RoTxn { x: u8 }

pub struct Key { pub index: u16, pub node: NodeId }
impl Key {
    pub const fn tree(index: u16, item: u32) -> (r: Self) ensures r.index == index, r.node.mode == NodeMode::Tree, r.node.item == item { Key { index, node: NodeId::tree(item) } }
}

pub open spec fn node_view(n: Node) -> TNode {
    match n {
        Node::Leaf(_) => TNode::Desc(Set::empty()),
        Node::Descendants(d) => TNode::Desc(d.descendants@),
        Node::SplitPlaneNormal(s) => TNode::Split(s.left, s.right),
    }
}

impl RoTxn {
    pub uninterp spec fn trees(&self, index: u16) -> Map<u32, TNode>;
}

impl Database {
    #[verifier::external_body]
    pub fn get(&self, rtxn: &RoTxn, key: &Key) -> (r: Result<Option<Node>>)
        ensures
            key.node.mode == NodeMode::Tree ==> match r {
                Ok(Some(n)) => rtxn.trees(key.index).contains_key(key.node.item) && node_view(n) == rtxn.trees(key.index)[key.node.item] && !(n is Leaf),
                Ok(None) => !rtxn.trees(key.index).contains_key(key.node.item),
                Err(_) => true,
            }
    { unimplemented!() }
}

pub struct TmpNodes { pub puts: Ghost<Map<u32, TNode>>, pub deleted: Ghost<Set<u32>> }
impl TmpNodes {
    #[verifier::external_body]
    pub fn put(&mut self, item: ItemId, data: &Node) -> (r: Result<()>)
        requires item != u32::MAX
        ensures final(self).deleted@ == old(self).deleted@,
            r is Ok ==> final(self).puts@ == old(self).puts@.insert(item, node_view(*data)),
    { unimplemented!() }
    #[verifier::external_body]
    pub fn remove(&mut self, item: ItemId)
        ensures final(self).puts@ == old(self).puts@, final(self).deleted@ == old(self).deleted@.insert(item)
    { unimplemented!() }
}


pub open spec fn child_ok(id: NodeId) -> bool { id.mode == NodeMode::Tree || id.mode == NodeMode::Item }

// well-formed subtree with explicit fuel (height bound)
pub open spec fn wf(m: Map<u32, TNode>, id: NodeId, fuel: nat) -> bool
    decreases fuel
{
    child_ok(id) && (id.mode == NodeMode::Tree ==> (
        m.contains_key(id.item) && id.item != u32::MAX && match m[id.item] {
            TNode::Desc(_) => true,
            TNode::Split(l, r) => fuel > 0 && wf(m, l, (fuel - 1) as nat) && wf(m, r, (fuel - 1) as nat),
        }))
}

pub open spec fn items(m: Map<u32, TNode>, id: NodeId, fuel: nat) -> Set<u32>
    decreases fuel
{
    if id.mode == NodeMode::Item { set![id.item] }
    else if !m.contains_key(id.item) { Set::empty() }
    else { match m[id.item] {
        TNode::Desc(s) => s,
        TNode::Split(l, r) => if fuel > 0 { items(m, l, (fuel - 1) as nat).union(items(m, r, (fuel - 1) as nat)) } else { Set::empty() },
    } }
}

pub open spec fn twf(m: Map<u32, TNode>, id: NodeId) -> bool { exists|f: nat| wf(m, id, f) }
pub open spec fn ht(m: Map<u32, TNode>, id: NodeId) -> nat { choose|f: nat| wf(m, id, f) }
pub open spec fn titems(m: Map<u32, TNode>, id: NodeId) -> Set<u32> { items(m, id, ht(m, id)) }

pub proof fn lemma_mono(m: Map<u32, TNode>, id: NodeId, f: nat, g: nat)
    requires wf(m, id, f), f <= g
    ensures wf(m, id, g), items(m, id, f) == items(m, id, g)
    decreases f
{
    if id.mode == NodeMode::Tree {
        match m[id.item] {
            TNode::Desc(_) => {},
            TNode::Split(l, r) => {
                lemma_mono(m, l, (f - 1) as nat, (g - 1) as nat);
                lemma_mono(m, r, (f - 1) as nat, (g - 1) as nat);
            }
        }
    }
}

pub broadcast proof fn lemma_unfold(m: Map<u32, TNode>, x: u32)
    requires #[trigger] twf(m, NodeId { mode: NodeMode::Tree, item: x })
    ensures
        m.contains_key(x), x != u32::MAX,
        match m[x] {
            TNode::Desc(s) => titems(m, NodeId { mode: NodeMode::Tree, item: x }) == s,
            TNode::Split(l, r) => twf(m, l) && twf(m, r) && child_ok(l) && child_ok(r)
                && titems(m, NodeId { mode: NodeMode::Tree, item: x }) == titems(m, l).union(titems(m, r)),
        }
{
    let id = NodeId { mode: NodeMode::Tree, item: x };
    let f = ht(m, id);
    assert(wf(m, id, f));
    match m[x] {
        TNode::Desc(s) => {},
        TNode::Split(l, r) => {
            let f1 = (f - 1) as nat;
            assert(wf(m, l, f1));
            assert(wf(m, r, f1));
            let hl = ht(m, l); let hr = ht(m, r);
            assert(wf(m, l, hl)); assert(wf(m, r, hr));
            if hl <= f1 { lemma_mono(m, l, hl, f1); } else { lemma_mono(m, l, f1, hl); }
            if hr <= f1 { lemma_mono(m, r, hr, f1); } else { lemma_mono(m, r, f1, hr); }
        }
    }
}

pub broadcast proof fn lemma_item(m: Map<u32, TNode>, x: u32)
    ensures #[trigger] titems(m, NodeId { mode: NodeMode::Item, item: x }) == set![x]
{
}


pub struct Writer { pub database: Database, pub index: u16, pub dimensions: usize }

impl Writer {
    fn fit_in_descendant(&self, opt: &BuildOption, n: u64) -> (r: bool)
        ensures r == (n <= (match opt.split_after { Some(s) => s, None => self.dimensions }) as u64)
    {
        let max_in_descendant = opt.split_after.unwrap_or(self.dimensions) as u64;
        n <= max_in_descendant
    }

    #[verifier::exec_allows_no_decreases_clause]
    fn delete_items_in_file(
        &self,
        options: &BuildOption,
        rtxn: &RoTxn,
        current_node: ItemId,
        tmp_nodes: &mut TmpNodes,
        to_delete: &RoaringBitmap,
    ) -> (r: Result<(ItemId, RoaringBitmap)>)
        requires
            twf(rtxn.trees(self.index), NodeId { mode: NodeMode::Tree, item: current_node }),
        ensures
            match r {
                Ok((id, its)) => its@ == titems(rtxn.trees(self.index), NodeId { mode: NodeMode::Tree, item: current_node }).difference(to_delete@),
                Err(_) => true,
            }
    {
        broadcast use {lemma_unfold, lemma_item};
        options.cancelled()?;
        match self.database.get(rtxn, &Key::tree(self.index, current_node))?.unwrap() {
            Node::Leaf(_) => unreachable!(),
            Node::Descendants(Descendants { descendants }) => {
                let len = descendants.len();
                let mut new_descendants = descendants;
                new_descendants.sub_assign(to_delete);

                if len != new_descendants.len() {
                    // update the descendants
                    tmp_nodes.put(
                        current_node,
                        &Node::Descendants(Descendants {
                            descendants: new_descendants.clone(),
                        }),
                    )?;
                }
                Ok((current_node, new_descendants))
            }
            Node::SplitPlaneNormal(SplitPlaneNormal { normal, left, right }) => {
                let (new_left, left_items) = match left.mode {
                    NodeMode::Tree => {
                        let (id, items) = self
                            .delete_items_in_file(options, rtxn, left.item, tmp_nodes, to_delete)?;
                        (NodeId::tree(id), items)
                    }
                    NodeMode::Item => {
                        if to_delete.contains(left.item) {
                            (left, RoaringBitmap::new())
                        } else {
                            (left, RoaringBitmap::singleton(left.item))
                        }
                    }
                    NodeMode::Metadata | NodeMode::Updated => unreachable!(),
                };
                let (new_right, right_items) = match right.mode {
                    NodeMode::Tree => {
                        let (id, items) = self.delete_items_in_file(
                            options, rtxn, right.item, tmp_nodes, to_delete,
                        )?;
                        (NodeId::tree(id), items)
                    }
                    NodeMode::Item => {
                        if to_delete.contains(right.item) {
                            (right, RoaringBitmap::new())
                        } else {
                            (right, RoaringBitmap::singleton(right.item))
                        }
                    }
                    NodeMode::Metadata | NodeMode::Updated => unreachable!(),
                };

                let total_items = RoaringBitmap::bitor(&left_items, &right_items);

                if self.fit_in_descendant(options, total_items.len()) {
                    if new_left.mode == NodeMode::Tree {
                        tmp_nodes.remove(new_left.item);
                    }
                    if new_right.mode == NodeMode::Tree {
                        tmp_nodes.remove(new_right.item);
                    }

                    tmp_nodes.put(
                        current_node,
                        &Node::Descendants(Descendants {
                            descendants: total_items.clone(),
                        }),
                    )?;

                    Ok((current_node, total_items))
                } else if left_items.is_empty() {
                    if new_left.mode == NodeMode::Tree {
                        tmp_nodes.remove(new_left.item);
                    }
                    tmp_nodes.remove(current_node);
                    Ok((new_right.item, total_items))
                } else if right_items.is_empty() {
                    if new_right.mode == NodeMode::Tree {
                        tmp_nodes.remove(new_right.item);
                    }
                    tmp_nodes.remove(current_node);
                    Ok((new_left.item, total_items))
                } else {
                    if new_left != left || new_right != right {
                        tmp_nodes.put(
                            current_node,
                            &Node::SplitPlaneNormal(SplitPlaneNormal {
                                normal,
                                left: new_left,
                                right: new_right,
                            }),
                        )?;
                    }

                    Ok((current_node, total_items))
                }
            }
        }
    }
}

} // verus!
fn main() {}
